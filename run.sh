#!/bin/bash
# run.sh <Cnn> <quick|thorough> [extra args]   -- builds the harness against the current /repo tree, then runs the check.
# run.sh build                                   -- builds all variants (setup_cmd)
# run.sh replay <file>                           -- re-executes a recorded violation
set -u
SELF=$(dirname "$(readlink -f "$0")")
VERIF=${VERIF_ROOT:-$SELF}
REPO=${VERIF_REPO:-/repo}
GO=/root/go/pkg/mod/golang.org/toolchain@v0.0.1-go1.24.2.linux-amd64/bin/go
[ -x "$GO" ] || GO=$(command -v go)
export GOTOOLCHAIN=local GOFLAGS=-mod=mod GOPROXY=off GONOSUMDB='*' GONOSUMCHECK=1 GONOSUMVERIFY=1 CGO_ENABLED=1
unset GOSUMDB 2>/dev/null
export GOSUMDB=off
export VERIF_GO="$GO" VERIF_REPO_DIR="$REPO" VERIF_ROOT="$VERIF"
BIN="$VERIF/harness/bin"
mkdir -p "$BIN" "$VERIF/evidence"
cd "$VERIF/harness" || exit 2

MODFILE="$VERIF/harness/go.mod"
if [ "$REPO" != "/repo" ]; then
  # scratch copy under test (drills): same module file with a different replace target
  MODFILE="$BIN/alt.$(echo "$REPO" | md5sum | cut -c1-8).mod"
  sed "s#=> /repo#=> $REPO#" "$VERIF/harness/go.mod" > "$MODFILE"
  : > "${MODFILE%.mod}.sum"
fi

build() { # build <variant>
  local variant=$1 out
  if [ "$REPO" != "/repo" ]; then out="$BIN/vcheck-$variant-$(basename "$MODFILE" .mod)"; else out="$BIN/vcheck-$variant"; fi
  case "$variant" in
    std)  "$GO" build -modfile="$MODFILE" -tags verif -o "$out" ./cmd/vcheck ;;
    race) "$GO" build -modfile="$MODFILE" -race -tags verif -o "$out" ./cmd/vcheck ;;
    wasm) GOOS=js GOARCH=wasm CGO_ENABLED=0 "$GO" build -modfile="$MODFILE" -tags verif -o "$out" ./cmd/vcheck ;;
    ovl|portable)
      local od="$BIN/overlay-$variant-$(basename "$MODFILE" .mod)"
      rm -rf "$od"; python3 "$VERIF/tools/mkoverlay.py" "$REPO" "$od" "$variant" >/dev/null || return 2
      "$GO" build -modfile="$MODFILE" -tags "verif verifkern" -overlay "$od/overlay-$variant.json" -o "$out" ./cmd/vcheck ;;
    *) echo "unknown variant $variant" >&2; return 2 ;;
  esac || { echo "ERROR build of variant $variant failed" >&2; return 2; }
  echo "$out"
}

case "${1:-}" in
  build)
    build std >/dev/null || exit 2
    build race >/dev/null || exit 2
    build ovl >/dev/null || exit 2
    build portable >/dev/null || exit 2
    build wasm >/dev/null || exit 2
    exit 0 ;;
  replay)
    exe=$(build std) || exit 2
    exec "$exe" replay "$2" ;;
  "")
    echo "usage: run.sh <Cnn> <quick|thorough>" >&2; exit 2 ;;
esac

prop=$1; tier=${2:-quick}; shift; shift 2>/dev/null
variant=std
exe=$(build $variant) || exit 2
export VERIF_EXE="$exe"
if [ "$prop" = "C10" ]; then
  rexe=$(build race) || exit 2
  export VERIF_EXE_RACE="$rexe"
fi
if [ "$prop" = "C13" ]; then
  oexe=$(build ovl) || exit 2
  pexe=$(build portable) || exit 2
  export VERIF_EXE_OVL="$oexe" VERIF_EXE_PORTABLE="$pexe"
  wexe=$(build wasm) || exit 2
  export VERIF_EXE_WASM="$wexe" VERIF_WASM_EXEC="$("$GO" env GOROOT)/lib/wasm/wasm_exec_node.js"
fi
exec "$exe" "$prop" "$tier" "$@"
