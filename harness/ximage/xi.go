// Package ximage wraps the vendored x/image decoders behind a small API.
package ximage

import (
	"bytes"
	"errors"
	"image"

	"verif/ximage/vp8"
	"verif/ximage/vp8l"
	xwebp "verif/ximage/webp"
)

// Decode decodes a complete WebP file with x/image/webp.
func Decode(data []byte) (img image.Image, err error) {
	defer func() {
		if r := recover(); r != nil {
			err = errors.New("x/image panic")
		}
	}()
	return xwebp.Decode(bytes.NewReader(data))
}

// DecodeVP8 decodes a bare VP8 key frame payload to planes, optionally without loop filter.
func DecodeVP8(payload []byte, skipFilter bool) (m *image.YCbCr, err error) {
	defer func() {
		if r := recover(); r != nil {
			err = errors.New("x/image/vp8 panic")
		}
	}()
	d := vp8.NewDecoder()
	d.SkipFilter = skipFilter
	d.Init(bytes.NewReader(payload), len(payload))
	fh, err := d.DecodeFrameHeader()
	if err != nil {
		return nil, err
	}
	if !fh.KeyFrame {
		return nil, errors.New("not a key frame")
	}
	return d.DecodeFrame()
}

// DecodeVP8L decodes a bare VP8L payload.
func DecodeVP8L(payload []byte) (m image.Image, err error) {
	defer func() {
		if r := recover(); r != nil {
			err = errors.New("x/image/vp8l panic")
		}
	}()
	return vp8l.Decode(bytes.NewReader(payload))
}
