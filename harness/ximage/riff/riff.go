// Copyright 2014 The Go Authors. All rights reserved.
// Use of this source code is governed by a BSD-style
// license that can be found in the LICENSE file.

// Package riff implements the Resource Interchange File Format, used by media
// formats such as AVI, WAVE and WEBP.
//
// A RIFF stream contains a sequence of chunks. Each chunk consists of an 8-byte
// header (containing a 4-byte chunk type and a 4-byte chunk length), the chunk
// data (presented as an io.Reader), and some padding bytes.
//
// A detailed description of the format is at
// http://www.tactilemedia.com/info/MCI_Control_Info.html
package riff // import "verif/ximage/riff"

import (
	"errors"
	"io"
	"io/ioutil"
	"math"
)

var (
	errMissingPaddingByte     = errors.New("riff: missing padding byte")
	errMissingRIFFChunkHeader = errors.New("riff: missing RIFF chunk header")
	errListSubchunkTooLong    = errors.New("riff: list subchunk too long")
	errShortChunkData         = errors.New("riff: short chunk data")
	errShortChunkHeader       = errors.New("riff: short chunk header")
	errStaleReader            = errors.New("riff: stale reader")
)

// u32 decodes the first four bytes of b as a little-endian integer.
func u32(b []byte) uint32 {
	return uint32(b[0]) | uint32(b[1])<<8 | uint32(b[2])<<16 | uint32(b[3])<<24
}

const chunkHeaderSize = 8

// FourCC is a four character code.
type FourCC [4]byte

// LIST is the "LIST" FourCC.
var LIST = FourCC{'L', 'I', 'S', 'T'}

// NewReader returns the RIFF stream's form type, such as "AVI " or "WAVE", and
// its chunks as a *Reader.
func NewReader(r io.Reader) (formType FourCC, data *Reader, err error) {
	var buf [chunkHeaderSize]byte
	if _, err := io.ReadFull(r, buf[:]); err != nil {
		if err == io.EOF || err == io.ErrUnexpectedEOF {
			err = errMissingRIFFChunkHeader
		}
		return FourCC{}, nil, err
	}
	if buf[0] != 'R' || buf[1] != 'I' || buf[2] != 'F' || buf[3] != 'F' {
		return FourCC{}, nil, errMissingRIFFChunkHeader
	}
	return NewListReader(u32(buf[4:]), r)
}

// NewListReader returns a LIST chunk's list type, such as "movi" or "wavl",
// and its chunks as a *Reader.
func NewListReader(chunkLen uint32, chunkData io.Reader) (listType FourCC, data *Reader, err error) {
	if chunkLen < 4 {
		return FourCC{}, nil, errShortChunkData
	}
	z := &Reader{r: chunkData}
	if _, err := io.ReadFull(chunkData, z.buf[:4]); err != nil {
		if err == io.EOF || err == io.ErrUnexpectedEOF {
			err = errShortChunkData
		}
		return FourCC{}, nil, err
	}
	z.totalLen = chunkLen - 4
	return FourCC{z.buf[0], z.buf[1], z.buf[2], z.buf[3]}, z, nil
}

// Reader reads chunks from an underlying io.Reader.
type Reader struct {
	r   io.Reader
	err error

	totalLen uint32
	chunkLen uint32

	chunkReader *chunkReader
	buf         [chunkHeaderSize]byte
	padded      bool
}

// Next returns the next chunk's ID, length and data. It returns io.EOF if there
// are no more chunks. The io.Reader returned becomes stale after the next Next
// call, and should no longer be used.
//
// It is valid to call Next even if all of the previous chunk's data has not
// been read.
func (z *Reader) Next() (chunkID FourCC, chunkLen uint32, chunkData io.Reader, err error) {
	if z.err != nil {
		return FourCC{}, 0, nil, z.err
	}

	// Drain the rest of the previous chunk.
	if z.chunkLen != 0 {
		want := z.chunkLen
		var got int64
		got, z.err = io.Copy(ioutil.Discard, z.chunkReader)
		if z.err == nil && uint32(got) != want {
			z.err = errShortChunkData
		}
		if z.err != nil {
			return FourCC{}, 0, nil, z.err
		}
	}
	z.chunkReader = nil
	if z.padded {
		if z.totalLen == 0 {
			z.err = errListSubchunkTooLong
			return FourCC{}, 0, nil, z.err
		}
		z.totalLen--
		_, z.err = io.ReadFull(z.r, z.buf[:1])
		if z.err != nil {
			if z.err == io.EOF {
				z.err = errMissingPaddingByte
			}
			return FourCC{}, 0, nil, z.err
		}
	}

	// We are done if we have no more data.
	if z.totalLen == 0 {
		z.err = io.EOF
		return FourCC{}, 0, nil, z.err
	}

	// Read the next chunk header.
	if z.totalLen < chunkHeaderSize {
		z.err = errShortChunkHeader
		return FourCC{}, 0, nil, z.err
	}
	z.totalLen -= chunkHeaderSize
	if _, z.err = io.ReadFull(z.r, z.buf[:chunkHeaderSize]); z.err != nil {
		if z.err == io.EOF || z.err == io.ErrUnexpectedEOF {
			z.err = errShortChunkHeader
		}
		return FourCC{}, 0, nil, z.err
	}
	chunkID = FourCC{z.buf[0], z.buf[1], z.buf[2], z.buf[3]}
	z.chunkLen = u32(z.buf[4:])
	if z.chunkLen > z.totalLen {
		z.err = errListSubchunkTooLong
		return FourCC{}, 0, nil, z.err
	}
	z.padded = z.chunkLen&1 == 1
	z.chunkReader = &chunkReader{z}
	return chunkID, z.chunkLen, z.chunkReader, nil
}

type chunkReader struct {
	z *Reader
}

func (c *chunkReader) Read(p []byte) (int, error) {
	if c != c.z.chunkReader {
		return 0, errStaleReader
	}
	z := c.z
	if z.err != nil {
		if z.err == io.EOF {
			return 0, errStaleReader
		}
		return 0, z.err
	}

	n := int(z.chunkLen)
	if n == 0 {
		return 0, io.EOF
	}
	if n < 0 {
		// Converting uint32 to int overflowed.
		n = math.MaxInt32
	}
	if n > len(p) {
		n = len(p)
	}
	n, err := z.r.Read(p[:n])
	z.totalLen -= uint32(n)
	z.chunkLen -= uint32(n)
	if err != io.EOF {
		z.err = err
	}
	return n, err
}
