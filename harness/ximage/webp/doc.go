// Copyright 2016 The Go Authors. All rights reserved.
// Use of this source code is governed by a BSD-style
// license that can be found in the LICENSE file.

// Package webp implements a decoder for WEBP images.
//
// WEBP is defined at:
// https://developers.google.com/speed/webp/docs/riff_container
package webp // import "verif/ximage/webp"
