// Package img generates the image corpus: content classes, alpha patterns, Go image types and
// storage placements. Everything is a pure function of the *rand.Rand passed in.
package img

import (
	"image"
	"image/color"
	"math/rand"
)

// Content classes.
var Classes = []string{"photo", "noise", "flat", "pal2", "pal3", "pal4", "pal5", "pal16", "pal17", "pal64", "pal256", "pal257", "checker", "gradient", "tiles", "pal1", "bands", "pillarbox", "flatblock"}

// Alpha patterns.
var Alphas = []string{"opaque", "binary", "levels3", "levels16", "levels17", "gradient", "noise", "onepix", "alltransparent", "edge1_254", "transparentrgb", "blocks"}

// Sizes of interest (straddling 8/16/32 boundaries).
var SmallSizes = []int{1, 2, 3, 4, 5, 7, 8, 9, 15, 16, 17, 18, 31, 32, 33, 47, 48, 63, 64, 65}

// Pick returns a random element.
func Pick[T any](r *rand.Rand, xs []T) T { return xs[r.Intn(len(xs))] }

func palette(r *rand.Rand, n int) []color.NRGBA {
	p := make([]color.NRGBA, 0, n)
	seen := map[uint32]bool{}
	for len(p) < n {
		c := color.NRGBA{uint8(r.Intn(256)), uint8(r.Intn(256)), uint8(r.Intn(256)), 255}
		k := uint32(c.R)<<16 | uint32(c.G)<<8 | uint32(c.B)
		if seen[k] {
			continue
		}
		seen[k] = true
		p = append(p, c)
	}
	return p
}

// Gen produces an NRGBA image at the origin with the given content class and alpha pattern.
func Gen(r *rand.Rand, class, alpha string, w, h int) *image.NRGBA {
	m := image.NewNRGBA(image.Rect(0, 0, w, h))
	fillColor(r, m, class)
	applyAlpha(r, m, alpha)
	return m
}

func fillColor(r *rand.Rand, m *image.NRGBA, class string) {
	w, h := m.Rect.Dx(), m.Rect.Dy()
	set := func(x, y int, c color.NRGBA) {
		i := y*m.Stride + x*4
		m.Pix[i], m.Pix[i+1], m.Pix[i+2], m.Pix[i+3] = c.R, c.G, c.B, 255
	}
	npal := 0
	switch class {
	case "pal1":
		npal = 1
	case "pal2":
		npal = 2
	case "pal3":
		npal = 3
	case "pal4":
		npal = 4
	case "pal5":
		npal = 5
	case "pal16":
		npal = 16
	case "pal17":
		npal = 17
	case "pal64":
		npal = 64
	case "pal256":
		npal = 256
	case "pal257":
		npal = 257
	}
	switch {
	case npal > 0:
		p := palette(r, npal)
		mode := r.Intn(3)
		for y := 0; y < h; y++ {
			for x := 0; x < w; x++ {
				var k int
				switch mode {
				case 0:
					k = r.Intn(npal)
				case 1: // runs
					k = ((x / (1 + y%5)) + y/3) % npal
				default: // mostly one colour with speckles
					k = 0
					if r.Intn(6) == 0 {
						k = r.Intn(npal)
					}
				}
				set(x, y, p[k])
			}
		}
		// make sure every colour appears when there is room
		if w*h >= npal {
			perm := r.Perm(w * h)
			for k := 0; k < npal; k++ {
				set(perm[k]%w, perm[k]/w, p[k])
			}
		}
	case class == "noise":
		for i := 0; i < len(m.Pix); i += 4 {
			m.Pix[i], m.Pix[i+1], m.Pix[i+2], m.Pix[i+3] = uint8(r.Intn(256)), uint8(r.Intn(256)), uint8(r.Intn(256)), 255
		}
	case class == "flat":
		c := color.NRGBA{uint8(r.Intn(256)), uint8(r.Intn(256)), uint8(r.Intn(256)), 255}
		for y := 0; y < h; y++ {
			for x := 0; x < w; x++ {
				set(x, y, c)
			}
		}
	case class == "checker":
		a := color.NRGBA{uint8(r.Intn(256)), uint8(r.Intn(256)), uint8(r.Intn(256)), 255}
		b := color.NRGBA{uint8(r.Intn(256)), uint8(r.Intn(256)), uint8(r.Intn(256)), 255}
		s := []int{1, 2, 4, 8, 16}[r.Intn(5)]
		for y := 0; y < h; y++ {
			for x := 0; x < w; x++ {
				if ((x/s)+(y/s))%2 == 0 {
					set(x, y, a)
				} else {
					set(x, y, b)
				}
			}
		}
	case class == "gradient":
		dx, dy := r.Intn(5), r.Intn(5)
		o := r.Intn(256)
		for y := 0; y < h; y++ {
			for x := 0; x < w; x++ {
				set(x, y, color.NRGBA{uint8(o + x*dx + y), uint8(o + y*dy + x/2), uint8(o + (x+y)*2), 255})
			}
		}
	case class == "tiles":
		// screenshot-like: repeated small tiles with occasional text-like noise (exercises LZ77)
		tw, th := 4+r.Intn(13), 4+r.Intn(13)
		tile := make([]color.NRGBA, tw*th)
		p := palette(r, 2+r.Intn(6))
		for i := range tile {
			tile[i] = p[r.Intn(len(p))]
		}
		for y := 0; y < h; y++ {
			for x := 0; x < w; x++ {
				c := tile[(y%th)*tw+x%tw]
				if r.Intn(97) == 0 {
					c = p[r.Intn(len(p))]
				}
				set(x, y, c)
			}
		}
	case class == "flatblock":
		// noise everywhere except one or two flat macroblock-aligned 16x16 blocks at the border:
		// almost every macroblock lands in one segment, a handful in another.
		for i := 0; i < len(m.Pix); i += 4 {
			m.Pix[i], m.Pix[i+1], m.Pix[i+2], m.Pix[i+3] = uint8(r.Intn(256)), uint8(r.Intn(256)), uint8(r.Intn(256)), 255
		}
		for k := 0; k < 1+r.Intn(2); k++ {
			bx, by := 0, 0
			if w > 16 && r.Intn(2) == 0 {
				bx = ((w - 1) / 16) * 16 * r.Intn(2)
			}
			if h > 16 {
				by = r.Intn((h+15)/16) * 16
			}
			flat := color.NRGBA{uint8(r.Intn(256)), uint8(r.Intn(256)), uint8(r.Intn(256)), 255}
			for y := by; y < min(h, by+16); y++ {
				for x := bx; x < min(w, bx+16); x++ {
					set(x, y, flat)
				}
			}
		}
	case class == "bands" || class == "pillarbox":
		// noise / texture with a wide flat band (horizontal for "bands", a vertical side bar for
		// "pillarbox"): long copy runs next to busy content, entropy tiles with no literal at all.
		flat := color.NRGBA{uint8(r.Intn(256)), uint8(r.Intn(256)), uint8(r.Intn(256)), 255}
		lo, hi := h/3, 2*h/3
		if class == "pillarbox" {
			lo, hi = 0, max(1, w/4)
		}
		for y := 0; y < h; y++ {
			for x := 0; x < w; x++ {
				in := y >= lo && y < hi
				if class == "pillarbox" {
					in = x >= lo && x < hi
				}
				if in {
					set(x, y, flat)
				} else {
					set(x, y, color.NRGBA{uint8(r.Intn(256)), uint8(r.Intn(256)), uint8(r.Intn(256)), 255})
				}
			}
		}
	case class == "flatpatch":
		// (not in Classes) noise or texture with one flat patch of 2x2 .. 3x2 macroblocks, macroblock
		// aligned: only the patch's inner macroblocks are predicted exactly, so a handful of macroblocks
		// (1..2 of the whole frame) code no coefficients at all.
		tex := r.Intn(2) == 0
		for y := 0; y < h; y++ {
			for x := 0; x < w; x++ {
				if tex {
					v := uint8(128 + 100*tri(float64(x)*0.9+float64(y)*0.37) + float64(r.Intn(30)))
					set(x, y, color.NRGBA{v, uint8(255 - int(v)), uint8(r.Intn(256)), 255})
				} else {
					set(x, y, color.NRGBA{uint8(r.Intn(256)), uint8(r.Intn(256)), uint8(r.Intn(256)), 255})
				}
			}
		}
		pw, ph := 32+16*r.Intn(2), 32
		if r.Intn(2) == 0 {
			pw, ph = ph, pw
		}
		if w >= pw && h >= ph {
			bx, by := 16*r.Intn((w-pw)/16+1), 16*r.Intn((h-ph)/16+1)
			flat := color.NRGBA{uint8(r.Intn(256)), uint8(r.Intn(256)), uint8(r.Intn(256)), 255}
			for y := by; y < by+ph; y++ {
				for x := bx; x < bx+pw; x++ {
					set(x, y, flat)
				}
			}
		}
	case class == "sparsemb":
		// (not in Classes) one flat colour with 1..3 isolated busy macroblocks: nearly every macroblock is
		// skipped, the few coded ones lie far apart in coding order and have unrelated token statistics.
		flat := color.NRGBA{uint8(r.Intn(256)), uint8(r.Intn(256)), uint8(r.Intn(256)), 255}
		for y := 0; y < h; y++ {
			for x := 0; x < w; x++ {
				set(x, y, flat)
			}
		}
		for k := 0; k < 1+r.Intn(3); k++ {
			bx, by := 16*r.Intn((w+15)/16), 16*r.Intn((h+15)/16)
			kind := r.Intn(3)
			amp := 8 + r.Intn(120)
			for y := by; y < min(h, by+16); y++ {
				for x := bx; x < min(w, bx+16); x++ {
					switch kind {
					case 0:
						set(x, y, color.NRGBA{uint8(r.Intn(256)), uint8(r.Intn(256)), uint8(r.Intn(256)), 255})
					case 1:
						set(x, y, color.NRGBA{clamp(float64(flat.R) + float64((x-bx)*amp/16)), flat.G, clamp(float64(flat.B) - float64((y-by)*amp/16)), 255})
					default:
						if (x/2+y/2)%2 == 0 {
							set(x, y, color.NRGBA{clamp(float64(flat.R) + float64(amp)), clamp(float64(flat.G) - float64(amp)), flat.B, 255})
						}
					}
				}
			}
		}
	case class == "stripflat":
		// (not in Classes) a textured strip on the left made of four bands with unrelated statistics (several
		// entropy clusters survive) and a flat area to its right that is coded as long copies, so most of
		// the flat area's entropy tiles hold no symbol at all.
		sw := max(1, w/5)
		order := r.Perm(4)
		flat := color.NRGBA{uint8(r.Intn(256)), uint8(r.Intn(256)), uint8(r.Intn(256)), 255}
		for y := 0; y < h; y++ {
			band := order[min(3, y*4/max(1, h))]
			for x := 0; x < w; x++ {
				if x >= sw {
					set(x, y, flat)
					continue
				}
				v := uint8(r.Intn(256))
				switch band {
				case 0:
					set(x, y, color.NRGBA{v, uint8(r.Intn(256)), uint8(r.Intn(256)), 255})
				case 1:
					set(x, y, color.NRGBA{v & 0x0f, 128 + (v & 3), 7, 255})
				case 2:
					set(x, y, color.NRGBA{200, v, v ^ 0x55, 255})
				default:
					set(x, y, color.NRGBA{v & 0xc0, v & 0x3f, uint8(r.Intn(256)) & 0xf0, 255})
				}
			}
		}
	case class == "multiband":
		// (not in Classes; used by targeted families) several flat horizontal bands of different
		// colours between noise: many near-identical entropy tiles per band, so histogram clusters
		// compete for the same tiles in the encoder's remap pass.
		bh := 3 + r.Intn(10)
		var flat color.NRGBA
		for y := 0; y < h; y++ {
			if y%bh == 0 {
				flat = color.NRGBA{uint8(r.Intn(256)), uint8(r.Intn(256)), uint8(r.Intn(256)), 255}
			}
			for x := 0; x < w; x++ {
				if (y/bh)%2 == 1 {
					set(x, y, flat)
				} else {
					set(x, y, color.NRGBA{uint8(r.Intn(256)), uint8(r.Intn(256)), uint8(r.Intn(256)), 255})
				}
			}
		}
	default: // photo-like: smooth low-frequency field + mild texture
		fx, fy := 0.02+r.Float64()*0.2, 0.02+r.Float64()*0.2
		ph := r.Float64() * 6
		amp := 1 + r.Intn(12)
		for y := 0; y < h; y++ {
			for x := 0; x < w; x++ {
				b := 128 + 90*tri(float64(x)*fx+ph) + 30*tri(float64(y)*fy)
				g := 128 + 70*tri(float64(y)*fy+ph*0.7) + 40*tri(float64(x+y)*fx*0.5)
				rr := 128 + 60*tri(float64(x-y)*fy*0.3+ph*1.3) + 50*tri(float64(y)*fx)
				n := float64(r.Intn(2*amp+1) - amp)
				set(x, y, color.NRGBA{clamp(rr + n), clamp(g + n), clamp(b - n), 255})
			}
		}
	}
}

func tri(t float64) float64 { // triangle wave in [-1,1], cheap deterministic stand-in for sin
	t = t - float64(int(t/4))*4
	if t < 0 {
		t += 4
	}
	if t < 2 {
		return t - 1
	}
	return 3 - t
}

func clamp(v float64) uint8 {
	if v < 0 {
		return 0
	}
	if v > 255 {
		return 255
	}
	return uint8(v)
}

func applyAlpha(r *rand.Rand, m *image.NRGBA, alpha string) {
	w, h := m.Rect.Dx(), m.Rect.Dy()
	seta := func(x, y int, a uint8) { m.Pix[y*m.Stride+x*4+3] = a }
	levels := func(vals []uint8) {
		mode := r.Intn(2)
		for y := 0; y < h; y++ {
			for x := 0; x < w; x++ {
				if mode == 0 {
					seta(x, y, vals[r.Intn(len(vals))])
				} else {
					seta(x, y, vals[((x/3)+(y/2))%len(vals)])
				}
			}
		}
	}
	nlevels := func(n int) []uint8 {
		v := make([]uint8, n)
		for i := range v {
			v[i] = uint8(i * 255 / max(1, n-1))
		}
		return v
	}
	switch alpha {
	case "opaque":
	case "binary":
		cx, cy, rad := r.Intn(w+1), r.Intn(h+1), 1+r.Intn(max(w, h))
		for y := 0; y < h; y++ {
			for x := 0; x < w; x++ {
				if (x-cx)*(x-cx)+(y-cy)*(y-cy) > rad*rad {
					seta(x, y, 0)
				}
			}
		}
		if r.Intn(2) == 0 { // speckle
			for i := 0; i < w*h/10+1; i++ {
				seta(r.Intn(w), r.Intn(h), uint8(255*r.Intn(2)))
			}
		}
	case "levels3":
		levels(nlevels(3))
	case "levels16":
		levels(nlevels(16))
	case "levels17":
		levels(nlevels(17))
	case "gradient":
		for y := 0; y < h; y++ {
			for x := 0; x < w; x++ {
				seta(x, y, uint8((x*255/max(1, w-1)+y*3)&0xff))
			}
		}
	case "noise":
		for y := 0; y < h; y++ {
			for x := 0; x < w; x++ {
				seta(x, y, uint8(r.Intn(256)))
			}
		}
	case "onepix":
		seta(r.Intn(w), r.Intn(h), uint8(r.Intn(255)))
	case "alltransparent":
		for y := 0; y < h; y++ {
			for x := 0; x < w; x++ {
				seta(x, y, 0)
			}
		}
	case "edge1_254":
		for y := 0; y < h; y++ {
			for x := 0; x < w; x++ {
				seta(x, y, []uint8{1, 254}[r.Intn(2)])
			}
		}
	case "transparentrgb": // transparent areas that still carry colour
		for y := 0; y < h; y++ {
			for x := 0; x < w; x++ {
				if (x/5+y/5)%2 == 0 {
					seta(x, y, 0)
				}
			}
		}
	case "blocks": // 8x8-aligned transparent blocks (lossy cleanup granularity) + semi-transparent rest
		for y := 0; y < h; y++ {
			for x := 0; x < w; x++ {
				switch ((x / 8) + 2*(y/8)) % 4 {
				case 0:
					seta(x, y, 0)
				case 1:
					seta(x, y, 128)
				}
			}
		}
	}
}

// HasAlpha reports whether any pixel is not opaque.
func HasAlpha(m *image.NRGBA) bool {
	w, h := m.Rect.Dx(), m.Rect.Dy()
	for y := 0; y < h; y++ {
		row := m.Pix[y*m.Stride : y*m.Stride+w*4]
		for x := 3; x < len(row); x += 4 {
			if row[x] != 255 {
				return true
			}
		}
	}
	return false
}

// ToNRGBA converts any image through Go's canonical colour model (the definition of
// "read as non-premultiplied 8-bit RGBA").
func ToNRGBA(src image.Image) *image.NRGBA {
	b := src.Bounds()
	m := image.NewNRGBA(image.Rect(0, 0, b.Dx(), b.Dy()))
	for y := 0; y < b.Dy(); y++ {
		for x := 0; x < b.Dx(); x++ {
			c := color.NRGBAModel.Convert(src.At(b.Min.X+x, b.Min.Y+y)).(color.NRGBA)
			i := y*m.Stride + x*4
			m.Pix[i], m.Pix[i+1], m.Pix[i+2], m.Pix[i+3] = c.R, c.G, c.B, c.A
		}
	}
	return m
}

// Tight returns the tight-stride RGBA bytes of an NRGBA image.
func Tight(m *image.NRGBA) []byte {
	w, h := m.Rect.Dx(), m.Rect.Dy()
	out := make([]byte, 0, w*h*4)
	for y := 0; y < h; y++ {
		out = append(out, m.Pix[y*m.Stride:y*m.Stride+w*4]...)
	}
	return out
}

// Wrapper hides the concrete type so that only At/Bounds/ColorModel are available.
type Wrapper struct{ I image.Image }

func (w Wrapper) At(x, y int) color.Color { return w.I.At(x, y) }
func (w Wrapper) Bounds() image.Rectangle { return w.I.Bounds() }
func (w Wrapper) ColorModel() color.Model { return w.I.ColorModel() }

// nrgba64AlphaLow: the low byte of a 16-bit alpha whose 8-bit reading is a. Mostly the replicated byte; sometimes any
// byte (an "almost opaque" 0xFF37 still reads as 255 in 8 bits).
func nrgba64AlphaLow(r *rand.Rand, a uint8) uint8 {
	if r.Intn(3) == 0 {
		return uint8(r.Intn(256))
	}
	return a
}

// GoTypes lists the Go image types AsType can produce.
var GoTypes = []string{"NRGBA", "RGBA", "NRGBA64", "RGBA64", "Gray", "Gray16", "Paletted", "YCbCr", "CMYK", "Alpha", "Wrapper", "Alpha16", "NYCbCrA"}

// AsType converts an NRGBA picture into another Go image type (lossy where the type cannot
// hold the data; the caller always compares against ToNRGBA of the *result*).
func AsType(r *rand.Rand, m *image.NRGBA, typ string) image.Image {
	b := m.Bounds()
	if (typ == "YCbCr" || typ == "NYCbCrA") && (b.Min.X < 0 || b.Min.Y < 0) {
		// the standard library's subsampled plane sizing is wrong for negative origins
		m = Shift(m, 2-b.Min.X, 2-b.Min.Y)
		b = m.Bounds()
	}
	switch typ {
	case "NRGBA":
		return m
	case "Wrapper":
		return Wrapper{m}
	case "RGBA":
		d := image.NewRGBA(b)
		copyVia(d, m)
		return d
	case "NRGBA64":
		d := image.NewNRGBA64(b)
		for y := b.Min.Y; y < b.Max.Y; y++ {
			for x := b.Min.X; x < b.Max.X; x++ {
				c := m.NRGBAAt(x, y)
				// low bytes deliberately not replicated: 16->8 conversion must take the high byte
				d.SetNRGBA64(x, y, color.NRGBA64{uint16(c.R)<<8 | uint16(r.Intn(256)), uint16(c.G)<<8 | uint16(r.Intn(256)), uint16(c.B)<<8 | uint16(r.Intn(256)), uint16(c.A)<<8 | uint16(nrgba64AlphaLow(r, c.A))})
			}
		}
		return d
	case "RGBA64":
		d := image.NewRGBA64(b)
		copyVia(d, m)
		return d
	case "Gray":
		d := image.NewGray(b)
		copyVia(d, m)
		return d
	case "Gray16":
		d := image.NewGray16(b)
		copyVia(d, m)
		return d
	case "Alpha":
		d := image.NewAlpha(b)
		copyVia(d, m)
		return d
	case "Alpha16":
		d := image.NewAlpha16(b)
		copyVia(d, m)
		return d
	case "CMYK":
		d := image.NewCMYK(b)
		copyVia(d, m)
		return d
	case "Paletted":
		pal := color.Palette{}
		seen := map[color.NRGBA]bool{}
		for y := b.Min.Y; y < b.Max.Y && len(pal) < 256; y++ {
			for x := b.Min.X; x < b.Max.X && len(pal) < 256; x++ {
				c := m.NRGBAAt(x, y)
				if !seen[c] {
					seen[c] = true
					pal = append(pal, c)
				}
			}
		}
		d := image.NewPaletted(b, pal)
		copyVia(d, m)
		return d
	case "YCbCr":
		ratios := []image.YCbCrSubsampleRatio{image.YCbCrSubsampleRatio444, image.YCbCrSubsampleRatio420, image.YCbCrSubsampleRatio422, image.YCbCrSubsampleRatio440}
		d := image.NewYCbCr(b, ratios[r.Intn(len(ratios))])
		for y := b.Min.Y; y < b.Max.Y; y++ {
			for x := b.Min.X; x < b.Max.X; x++ {
				c := m.NRGBAAt(x, y)
				yy, cb, cr := color.RGBToYCbCr(c.R, c.G, c.B)
				d.Y[d.YOffset(x, y)] = yy
				d.Cb[d.COffset(x, y)] = cb
				d.Cr[d.COffset(x, y)] = cr
			}
		}
		return d
	case "NYCbCrA":
		d := image.NewNYCbCrA(b, image.YCbCrSubsampleRatio420)
		for y := b.Min.Y; y < b.Max.Y; y++ {
			for x := b.Min.X; x < b.Max.X; x++ {
				c := m.NRGBAAt(x, y)
				yy, cb, cr := color.RGBToYCbCr(c.R, c.G, c.B)
				d.Y[d.YOffset(x, y)] = yy
				d.Cb[d.COffset(x, y)] = cb
				d.Cr[d.COffset(x, y)] = cr
				d.A[d.AOffset(x, y)] = c.A
			}
		}
		return d
	}
	return m
}

type setter interface {
	Set(x, y int, c color.Color)
}

func copyVia(d setter, m *image.NRGBA) {
	b := m.Bounds()
	for y := b.Min.Y; y < b.Max.Y; y++ {
		for x := b.Min.X; x < b.Max.X; x++ {
			d.Set(x, y, m.NRGBAAt(x, y))
		}
	}
}

// Placements of the same pixels in memory.
var Placements = []string{"origin", "offset", "subimage", "subimage2", "stridepad", "longpix", "wrapper", "negorigin"}

// Place returns an image with the same pixels as m stored differently. sentinel fills all
// bytes that are outside the visible rectangle.
func Place(r *rand.Rand, m *image.NRGBA, how string, sentinel byte) image.Image {
	w, h := m.Rect.Dx(), m.Rect.Dy()
	cp := func(dst *image.NRGBA, ox, oy int) {
		for y := 0; y < h; y++ {
			copy(dst.Pix[dst.PixOffset(ox, oy+y):], m.Pix[y*m.Stride:y*m.Stride+w*4])
		}
	}
	fill := func(p []byte) {
		for i := range p {
			p[i] = sentinel
		}
	}
	switch how {
	case "origin":
		d := image.NewNRGBA(image.Rect(0, 0, w, h))
		cp(d, 0, 0)
		return d
	case "offset":
		ox, oy := 1+r.Intn(40), 1+r.Intn(40)
		d := image.NewNRGBA(image.Rect(ox, oy, ox+w, oy+h))
		cp(d, ox, oy)
		return d
	case "negorigin":
		ox, oy := -1-r.Intn(40), -1-r.Intn(40)
		d := image.NewNRGBA(image.Rect(ox, oy, ox+w, oy+h))
		cp(d, ox, oy)
		return d
	case "subimage", "subimage2":
		l, t, rr, bb := r.Intn(9), r.Intn(9), r.Intn(9), r.Intn(9)
		if how == "subimage2" {
			l, t = 1+2*r.Intn(4), 1+2*r.Intn(4) // odd offsets
		}
		px, py := r.Intn(7)-3, r.Intn(7)-3
		parent := image.NewNRGBA(image.Rect(px, py, px+l+w+rr, py+t+h+bb))
		fill(parent.Pix)
		cp(parent, px+l, py+t)
		return parent.SubImage(image.Rect(px+l, py+t, px+l+w, py+t+h))
	case "stridepad":
		pad := 4 * (1 + r.Intn(5))
		d := &image.NRGBA{Pix: make([]byte, (w*4+pad)*h), Stride: w*4 + pad, Rect: image.Rect(0, 0, w, h)}
		fill(d.Pix)
		cp(d, 0, 0)
		return d
	case "longpix":
		d := &image.NRGBA{Pix: make([]byte, w*4*h+64+r.Intn(64)), Stride: w * 4, Rect: image.Rect(0, 0, w, h)}
		fill(d.Pix)
		cp(d, 0, 0)
		return d
	case "wrapper":
		d := image.NewNRGBA(image.Rect(0, 0, w, h))
		cp(d, 0, 0)
		return Wrapper{d}
	}
	return m
}

// Shift returns a view of m whose rectangle is translated by (dx,dy): same pixels, non-zero origin.
func Shift(m *image.NRGBA, dx, dy int) *image.NRGBA {
	return &image.NRGBA{Pix: m.Pix, Stride: m.Stride, Rect: m.Rect.Add(image.Pt(dx, dy))}
}

// FarRepeat builds a w*h picture of palette noise in which a run of n pixels is repeated exactly
// dist pixels later (raster order): a backward reference at a chosen, possibly very large distance.
func FarRepeat(r *rand.Rand, w, h, dist, n int) *image.NRGBA {
	m := Gen(r, "pal256", "opaque", w, h)
	total := w * h
	if dist+n >= total {
		return m
	}
	// several runs, each repeated exactly dist-k pixels later (k small), spread over the available room
	room := total - dist - n
	for k := 0; k < 6; k++ {
		start := (room / 6) * k
		if room/6 > n {
			start += r.Intn(room/6 - n)
		}
		d := dist - 17*k
		for i := 0; i < n; i++ {
			sx, sy := (start+i)%w, (start+i)/w
			dx, dy := (start+d+i)%w, (start+d+i)/w
			copy(m.Pix[dy*m.Stride+dx*4:dy*m.Stride+dx*4+4], m.Pix[sy*m.Stride+sx*4:sy*m.Stride+sx*4+4])
		}
	}
	return m
}
