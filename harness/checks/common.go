package checks

import (
	"errors"
	"sync/atomic"
	"time"
	"syscall"
	"sync"
	"os"
	"strconv"
	"bytes"
	"encoding/base64"
	"encoding/binary"
	"fmt"
	"image"
	"image/color"
	"math/rand"

	webp "github.com/deepteams/webp"

	"verif/ev"
	"verif/img"
)

// rng returns the PRNG for one case: a pure function of (run seed, property, case index).
func rng(c *ev.Ctx, idx int) *rand.Rand {
	h := int64(0)
	for _, ch := range c.Prop {
		h = h*131 + int64(ch)
	}
	return rand.New(rand.NewSource(c.Seed*1000003 + h*7919 + int64(idx)*104729 + 17))
}

// encode runs webp.Encode into a buffer.
func encode(m image.Image, o *webp.EncoderOptions) ([]byte, error) {
	var buf bytes.Buffer
	err := webp.Encode(&buf, m, o)
	return buf.Bytes(), err
}

func decode(b []byte) (image.Image, error) { return webp.Decode(bytes.NewReader(b)) }

// toNRGBA converts a decoded image to tight NRGBA via At (independent of the concrete type).
func toNRGBA(m image.Image) *image.NRGBA {
	if n, ok := m.(*image.NRGBA); ok && n.Rect.Min == (image.Point{}) && n.Stride == n.Rect.Dx()*4 {
		return n
	}
	return img.ToNRGBA(m)
}

func optString(o *webp.EncoderOptions) string {
	if o == nil {
		return "nil"
	}
	s := fmt.Sprintf("L=%v Q=%g M=%d", o.Lossless, o.Quality, o.Method)
	d := webp.DefaultOptions()
	add := func(name string, v, dv any) {
		if fmt.Sprint(v) != fmt.Sprint(dv) {
			s += fmt.Sprintf(" %s=%v", name, v)
		}
	}
	add("Preset", o.Preset, d.Preset)
	add("Sharp", o.UseSharpYUV, d.UseSharpYUV)
	add("Exact", o.Exact, d.Exact)
	add("TSize", o.TargetSize, d.TargetSize)
	add("TPSNR", o.TargetPSNR, d.TargetPSNR)
	add("Prep", o.Preprocessing, d.Preprocessing)
	add("SNS", o.SNSStrength, d.SNSStrength)
	add("FStr", o.FilterStrength, d.FilterStrength)
	add("FShp", o.FilterSharpness, d.FilterSharpness)
	add("FTyp", o.FilterType, d.FilterType)
	add("Part", o.Partitions, d.Partitions)
	add("Seg", o.Segments, d.Segments)
	add("Pass", o.Pass, d.Pass)
	add("Jpeg", o.EmulateJpegSize, d.EmulateJpegSize)
	add("QMin", o.QMin, d.QMin)
	add("QMax", o.QMax, d.QMax)
	add("AComp", o.AlphaCompression, d.AlphaCompression)
	add("AFilt", o.AlphaFiltering, d.AlphaFiltering)
	add("AQ", o.AlphaQuality, d.AlphaQuality)
	add("ICC", len(o.ICC), 0)
	add("EXIF", len(o.EXIF), 0)
	add("XMP", len(o.XMP), 0)
	if o.ICC != nil && len(o.ICC) == 0 {
		s += " ICC=empty"
	}
	return s
}

func b64(b []byte) string {
	if len(b) > 1<<16 {
		return "sha:" + ev.Sum(b) + fmt.Sprintf(" len=%d", len(b))
	}
	return base64.StdEncoding.EncodeToString(b)
}

// firstPixelDiff returns a description of the first differing pixel of two tight RGBA buffers.
func firstPixelDiff(a, b []byte, w int) string {
	n := len(a)
	if len(b) < n {
		n = len(b)
	}
	cnt := 0
	first := -1
	for i := 0; i+3 < n; i += 4 {
		if a[i] != b[i] || a[i+1] != b[i+1] || a[i+2] != b[i+2] || a[i+3] != b[i+3] {
			if first < 0 {
				first = i / 4
			}
			cnt++
		}
	}
	if first < 0 {
		if len(a) != len(b) {
			return fmt.Sprintf("length %d vs %d", len(a), len(b))
		}
		return "equal"
	}
	i := first * 4
	return fmt.Sprintf("%d pixels differ; first at (%d,%d): %v vs %v", cnt, first%w, first/w, a[i:i+4], b[i:i+4])
}

func firstByteDiff(a, b []byte) string {
	n := len(a)
	if len(b) < n {
		n = len(b)
	}
	for i := 0; i < n; i++ {
		if a[i] != b[i] {
			return fmt.Sprintf("len %d vs %d, first difference at byte %d (%#02x vs %#02x)", len(a), len(b), i, a[i], b[i])
		}
	}
	if len(a) != len(b) {
		return fmt.Sprintf("len %d vs %d, common prefix equal", len(a), len(b))
	}
	return "equal"
}

// vp8lSig reads the leading transform signature of a VP8L payload without decoding images:
// "pal<N>" | "sg+pred<bits>" | "sg" | "pred<bits>" | "cc<bits>" | "none".
func vp8lSig(p []byte) string {
	if len(p) < 7 || p[0] != 0x2f {
		return "?"
	}
	br := bitR{data: p, pos: 40}
	sig := ""
	for k := 0; k < 2; k++ {
		if br.get(1) == 0 {
			if sig == "" {
				return "none"
			}
			return sig
		}
		t := br.get(2)
		switch t {
		case 0:
			return sig + fmt.Sprintf("pred%d", br.get(3)+2)
		case 1:
			return sig + fmt.Sprintf("cc%d", br.get(3)+2)
		case 2:
			sig += "sg+"
		case 3:
			n := br.get(8) + 1
			b := "256"
			switch {
			case n <= 2:
				b = "2"
			case n <= 4:
				b = "4"
			case n <= 16:
				b = "16"
			}
			return sig + "pal" + b
		}
	}
	return sig + "more"
}

type bitR struct {
	data []byte
	pos  int
}

func (b *bitR) get(n int) int {
	v := 0
	for i := 0; i < n; i++ {
		byt := b.pos >> 3
		if byt < len(b.data) {
			v |= int(b.data[byt]>>(uint(b.pos)&7)&1) << uint(i)
		}
		b.pos++
	}
	return v
}

// riffPayload returns the first VP8/VP8L/ALPH payloads of a file using a minimal scan
// (for signatures only; the strict walker is riffwalk).
func riffChunks(b []byte) map[string][]byte {
	out := map[string][]byte{}
	if len(b) < 12 {
		return out
	}
	off := 12
	for off+8 <= len(b) {
		id := string(b[off : off+4])
		sz := int(binary.LittleEndian.Uint32(b[off+4:]))
		if sz < 0 || off+8+sz > len(b) {
			break
		}
		if _, dup := out[id]; !dup {
			out[id] = b[off+8 : off+8+sz]
		}
		off += 8 + sz + sz&1
	}
	return out
}

func sizeBucket(w, h int) string {
	a := w * h
	switch {
	case a <= 16:
		return "tiny"
	case a <= 256:
		return "s"
	case a <= 4096:
		return "m"
	case a <= 65536:
		return "l"
	}
	return "xl"
}

func nrgbaAt(m *image.NRGBA, x, y int) color.NRGBA {
	i := m.PixOffset(x+m.Rect.Min.X, y+m.Rect.Min.Y)
	return color.NRGBA{m.Pix[i], m.Pix[i+1], m.Pix[i+2], m.Pix[i+3]}
}

func getenvInt(name string, def int) int {
	if s := os.Getenv(name); s != "" {
		if v, err := strconv.Atoi(s); err == nil {
			return v
		}
	}
	return def
}

type lockT = sync.Mutex

var syscallQuit = syscall.SIGQUIT

// decodeTimed runs webp.Decode with a generous watchdog (decoding a small picture takes
// microseconds; 60 s, then once more 120 s, is a liveness check, not a performance verdict).
// hung=true means both attempts failed to return.
func decodeTimed(b []byte) (m image.Image, err error, hung bool) {
	if hangSeen.Load() {
		return nil, errAfterHang, false
	}
	defer func() {
		if hung {
			hangSeen.Store(true)
		}
	}()
	for _, d := range []time.Duration{60 * time.Second, 120 * time.Second} {
		type res struct {
			m   image.Image
			err error
			p   any
		}
		ch := make(chan res, 1)
		go func() {
			defer func() {
				if r := recover(); r != nil {
					ch <- res{nil, nil, r}
				}
			}()
			m, err := decode(b)
			ch <- res{m, err, nil}
		}()
		select {
		case r := <-ch:
			if r.p != nil {
				panic(r.p) // re-raise on the caller's goroutine (handled by the case runner)
			}
			return r.m, r.err, false
		case <-time.After(d):
		}
	}
	return nil, nil, true
}

// hangSeen: once a decode has been confirmed not to return, the remaining cases of the run are
// not executed (the stuck goroutines keep spinning and would distort everything that follows).
var hangSeen atomic.Bool
var errAfterHang = errors.New("skipped: an earlier decode in this run never returned")
