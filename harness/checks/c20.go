package checks

import (
	"bytes"
	"fmt"
	"image"
	"math"
	"math/rand"

	webp "github.com/deepteams/webp"

	"verif/ev"
	"verif/img"
	"verif/riffwalk"
)

func init() { Registry["C20"] = Check{Level: "exploration", Run: runC20} }

type c20Case struct {
	Kind string
	Sub  int
}

// optMut is one way of making an option set illegal (documented range in encode.go).
type optMut struct {
	Name string
	Doc  string
	Set  func(o *webp.EncoderOptions)
}

func f32(v float64) float32 { return float32(v) }

var c20Illegal = []optMut{
	{"Quality=-0.001", "Quality is the compression quality (0-100)", func(o *webp.EncoderOptions) { o.Quality = -0.001 }},
	{"Quality=100.01", "Quality (0-100)", func(o *webp.EncoderOptions) { o.Quality = 100.01 }},
	{"Quality=NaN", "finite", func(o *webp.EncoderOptions) { o.Quality = f32(math.NaN()) }},
	{"Quality=+Inf", "finite", func(o *webp.EncoderOptions) { o.Quality = f32(math.Inf(1)) }},
	{"Quality=-Inf", "finite", func(o *webp.EncoderOptions) { o.Quality = f32(math.Inf(-1)) }},
	{"Method=-1", "Method (0-6)", func(o *webp.EncoderOptions) { o.Method = -1 }},
	{"Method=7", "Method (0-6)", func(o *webp.EncoderOptions) { o.Method = 7 }},
	{"Method=MaxInt", "Method (0-6)", func(o *webp.EncoderOptions) { o.Method = math.MaxInt }},
	{"Method=MinInt", "Method (0-6)", func(o *webp.EncoderOptions) { o.Method = math.MinInt }},
	{"TargetSize=-1", "TargetSize >= 0", func(o *webp.EncoderOptions) { o.TargetSize = -1 }},
	{"TargetSize=MinInt", "TargetSize >= 0", func(o *webp.EncoderOptions) { o.TargetSize = math.MinInt }},
	{"TargetPSNR=-1", "TargetPSNR >= 0", func(o *webp.EncoderOptions) { o.TargetPSNR = -1 }},
	{"TargetPSNR=NaN", "finite", func(o *webp.EncoderOptions) { o.TargetPSNR = f32(math.NaN()) }},
	{"TargetPSNR=+Inf", "finite", func(o *webp.EncoderOptions) { o.TargetPSNR = f32(math.Inf(1)) }},
	{"Preprocessing=-1", "Preprocessing 0..3", func(o *webp.EncoderOptions) { o.Preprocessing = -1 }},
	{"Preprocessing=4", "Preprocessing 0..3", func(o *webp.EncoderOptions) { o.Preprocessing = 4 }},
	{"Preset=-1", "Preset enum", func(o *webp.EncoderOptions) { o.Preset = -1 }},
	{"Preset=6", "Preset enum", func(o *webp.EncoderOptions) { o.Preset = 6 }},
	{"SNSStrength=101", "SNSStrength (0-100)", func(o *webp.EncoderOptions) { o.SNSStrength = 101 }},
	{"SNSStrength=MaxInt", "SNSStrength (0-100)", func(o *webp.EncoderOptions) { o.SNSStrength = math.MaxInt }},
	{"FilterStrength=101", "FilterStrength (0-100)", func(o *webp.EncoderOptions) { o.FilterStrength = 101 }},
	{"FilterSharpness=-1", "FilterSharpness (0-7)", func(o *webp.EncoderOptions) { o.FilterSharpness = -1 }},
	{"FilterSharpness=8", "FilterSharpness (0-7)", func(o *webp.EncoderOptions) { o.FilterSharpness = 8 }},
	{"FilterType=2", "FilterType (0=simple, 1=strong)", func(o *webp.EncoderOptions) { o.FilterType = 2 }},
	{"Partitions=-1", "Partitions (0-3)", func(o *webp.EncoderOptions) { o.Partitions = -1 }},
	{"Partitions=4", "Partitions (0-3)", func(o *webp.EncoderOptions) { o.Partitions = 4 }},
	{"Segments=5", "Segments (1-4)", func(o *webp.EncoderOptions) { o.Segments = 5 }},
	{"Segments=MaxInt", "Segments (1-4)", func(o *webp.EncoderOptions) { o.Segments = math.MaxInt }},
	{"Pass=11", "Pass (1-10)", func(o *webp.EncoderOptions) { o.Pass = 11 }},
	{"QMin=-1", "QMin (0-100)", func(o *webp.EncoderOptions) { o.QMin = -1 }},
	{"QMin=101", "QMin (0-100)", func(o *webp.EncoderOptions) { o.QMin, o.QMax = 101, 100 }},
	{"QMax=101", "QMax (0-100)", func(o *webp.EncoderOptions) { o.QMax = 101 }},
	{"QMin>QMax", "Must be <= QMax", func(o *webp.EncoderOptions) { o.QMin, o.QMax = 60, 59 }},
	{"AlphaCompression=2", "0 or 1", func(o *webp.EncoderOptions) { o.AlphaCompression = 2 }},
	{"AlphaFiltering=3", "0, 1 or 2", func(o *webp.EncoderOptions) { o.AlphaFiltering = 3 }},
	{"AlphaQuality=101", "Range: 0-100", func(o *webp.EncoderOptions) { o.AlphaQuality = 101 }},
}

// sentinel equivalences: each documented sentinel and its documented explicit default.
type sentinelEq struct {
	Name     string
	Doc      string
	Sentinel func(o *webp.EncoderOptions, r *rand.Rand)
	Explicit func(o *webp.EncoderOptions)
}

func negInt(r *rand.Rand) int { return []int{-1, -2, -100, math.MinInt}[r.Intn(4)] }

var c20Sentinels = []sentinelEq{
	{"SNSStrength<0≡50", "any value < 0 is treated as 50", func(o *webp.EncoderOptions, r *rand.Rand) { o.SNSStrength = negInt(r) }, func(o *webp.EncoderOptions) { o.SNSStrength = 50 }},
	{"FilterStrength<0≡60", "any value < 0 is treated as 60", func(o *webp.EncoderOptions, r *rand.Rand) { o.FilterStrength = negInt(r) }, func(o *webp.EncoderOptions) { o.FilterStrength = 60 }},
	{"FilterType<0≡1", "any value < 0 is treated as 1 (strong)", func(o *webp.EncoderOptions, r *rand.Rand) { o.FilterType = negInt(r) }, func(o *webp.EncoderOptions) { o.FilterType = 1 }},
	{"Segments<0≡4", "any value < 0 is treated as 4", func(o *webp.EncoderOptions, r *rand.Rand) { o.Segments = negInt(r) }, func(o *webp.EncoderOptions) { o.Segments = 4 }},
	{"Segments=0≡4", "zero acts as a sentinel meaning use default (validateConfig doc; Segments 0/-1 for default)", func(o *webp.EncoderOptions, r *rand.Rand) { o.Segments = 0 }, func(o *webp.EncoderOptions) { o.Segments = 4 }},
	{"Pass<0≡1", "any value < 0 is treated as 1", func(o *webp.EncoderOptions, r *rand.Rand) { o.Pass = negInt(r) }, func(o *webp.EncoderOptions) { o.Pass = 1 }},
	{"Pass=0≡1", "zero acts as a sentinel meaning use default (Pass 0/-1 for default)", func(o *webp.EncoderOptions, r *rand.Rand) { o.Pass = 0 }, func(o *webp.EncoderOptions) { o.Pass = 1 }},
	{"QMax<0≡100", "any value < 0 is treated as 100", func(o *webp.EncoderOptions, r *rand.Rand) { o.QMax = negInt(r) }, func(o *webp.EncoderOptions) { o.QMax = 100 }},
	{"AlphaCompression<0≡1", "any value < 0 is treated as 1 (lossless)", func(o *webp.EncoderOptions, r *rand.Rand) { o.AlphaCompression = negInt(r) }, func(o *webp.EncoderOptions) { o.AlphaCompression = 1 }},
	{"AlphaFiltering<0≡1", "any value < 0 is treated as 1 (fast)", func(o *webp.EncoderOptions, r *rand.Rand) { o.AlphaFiltering = negInt(r) }, func(o *webp.EncoderOptions) { o.AlphaFiltering = 1 }},
	{"AlphaQuality<0≡100", "any value < 0 is treated as 100", func(o *webp.EncoderOptions, r *rand.Rand) { o.AlphaQuality = negInt(r) }, func(o *webp.EncoderOptions) { o.AlphaQuality = 100 }},
}

func runC20(c *ev.Ctx) {
	c.Rule = "EncoderOptions value space: (a) each documented out-of-range/NaN/Inf value on top of random legal options must be rejected; (b) legal boundary values must " +
		"give a valid file (walker+Decode); (c) random subsets of documented sentinels vs explicit defaults: byte-identical; (d) nil opts == DefaultOptions(); " +
		"(e) lossy-only options must not change lossless bytes; (f) EmulateJpegSize changes nothing, TargetPSNR changes nothing when TargetSize is set; (g) OptionsForPreset(PresetDefault,q)==defaults; (h) boundary image dimensions; " +
		"(i) extreme ints in every int field: error or valid file, never a panic; (j) Lossless+Exact gives back every source byte, hidden colours included, with and without metadata. distinct = (kind, mutated field/value or sentinel subset, codec, alpha)"
	n := c.N(10000, 1500000)
	kinds := []string{"illegal", "legal", "sentinel", "sentinel", "nil", "lossyonly", "jpeg", "preset", "dims", "extreme", "illegal", "sentinel", "psnr", "pinned", "psnrtarget", "qclamp", "exact"}
	var cases []ev.Case
	for i := 0; i < n; i++ {
		cc := c20Case{Kind: kinds[i%len(kinds)], Sub: i / len(kinds)}
		cases = append(cases, ev.Case{Idx: i, Desc: fmt.Sprintf("%+v", cc), Data: cc})
	}
	c.RunCases(cases, 0, func(cs ev.Case) { c20One(c, cs) })
}

func c20Image(r *rand.Rand, maxSide int) *image.NRGBA {
	w, h := 1+r.Intn(maxSide), 1+r.Intn(maxSide)
	return img.Gen(r, img.Pick(r, img.Classes), pickS(r, "opaque", "opaque", "binary", "gradient", "noise", "blocks"), w, h)
}

func c20Valid(c *ev.Ctx, cs ev.Case, what string, data []byte, m image.Image, o *webp.EncoderOptions) {
	_, issues := riffwalk.Walk(data)
	for _, is := range issues {
		c.Violate(cs, "invalid-file/"+is.Rule, map[string]string{"what": what}, what+": "+is.Msg, map[string]string{"opts": optString(o), "file": b64(data)})
	}
	d, err := decode(data)
	if err != nil {
		c.Violate(cs, "invalid-file/undecodable", map[string]string{"what": what}, what+": "+err.Error(), map[string]string{"opts": optString(o), "file": b64(data)})
		return
	}
	if d.Bounds().Dx() != m.Bounds().Dx() || d.Bounds().Dy() != m.Bounds().Dy() {
		c.Violate(cs, "invalid-file/size", map[string]string{"what": what}, fmt.Sprintf("%s: decoded %v", what, d.Bounds()), nil)
	}
}

func c20One(c *ev.Ctx, cs ev.Case) {
	cc := cs.Data.(c20Case)
	r := rng(c, cs.Idx)
	m := c20Image(r, 40)
	lossless := r.Intn(3) == 0
	alpha := img.HasAlpha(m)
	same := func(what string, a, b *webp.EncoderOptions, attrs map[string]string) {
		ba, ea := encode(m, a)
		bb, eb := encode(m, b)
		c.Eval(1)
		if (ea == nil) != (eb == nil) {
			c.Violate(cs, "equivalence-error-mismatch", attrs, fmt.Sprintf("%s: errors differ: %v vs %v", what, ea, eb), map[string]string{"a": optString(a), "b": optString(b)})
			return
		}
		if ea != nil {
			c.Violate(cs, "legal-rejected", attrs, fmt.Sprintf("%s: %v", what, ea), map[string]string{"a": optString(a)})
			return
		}
		if !bytes.Equal(ba, bb) {
			c.Violate(cs, "equivalence-broken", attrs, fmt.Sprintf("%s: %s  [a: %s] [b: %s]", what, firstByteDiff(ba, bb), optString(a), optString(b)), map[string]string{"a": optString(a), "b": optString(b)})
		}
	}
	switch cc.Kind {
	case "illegal":
		mu := c20Illegal[cc.Sub%len(c20Illegal)]
		o := legalOpts(r, lossless)
		mu.Set(o)
		var buf bytes.Buffer
		var err error
		p := ev.Guard(func() { err = webp.Encode(&buf, m, o) })
		c.Eval(1)
		c.Distinct("illegal|" + mu.Name + fmt.Sprintf("|L=%v", lossless))
		if p != "" {
			c.Violate(cs, "panic", map[string]string{"what": mu.Name}, mu.Name+": "+p, nil)
			return
		}
		if err == nil {
			c.Violate(cs, "illegal-accepted", map[string]string{"what": mu.Name}, fmt.Sprintf("%s accepted (doc: %s); %d bytes written", mu.Name, mu.Doc, buf.Len()), map[string]string{"opts": optString(o)})
		}
		if cc.Sub < 2 {
			c.Sample(map[string]any{"kind": "illegal", "mutation": mu.Name, "error": fmt.Sprint(err)})
		}
	case "legal":
		o := legalOpts(r, lossless)
		// push one field to a documented range end
		ends := []func(){
			func() { o.Quality = 0 }, func() { o.Quality = 100 }, func() { o.Method = 0 }, func() { o.Method = 6 },
			func() { o.SNSStrength = 0 }, func() { o.SNSStrength = 100 }, func() { o.FilterStrength = 0 }, func() { o.FilterStrength = 100 },
			func() { o.FilterSharpness = 7 }, func() { o.FilterType = 0 }, func() { o.Partitions = 3 }, func() { o.Segments = 1 }, func() { o.Segments = 4 },
			func() { o.Pass = 10 }, func() { o.QMin, o.QMax = 0, 0 }, func() { o.QMin, o.QMax = 100, 100 }, func() { o.AlphaQuality = 0 }, func() { o.AlphaQuality = 100 },
			func() { o.AlphaFiltering = 2 }, func() { o.AlphaCompression = 0 }, func() { o.Preprocessing = 3 }, func() { o.TargetSize = 1 }, func() { o.TargetSize = math.MaxInt32 },
			func() { o.TargetPSNR = 0.001 }, func() { o.TargetPSNR = 99 }, func() { o.Preset = webp.PresetText }, func() { o.ICC, o.EXIF, o.XMP = []byte{}, []byte{}, []byte{} },
		}
		k := cc.Sub % len(ends)
		ends[k]()
		if o.Pass > 4 {
			o.Pass = 10
		}
		if (cc.Sub/len(ends))%3 == 1 { // a busy picture of a few hundred macroblocks: range ends that only bite on long token / bit streams
			m = img.Gen(r, pickS(r, "noise", "photo", "tiles", "flatpatch"), pickS(r, "opaque", "opaque", "noise"), 100+r.Intn(220), 100+r.Intn(140))
			o.Pass = min(o.Pass, 2)
		}
		data, err := encode(m, o)
		c.Eval(1)
		c.Distinct(fmt.Sprintf("legal|end%d|L=%v|a=%v", k, lossless, alpha))
		if err != nil {
			c.Violate(cs, "legal-rejected", map[string]string{"end": fmt.Sprint(k)}, err.Error(), map[string]string{"opts": optString(o)})
			return
		}
		c20Valid(c, cs, "legal boundary", data, m, o)
	case "sentinel":
		a := legalOpts(r, lossless)
		b := *a
		mask := 0
		for i, s := range c20Sentinels {
			if r.Intn(3) == 0 {
				s.Sentinel(a, r)
				s.Explicit(&b)
				mask |= 1 << i
			}
		}
		if mask == 0 {
			i := r.Intn(len(c20Sentinels))
			c20Sentinels[i].Sentinel(a, r)
			c20Sentinels[i].Explicit(&b)
			mask = 1 << i
		}
		// keep QMin legal against both forms
		if a.QMax < 0 {
			b.QMax = 100
		}
		names := ""
		for i, s := range c20Sentinels {
			if mask&(1<<i) != 0 {
				names += s.Name + ","
			}
		}
		c.Distinct(fmt.Sprintf("sentinel|%x|L=%v|a=%v", mask, lossless, alpha))
		same("sentinels {"+names+"} vs explicit defaults", a, &b, map[string]string{"sentinels": names})
		if cc.Sub < 2 {
			c.Sample(map[string]any{"kind": "sentinel", "set": names, "a": optString(a), "b": optString(&b)})
		}
	case "nil":
		var buf1 bytes.Buffer
		e1 := webp.Encode(&buf1, m, nil)
		d, e2 := encode(m, webp.DefaultOptions())
		c.Eval(1)
		c.Distinct(fmt.Sprintf("nil|a=%v|%s", alpha, sizeBucket(m.Rect.Dx(), m.Rect.Dy())))
		if e1 != nil || e2 != nil || !bytes.Equal(buf1.Bytes(), d) {
			c.Violate(cs, "nil-options-differ", nil, fmt.Sprintf("nil opts vs DefaultOptions(): err %v / %v, %s", e1, e2, firstByteDiff(buf1.Bytes(), d)), nil)
		}
		// nil writer / nil image
		if p := ev.Guard(func() {
			if webp.Encode(nil, m, nil) == nil {
				c.Violate(cs, "illegal-accepted", map[string]string{"what": "nil writer"}, "nil writer accepted", nil)
			}
			var b bytes.Buffer
			if webp.Encode(&b, nil, nil) == nil {
				c.Violate(cs, "illegal-accepted", map[string]string{"what": "nil image"}, "nil image accepted", nil)
			}
		}); p != "" {
			c.Violate(cs, "panic", map[string]string{"what": "nil args"}, p, nil)
		}
	case "lossyonly":
		a := legalOpts(r, true)
		b := *a
		b.Preprocessing = r.Intn(4)
		b.AlphaCompression = pickI(r, -1, 0, 1)
		b.AlphaFiltering = pickI(r, -1, 0, 1, 2)
		b.AlphaQuality = pickI(r, -1, 0, 50, 100)
		c.Distinct(fmt.Sprintf("lossyonly|%d%d%d%d|a=%v", b.Preprocessing, b.AlphaCompression, b.AlphaFiltering, b.AlphaQuality, alpha))
		same("lossy-only options on a lossless encode", a, &b, map[string]string{"kind": "lossyonly"})
	case "jpeg":
		a := legalOpts(r, lossless)
		b := *a
		b.EmulateJpegSize = !a.EmulateJpegSize
		c.Distinct(fmt.Sprintf("jpeg|L=%v|a=%v|M%d", lossless, alpha, a.Method))
		same("EmulateJpegSize toggled", a, &b, map[string]string{"kind": "jpeg"})
	case "psnr":
		// "TargetPSNR ... When set (and TargetSize is 0)": with a TargetSize the PSNR target is documented to have no effect
		mm := img.Gen(r, pickS(r, "photo", "noise", "tiles", "gradient", "bands"), pickS(r, "opaque", "opaque", "gradient"), 24+r.Intn(80), 24+r.Intn(80))
		a := legalOpts(r, false)
		a.TargetSize = pickI(r, 100, 150, 400, 1000, 1500, 3000, 20000)
		a.TargetPSNR = pickF(r, 20, 30, 38, 42, 48, 60)
		b := *a
		b.TargetPSNR = 0
		c.Distinct(fmt.Sprintf("psnr|ts%d|psnr%g|M%d|pass%d", a.TargetSize, a.TargetPSNR, a.Method, a.Pass))
		m = mm
		same("TargetPSNR with TargetSize set", a, &b, map[string]string{"kind": "psnr"})
	case "psnrtarget":
		// TargetPSNR "adjusts quality across multiple passes to converge toward this PSNR level": one target far below
		// and one far above what the first pass achieves on busy content (which lies between 15 and 60 dB at any
		// quality) send the search in opposite directions, so the two files cannot be the same. (Two targets that are
		// both out of reach on the same side legitimately end at the same bound - an earlier version of this oracle
		// compared 28 dB with 42 dB and raised a false alarm on a noise picture whose best PSNR is below 28 dB.)
		mm := img.Gen(r, pickS(r, "noise", "photo", "tiles"), "opaque", 64+r.Intn(64), 64+r.Intn(64))
		a := webp.DefaultOptions()
		a.Method = r.Intn(7)
		a.Pass = pickI(r, 4, 6, 10)
		a.Quality = pickF(r, 30, 50, 75, 90)
		a.TargetPSNR = 15
		b := *a
		b.TargetPSNR = 60
		ba, ea := encode(mm, a)
		bb, eb := encode(mm, &b)
		c.Eval(1)
		c.Distinct(fmt.Sprintf("psnrtarget|M%d|pass%d|q%g", a.Method, a.Pass, a.Quality))
		if ea != nil || eb != nil {
			c.Violate(cs, "legal-rejected", map[string]string{"kind": "psnrtarget"}, fmt.Sprintf("%v / %v", ea, eb), nil)
		} else if bytes.Equal(ba, bb) {
			c.Violate(cs, "target-psnr-without-effect", map[string]string{"kind": "psnrtarget"}, fmt.Sprintf("TargetPSNR 15 and 60 give the same %d bytes [%s]", len(ba), optString(a)), map[string]string{"a": optString(a), "b": optString(&b)})
		}
	case "qclamp":
		// QMin / QMax are documented as the minimum / maximum quality ("Matches C libwebp's qmin/qmax", where the
		// quality is clamped into [qmin, qmax] before any pass): a Quality outside the window behaves as the nearest bound.
		mm := img.Gen(r, pickS(r, "photo", "noise", "tiles", "gradient"), pickS(r, "opaque", "opaque", "gradient"), 16+r.Intn(80), 16+r.Intn(80))
		a := legalOpts(r, false)
		a.TargetSize, a.TargetPSNR = pickI(r, 0, 0, 0, 2000), 0
		a.Preprocessing &^= 2 // the dithering amplitude follows the requested Quality itself (as in libwebp), not the clamped one
		b := *a
		what := ""
		if r.Intn(2) == 0 {
			lo := pickI(r, 30, 50, 80, 100)
			a.QMin, a.QMax, a.Quality = lo, 100, float32(pickI(r, 0, 10, lo-1))
			b.QMin, b.QMax, b.Quality = lo, 100, float32(lo)
			what = fmt.Sprintf("Quality %g below QMin %d vs Quality = QMin", a.Quality, lo)
		} else {
			hi := pickI(r, 0, 20, 50, 70)
			a.QMin, a.QMax, a.Quality = 0, hi, float32(pickI(r, 100, 90, hi+1))
			b.QMin, b.QMax, b.Quality = 0, hi, float32(hi)
			what = fmt.Sprintf("Quality %g above QMax %d vs Quality = QMax", a.Quality, hi)
		}
		c.Distinct(fmt.Sprintf("qclamp|%s|M%d|ts%d", what[:14], a.Method, a.TargetSize))
		m = mm
		same(what, a, &b, map[string]string{"kind": "qclamp"})
	case "exact":
		// "Exact preserves RGB values under fully transparent pixels": with Lossless and Exact the file gives back every
		// byte of the source, hidden colours included - whichever writer Encode picks (metadata switches to the buffered one)
		mm := img.Gen(r, img.Pick(r, img.Classes), pickS(r, "transparentrgb", "transparentrgb", "binary", "blocks", "alltransparent"), 1+r.Intn(48), 1+r.Intn(48))
		for o := 0; o+3 < len(mm.Pix); o += 4 { // make sure hidden colours are there
			if mm.Pix[o+3] == 0 {
				mm.Pix[o], mm.Pix[o+1], mm.Pix[o+2] = byte(17+o), byte(200-o), byte(o>>3|1)
			}
		}
		a := legalOpts(r, true)
		a.Exact = true
		switch cc.Sub % 4 {
		case 0:
			a.ICC, a.EXIF, a.XMP = nil, nil, nil
		case 1:
			a.ICC, a.EXIF, a.XMP = []byte("icc"), nil, nil
		case 2:
			a.ICC, a.EXIF, a.XMP = nil, []byte("exif-odd"), []byte("<x/>")
		}
		c.Distinct(fmt.Sprintf("exact|M%d|q%g|meta%d", a.Method, a.Quality, cc.Sub%4))
		data, err := encode(mm, a)
		if err != nil {
			c.Violate(cs, "legal-rejected", map[string]string{"kind": "exact"}, err.Error(), map[string]string{"opts": optString(a)})
			return
		}
		d, err := decode(data)
		if err != nil {
			c.Violate(cs, "invalid-file/undecodable", map[string]string{"what": "exact"}, err.Error(), map[string]string{"opts": optString(a), "file": b64(data)})
			return
		}
		if got := img.Tight(toNRGBA(d)); !bytes.Equal(got, img.Tight(mm)) {
			c.Violate(cs, "equivalence-broken", map[string]string{"kind": "exact"}, "Lossless + Exact: decoded bytes differ from the source (hidden colours included): "+firstPixelDiff(got, img.Tight(mm), mm.Rect.Dx()), map[string]string{"opts": optString(a), "file": b64(data)})
		}
	case "pinned":
		// QMin == QMax (both documented as literal quality values in 0..100, only QMax < 0 is a sentinel) leaves the
		// size / PSNR search no freedom: with Quality at the same value every pass runs at that quality, so the value
		// of the target cannot matter.
		q := pickI(r, 0, 0, 1, 30, 50, 99, 100)
		mm := img.Gen(r, pickS(r, "photo", "noise", "tiles", "gradient"), pickS(r, "opaque", "opaque", "gradient"), 24+r.Intn(80), 24+r.Intn(80))
		a := legalOpts(r, false)
		a.Quality, a.QMin, a.QMax = float32(q), q, q
		a.TargetPSNR = 0
		a.TargetSize = pickI(r, 100, 400, 3000)
		b := *a
		b.TargetSize = pickI(r, 1<<20, 1<<24, 50000)
		c.Distinct(fmt.Sprintf("pinned|q%d|M%d|pass%d", q, a.Method, a.Pass))
		m = mm
		same("QMin=QMax=Quality pinned, TargetSize varied", a, &b, map[string]string{"kind": "pinned", "q": fmt.Sprint(q)})
	case "preset":
		q := pickF(r, 0, 30, 75, 100)
		a := webp.OptionsForPreset(webp.PresetDefault, q)
		b := webp.DefaultOptions()
		b.Quality = q
		a.Lossless, b.Lossless = lossless, lossless
		c.Distinct(fmt.Sprintf("preset|q%g|L=%v|a=%v", q, lossless, alpha))
		same("OptionsForPreset(PresetDefault,q) vs DefaultOptions()+Quality", a, b, map[string]string{"kind": "preset"})
		// every preset x Lossless is legal
		p := webp.Preset(cc.Sub % 6)
		o := webp.OptionsForPreset(p, q)
		o.Lossless = lossless
		if data, err := encode(m, o); err != nil {
			c.Violate(cs, "legal-rejected", map[string]string{"preset": fmt.Sprint(p)}, err.Error(), nil)
		} else {
			c20Valid(c, cs, fmt.Sprintf("preset %d", p), data, m, o)
		}
	case "dims":
		type dim struct {
			w, h int
			ok   bool
		}
		dims := []dim{{0, 5, false}, {5, 0, false}, {0, 0, false}, {16383, 1, true}, {1, 16383, true}, {16384, 1, false}, {1, 16384, false}, {16383, 2, true}, {2, 16383, true}, {20000, 1, false}}
		d := dims[cc.Sub%len(dims)]
		var im image.Image
		if cc.Sub%2 == 0 {
			im = image.NewNRGBA(image.Rect(-3, -7, -3+d.w, -7+d.h))
		} else {
			im = image.NewGray(image.Rect(5, 5, 5+d.w, 5+d.h))
		}
		o := webp.DefaultOptions()
		o.Lossless = lossless
		o.Method = r.Intn(7)
		var data []byte
		var err error
		p := ev.Guard(func() { data, err = encode(im, o) })
		c.Eval(1)
		c.Distinct(fmt.Sprintf("dims|%dx%d|L=%v|%T", d.w, d.h, lossless, im))
		if p != "" {
			c.Violate(cs, "panic", map[string]string{"what": "dims"}, fmt.Sprintf("%dx%d: %s", d.w, d.h, p), nil)
			return
		}
		if d.ok && err != nil {
			c.Violate(cs, "legal-rejected", map[string]string{"dims": fmt.Sprintf("%dx%d", d.w, d.h)}, err.Error(), nil)
		}
		if !d.ok && err == nil {
			c.Violate(cs, "illegal-accepted", map[string]string{"what": fmt.Sprintf("dims %dx%d", d.w, d.h)}, "accepted", nil)
		}
		if d.ok && err == nil {
			c20Valid(c, cs, "boundary dims", data, im, o)
		}
	case "extreme":
		o := legalOpts(r, lossless)
		fields := []*int{&o.Method, &o.TargetSize, &o.Preprocessing, &o.SNSStrength, &o.FilterStrength, &o.FilterSharpness, &o.FilterType, &o.Partitions,
			&o.Segments, &o.Pass, &o.QMin, &o.QMax, &o.AlphaCompression, &o.AlphaFiltering, &o.AlphaQuality}
		vals := []int{math.MinInt, math.MaxInt, math.MinInt32, math.MaxInt32, -1, 1 << 20}
		k := cc.Sub % len(fields)
		v := vals[(cc.Sub/len(fields))%len(vals)]
		*fields[k] = v
		if k == 1 && v > 0 {
			*fields[k] = 1 << 20 // TargetSize: keep the pass loop bounded but legal
		}
		var data []byte
		var err error
		p := ev.Guard(func() { data, err = encode(m, o) })
		c.Eval(1)
		c.Distinct(fmt.Sprintf("extreme|f%d|%d|L=%v", k, v, lossless))
		if p != "" {
			c.Violate(cs, "panic", map[string]string{"what": "extreme"}, fmt.Sprintf("field %d = %d: %s", k, v, p), map[string]string{"opts": optString(o)})
			return
		}
		if err == nil {
			c20Valid(c, cs, fmt.Sprintf("extreme field %d=%d", k, v), data, m, o)
		}
	}
}
