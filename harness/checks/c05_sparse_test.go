package checks

import (
	"math/rand"
	"testing"

	"verif/lw"
)

// The sparse-groups file must be a valid VP8L picture: libwebp and this package decode it.
func TestC05SparseGroupsIsValid(t *testing.T) {
	for s := int64(0); s < 6; s++ {
		b := c05SparseGroups(rand.New(rand.NewSource(s)))
		if _, _, _, err := lw.DecodeRGBA(b); err != nil {
			t.Fatalf("seed %d: libwebp rejects: %v (%d bytes)", s, err, len(b))
		}
		if _, err := decode(b); err != nil {
			t.Fatalf("seed %d: webp.Decode rejects: %v", s, err)
		}
	}
}
