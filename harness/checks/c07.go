package checks

import (
	"fmt"
	"image"

	webp "github.com/deepteams/webp"

	"verif/ev"
	"verif/img"
	"verif/lw"
	"verif/riffwalk"
)

func init() { Registry["C07"] = Check{Level: "exploration", Run: runC07} }

type c07Case struct {
	Class, Alpha, Type string
	W, H               int
	AComp, AFilt, AQ   int
	Method             int
	Quality            float32
	Exact              bool
}

func alphaLevels(q int) int {
	if q <= 70 {
		return 2 + q/5
	}
	return 16 + (q-70)*8
}

func runC07(c *ev.Ctx) {
	c.Rule = "lossy Encode->Decode over alpha pattern x AlphaCompression{-1,0,1} x AlphaFiltering{-1,0,1,2} x AlphaQuality x Method x Quality x Exact x source type; " +
		"AlphaQuality>=100 (or sentinel): decoded alpha plane == source alpha plane; <100: #levels <= 2+q/5 (q<=70) / 16+8(q-70), min/max kept, monotone map; " +
		"distinct = (alpha pattern, AComp, AFilt, AQ, method, size bucket, ALPH header byte actually emitted, VP8L transform signature of the alpha stream)"
	lwOK := lw.SelfTest() == nil
	aqs := []int{-1, 100, 100, 0, 1, 35, 70, 71, 99}
	n := c.N(12000, 1500000)
	var cases []ev.Case
	for i := 0; i < n; i++ {
		r := rng(c, i)
		cc := c07Case{
			Alpha:  img.Alphas[i%len(img.Alphas)],
			AComp:  []int{-1, 0, 1}[(i/len(img.Alphas))%3],
			AFilt:  []int{-1, 0, 1, 2}[(i/(len(img.Alphas)*3))%4],
			Method: (i / (len(img.Alphas) * 12)) % 7,
			AQ:     aqs[r.Intn(len(aqs))],
			Class:  img.Pick(r, img.Classes), Quality: pickF(r, 0, 50, 75, 100), Exact: r.Intn(3) == 0,
			Type: pickS(r, "NRGBA", "NRGBA", "RGBA", "NRGBA64", "Wrapper", "Alpha", "NYCbCrA", "Paletted", "RGBA64", "Alpha16"),
		}
		switch r.Intn(3) {
		case 0:
			cc.W, cc.H = img.Pick(r, img.SmallSizes), img.Pick(r, img.SmallSizes)
		case 1:
			cc.W, cc.H = 1+r.Intn(90), 1+r.Intn(90)
		default:
			cc.W, cc.H = 1+r.Intn(12), 1+r.Intn(12)
		}
		if c.Thorough() && i%60 == 0 {
			cc.W, cc.H = 100+r.Intn(400), 100+r.Intn(400)
		}
		cases = append(cases, ev.Case{Idx: i, Desc: fmt.Sprintf("%+v", cc), Data: cc})
	}
	c.RunCases(cases, 0, func(cs ev.Case) { c07One(c, cs, lwOK) })
}

func c07One(c *ev.Ctx, cs ev.Case, lwOK bool) {
	cc := cs.Data.(c07Case)
	r := rng(c, cs.Idx+1<<20)
	base := img.Gen(r, cc.Class, cc.Alpha, cc.W, cc.H)
	if r.Intn(3) == 0 { // non-zero origin (crops, GIF frame rectangles): every source type inherits it
		base = img.Shift(base, r.Intn(40)-10, r.Intn(40)-10)
	}
	src := img.AsType(r, base, cc.Type)
	want := img.ToNRGBA(src)
	srcAlpha := img.HasAlpha(want)
	o := webp.DefaultOptions()
	o.Quality, o.Method, o.Exact = cc.Quality, cc.Method, cc.Exact
	o.AlphaCompression, o.AlphaFiltering, o.AlphaQuality = cc.AComp, cc.AFilt, cc.AQ
	data, err := encode(src, o)
	c.Eval(1)
	rep := func() any { return map[string]string{"opts": optString(o), "file": b64(data)} }
	if err != nil {
		c.Violate(cs, "encode-error", nil, err.Error(), nil)
		return
	}
	ch := riffChunks(data)
	alph, hasALPH := ch["ALPH"]
	hdr := -1
	sig := ""
	if hasALPH && len(alph) > 0 {
		hdr = int(alph[0])
		if m, _, _, _ := riffwalk.ALPHHeader(alph); m == 1 {
			sig = alphSig(alph[1:])
		}
	}
	c.Distinct(fmt.Sprintf("%s|%d|%d|%d|%d|%s|%d|%s", cc.Alpha, cc.AComp, cc.AFilt, cc.AQ, cc.Method, sizeBucket(cc.W, cc.H), hdr, sig))
	c.Count(fmt.Sprintf("alph_hdr_%d", hdr), 1)
	if cs.Idx%500 == 0 {
		c.Sample(map[string]any{"case": cs.Desc, "alph_header": hdr, "alpha_stream_sig": sig, "bytes": len(data)})
	}
	dec, err := decode(data)
	if err != nil {
		c.Violate(cs, "decode-error", map[string]string{"alph": fmt.Sprint(hdr)}, err.Error(), rep())
		return
	}
	if dec.Bounds().Dx() != cc.W || dec.Bounds().Dy() != cc.H {
		c.Violate(cs, "size-mismatch", nil, fmt.Sprintf("decoded %v", dec.Bounds()), rep())
		return
	}
	if !srcAlpha {
		if hasALPH {
			c.Violate(cs, "opaque-with-alph", nil, "opaque source produced an ALPH chunk", rep())
		}
		if n, ok := dec.(*image.NRGBA); ok {
			if img.HasAlpha(n) {
				c.Violate(cs, "opaque-decodes-transparent", nil, "opaque source decodes with alpha < 255", rep())
			}
		} else if _, ok := dec.(*image.YCbCr); !ok {
			if img.HasAlpha(img.ToNRGBA(dec)) {
				c.Violate(cs, "opaque-decodes-transparent", nil, "opaque source decodes with alpha < 255", rep())
			}
		}
		return
	}
	got := toNRGBA(dec)
	effQ := cc.AQ
	if effQ < 0 {
		effQ = 100
	}
	side := func() string {
		if !lwOK {
			return "unknown"
		}
		p, w2, h2, e := lw.DecodeRGBA(data)
		if e != nil || w2 != cc.W || h2 != cc.H {
			return "libwebp-rejects"
		}
		for y := 0; y < cc.H; y++ {
			for x := 0; x < cc.W; x++ {
				if p[(y*cc.W+x)*4+3] != got.Pix[y*got.Stride+x*4+3] {
					return "decoder"
				}
			}
		}
		return "encoder"
	}
	if effQ >= 100 {
		bad := 0
		where := ""
		for y := 0; y < cc.H; y++ {
			for x := 0; x < cc.W; x++ {
				a, b := want.Pix[y*want.Stride+x*4+3], got.Pix[y*got.Stride+x*4+3]
				if a != b {
					if bad == 0 {
						where = fmt.Sprintf("first at (%d,%d): source alpha %d decoded %d", x, y, a, b)
					}
					bad++
				}
			}
		}
		if bad > 0 {
			c.Violate(cs, "alpha-mismatch", map[string]string{"side": side(), "alph": fmt.Sprint(hdr)}, fmt.Sprintf("%d alpha samples differ; %s", bad, where), rep())
		}
		return
	}
	// quantised alpha
	var seen [256]bool
	var mapTo [256]int
	for i := range mapTo {
		mapTo[i] = -1
	}
	minS, maxS := 255, 0
	fn := true
	for y := 0; y < cc.H; y++ {
		for x := 0; x < cc.W; x++ {
			a, b := int(want.Pix[y*want.Stride+x*4+3]), int(got.Pix[y*got.Stride+x*4+3])
			seen[b] = true
			minS, maxS = min(minS, a), max(maxS, a)
			if mapTo[a] >= 0 && mapTo[a] != b {
				fn = false
			}
			mapTo[a] = b
		}
	}
	nl := 0
	for _, s := range seen {
		if s {
			nl++
		}
	}
	lim := alphaLevels(effQ)
	attrs := map[string]string{"aq": fmt.Sprint(effQ), "alph": fmt.Sprint(hdr)}
	if nl > lim {
		c.Violate(cs, "alpha-too-many-levels", attrs, fmt.Sprintf("%d distinct decoded alpha values, documented maximum %d for AlphaQuality %d", nl, lim, effQ), rep())
	}
	if !seen[minS] || !seen[maxS] {
		c.Violate(cs, "alpha-extremes-lost", attrs, fmt.Sprintf("source alpha range [%d,%d] not preserved in decoded plane", minS, maxS), rep())
	}
	if !fn {
		c.Violate(cs, "alpha-not-quantisation", attrs, "decoded alpha is not a function of source alpha (more than quantisation happened)", rep())
	} else {
		prev := -1
		for a := 0; a < 256; a++ {
			if mapTo[a] < 0 {
				continue
			}
			if mapTo[a] < prev {
				c.Violate(cs, "alpha-not-quantisation", attrs, fmt.Sprintf("quantisation map is not monotone at source alpha %d", a), rep())
				break
			}
			prev = mapTo[a]
		}
	}
}

// alphSig is vp8lSig for a header-less ALPH VP8L stream.
func alphSig(stream []byte) string {
	fake := append([]byte{0x2f, 0, 0, 0, 0}, stream...)
	return vp8lSig(fake)
}
