package checks

import (
	"bytes"
	"encoding/json"
	"fmt"
	"image"
	"os"
	"os/exec"
	"strconv"

	webp "github.com/deepteams/webp"
	"github.com/deepteams/webp/animation"
	"github.com/deepteams/webp/mux"

	"verif/ev"
)

// Time proportionality (C05: "in time ... at most proportional to the input length plus the declared
// picture/canvas size"). A wall-clock budget cannot see a quadratic parser on inputs of a few hundred
// kilobytes, so this part measures *scaling*: a family of inputs made of n repeated units (n units cost
// Theta(n) bytes and Theta(n) declared pixels) is run at n and 4n and the process CPU time (user+sys, not
// wall time) is compared. Linear code gives a ratio near 4, a quadratic pass gives 16. The verdict
// "superlinear-time" needs ratio > 10 with at least 0.4 s of CPU at 4n, three times in a row; anything
// faster than that is far below what the check can resolve and passes.

type c05ScaleGen struct {
	Name  string
	Build func(n int) []byte
}

func c05ScaleGens() []c05ScaleGen {
	le24 := func(v int) []byte { return []byte{byte(v), byte(v >> 8), byte(v >> 16)} }
	tinyVP8L := []byte{0x2f, 0x00, 0x00, 0x00, 0x00, 0x88, 0x88, 0x08} // 1x1 lossless picture
	anmf := func(payload []byte) []byte {
		h := append(append(append(append(append(le24(0), le24(0)...), le24(0)...), le24(0)...), le24(10)...), 0)
		return chunk("ANMF", append(h, payload...))
	}
	units := []struct {
		name string
		b    []byte
	}{
		{"ALPH", chunk("ALPH", []byte{0, 0xff})},
		{"unknown", chunk("zzzz", nil)},
		{"EXIF", chunk("EXIF", []byte("Exif\x00\x00"))},
		{"ICCP-empty", chunk("ICCP", nil)},
		{"ANMF-valid", anmf(chunk("VP8L", tinyVP8L))},
		{"ANMF-garbage", anmf([]byte{1, 2, 3, 4, 5, 6})},
		{"ANMF-alph-only", anmf(chunk("ALPH", []byte{0, 0xff}))},
		{"VP8L-valid", chunk("VP8L", tinyVP8L)},
		{"VP8-garbage", chunk("VP8 ", []byte{0x10, 0, 0, 0x9d, 0x01, 0x2a, 1, 0, 1, 0})},
	}
	heads := []struct {
		name string
		b    []byte
	}{
		{"simple", nil},
		{"vp8x-still", vp8xChunk(0x10, 1, 1)},
		{"vp8x-still-meta", vp8xChunk(0x10|0x20|0x08|0x04, 1, 1)},
		{"vp8x-anim", append(vp8xChunk(0x02|0x10, 1, 1), chunk("ANIM", []byte{0, 0, 0, 0, 0, 0})...)},
	}
	tails := []struct {
		name string
		b    []byte
	}{
		{"no-image", nil},
		{"image", chunk("VP8L", tinyVP8L)},
		{"cut-image", chunk("VP8L", tinyVP8L)[:11]},
	}
	var out []c05ScaleGen
	for _, h := range heads {
		for _, u := range units {
			for _, t := range tails {
				h, u, t := h, u, t
				out = append(out, c05ScaleGen{Name: h.name + "/" + u.name + "*n/" + t.name, Build: func(n int) []byte {
					body := make([]byte, 0, len(h.b)+n*len(u.b)+len(t.b))
					body = append(body, h.b...)
					for i := 0; i < n; i++ {
						body = append(body, u.b...)
					}
					body = append(body, t.b...)
					return riffWrap(body)
				}})
			}
		}
	}
	return out
}

// c05AllEntries runs every parsing/decoding entry point once and returns how many accepted the input.
func c05AllEntries(data []byte) int {
	ok := 0
	if _, err := webp.Decode(bytes.NewReader(data)); err == nil {
		ok++
	}
	if _, err := webp.DecodeConfig(bytes.NewReader(data)); err == nil {
		ok++
	}
	if _, err := webp.GetFeatures(bytes.NewReader(data)); err == nil {
		ok++
	}
	if _, _, err := image.Decode(bytes.NewReader(data)); err == nil {
		ok++
	}
	if dm, err := mux.NewDemuxer(data); err == nil {
		ok++
		n := dm.NumFrames()
		for i := 0; i < n && i < 64; i++ {
			dm.Frame(i)
		}
		dm.GetChunk(mux.FourCCEXIF)
	}
	if an, err := animation.DecodeBytes(data); err == nil {
		ok++
		if an.DecodeFrames() == nil {
			if d, err := animation.NewAnimDecoder(an); err == nil {
				for k := 0; d.HasNext() && k < 64; k++ {
					if _, _, err := d.NextFrame(); err != nil {
						break
					}
				}
			}
		}
	}
	return ok
}

type c05ScaleMsg struct {
	Gen     string  `json:"gen"`
	N       int     `json:"n"`
	Bytes1  int     `json:"bytes1"`
	Bytes4  int     `json:"bytes4"`
	T1      float64 `json:"t1"`
	T4      float64 `json:"t4"`
	Accept1 int     `json:"accept1"`
	Accept4 int     `json:"accept4"`
}

// c05ScaleWorker: worker C05 scale <n> [<gen index>] -- prints one JSON line per generator.
func c05ScaleWorker(args []string) int {
	n, _ := strconv.Atoi(args[0])
	only := -1
	if len(args) > 1 {
		only, _ = strconv.Atoi(args[1])
	}
	out := json.NewEncoder(os.Stdout)
	for gi, g := range c05ScaleGens() {
		if only >= 0 && gi != only {
			continue
		}
		d1, d4 := g.Build(n), g.Build(4*n)
		// best of three runs each (the first run of a size pays for page faults and pool growth; a
		// collection may land in any one run)
		measure := func(d []byte) (best float64, acc int) {
			best = 1e9
			for k := 0; k < 3; k++ {
				t0 := cpuSeconds()
				acc = c05AllEntries(d)
				if t := cpuSeconds() - t0; t < best {
					best = t
				}
			}
			return
		}
		t1, a1 := measure(d1)
		t4, a4 := measure(d4)
		out.Encode(c05ScaleMsg{Gen: g.Name, N: n, Bytes1: len(d1), Bytes4: len(d4), T1: t1, T4: t4, Accept1: a1, Accept4: a4})
	}
	return 0
}

const (
	c05ScaleRatio = 10.0
	c05ScaleFloor = 0.4 // CPU seconds at 4n below which nothing is concluded
)

func c05Scaling(c *ev.Ctx, exe string) {
	gens := c05ScaleGens()
	n := c.N(6000, 24000)
	run := func(only int) ([]c05ScaleMsg, error) {
		args := []string{"worker", "C05", "scale", strconv.Itoa(n)}
		if only >= 0 {
			args = append(args, strconv.Itoa(only))
		}
		cmd := exec.Command(exe, args...)
		cmd.Env = append(os.Environ(), "GOMAXPROCS=2")
		b, err := cmd.Output()
		var ms []c05ScaleMsg
		for _, l := range bytes.Split(b, []byte("\n")) {
			var m c05ScaleMsg
			if json.Unmarshal(l, &m) == nil && m.Gen != "" {
				ms = append(ms, m)
			}
		}
		return ms, err
	}
	ms, err := run(-1)
	if err != nil || len(ms) != len(gens) {
		// a child that dies or hangs here is the business of the main part of the check (same entry points);
		// this part only reads timings
		c.Inconclusive("scaling-child-incomplete")
	}
	worst := 0.0
	for gi, m := range ms {
		c.Eval(2)
		c.Distinct("scale|" + m.Gen)
		ratio := m.T4 / max(m.T1, 0.001)
		if m.T4 >= c05ScaleFloor && ratio > worst {
			worst = ratio
		}
		if m.T4 < c05ScaleFloor || ratio <= c05ScaleRatio {
			continue
		}
		// suspicious: repeat alone twice more; every repetition must show the same picture
		confirmed := 1
		detail := fmt.Sprintf("%d units (%d bytes): %.3f s CPU; %d units (%d bytes): %.3f s CPU (x%.1f)", m.N, m.Bytes1, m.T1, 4*m.N, m.Bytes4, m.T4, ratio)
		for rep := 0; rep < 2; rep++ {
			again, _ := run(gi)
			if len(again) == 1 && again[0].T4 >= c05ScaleFloor && again[0].T4/max(again[0].T1, 0.001) > c05ScaleRatio {
				confirmed++
				detail += fmt.Sprintf("; again %.3f s -> %.3f s", again[0].T1, again[0].T4)
			}
		}
		if confirmed == 3 {
			c.Violate(ev.Case{Idx: 20000000 + gi, Desc: "scaling " + m.Gen}, "superlinear-time", map[string]string{"gen": m.Gen},
				"CPU time grows much faster than the input: "+detail, map[string]any{"generator": m.Gen, "units": 4 * m.N})
		} else {
			c.Inconclusive("scaling-suspicion-not-reproduced")
		}
	}
	c.Extra("scaling_generators", len(ms))
	c.Extra("scaling_units", []int{n, 4 * n})
	c.Extra("scaling_worst_ratio_above_floor", worst)
	if len(ms) > 0 {
		c.Sample(map[string]any{"scaling_example": ms[len(ms)/2]})
	}
}
