package checks

import (
	"bytes"
	"fmt"
	"image"
	"math"
	"math/rand"
	"sync"
	"time"

	"github.com/deepteams/webp/animation"

	"verif/ev"
	"verif/img"
	"verif/refanim"
)

func init() { Registry["C09"] = Check{Level: "exploration", Run: runC09} }

// one frame of the small exhaustive domain, decoded from a mixed-radix index
const c09PerFrame = 3 * 3 * 3 * 3 * 2 * 2 * 2 * 4 // w,h,ox,oy,blend,dispose,hasAlphaFlag,pattern

type c09Frame struct {
	W, H, X, Y int
	Blend      bool
	Dispose    bool
	FlagAlpha  bool
	Pattern    int
}

func c09Decode(idx int) c09Frame {
	f := c09Frame{}
	f.W = 1 + idx%3
	idx /= 3
	f.H = 1 + idx%3
	idx /= 3
	f.X = idx%3 - 1
	idx /= 3
	f.Y = idx%3 - 1
	idx /= 3
	f.Blend = idx%2 == 1
	idx /= 2
	f.Dispose = idx%2 == 1
	idx /= 2
	f.FlagAlpha = idx%2 == 1
	idx /= 2
	f.Pattern = idx % 4
	return f
}

// pixel alphabet: alpha in {0,128,255}
func c09Pix(f c09Frame, salt int) []byte {
	p := make([]byte, f.W*f.H*4)
	for i := 0; i < f.W*f.H; i++ {
		a := byte(255)
		switch f.Pattern {
		case 1:
			a = 128
		case 2:
			a = 0
		case 3:
			a = []byte{0, 128, 255}[(i+salt)%3]
		}
		p[i*4], p[i*4+1], p[i*4+2], p[i*4+3] = byte(40+37*i+salt*11), byte(200-29*i), byte(90+salt*53+i), a
	}
	return p
}

type c09Anim struct {
	CW, CH int
	Frames []c09Frame
	Pix    [][]byte
}

func (a c09Anim) String() string { return fmt.Sprintf("canvas %dx%d frames %+v", a.CW, a.CH, a.Frames) }

// realisable: a frame flagged "no alpha" must be opaque (a bitstream flag cannot understate alpha).
func c09Realisable(a c09Anim) bool {
	for i, f := range a.Frames {
		if !f.FlagAlpha {
			for k := 3; k < len(a.Pix[i]); k += 4 {
				if a.Pix[i][k] != 255 {
					return false
				}
			}
		}
	}
	return true
}

func c09Run(c *ev.Ctx, cs ev.Case, a c09Anim, stat *c09Stats) {
	an := &animation.Animation{CanvasWidth: a.CW, CanvasHeight: a.CH}
	var ref []refanim.Frame
	for i, f := range a.Frames {
		m := &image.NRGBA{Pix: append([]byte{}, a.Pix[i]...), Stride: f.W * 4, Rect: image.Rect(0, 0, f.W, f.H)}
		var frameImg image.Image = m
		framePix := a.Pix[i]
		// Frame.Image is an image.Image: in one of four animations every frame is handed over as another Go image type
		// (premultiplied RGBA, 16-bit, paletted, opaque wrapper, shifted origin). What such a frame *shows* is its
		// canonical non-premultiplied reading (color.NRGBAModel of At), which is what the model composites.
		if cs.Idx%4 == 2 {
			tr := rand.New(rand.NewSource(int64(cs.Idx)*1315423911 + int64(i)))
			typ := []string{"RGBA", "RGBA", "NRGBA64", "RGBA64", "Paletted", "Wrapper", "NRGBA-shifted", "NRGBA-subimage"}[(cs.Idx/4+i)%8]
			switch typ {
			case "NRGBA-shifted": // same pixels, bounds away from the origin
				frameImg = img.Shift(m, 1+tr.Intn(9), -1-tr.Intn(9))
			case "NRGBA-subimage": // a view into a larger picture (non-zero origin, larger stride)
				frameImg = img.Place(tr, m, "subimage", 0x5a)
			default:
				frameImg = img.AsType(tr, m, typ)
			}
			framePix = img.Tight(img.ToNRGBA(frameImg))
		}
		bl, dp := animation.BlendNone, animation.DisposeNone
		if f.Blend {
			bl = animation.BlendAlpha
		}
		if f.Dispose {
			dp = animation.DisposeBackground
		}
		an.Frames = append(an.Frames, animation.Frame{Image: frameImg, Duration: time.Duration(10+i) * time.Millisecond, OffsetX: f.X, OffsetY: f.Y, Blend: bl, Dispose: dp, HasAlpha: f.FlagAlpha, IsKeyframe: i == 0})
		ref = append(ref, refanim.Frame{X: f.X, Y: f.Y, W: f.W, H: f.H, Pix: framePix, Blend: f.Blend, Dispose: f.Dispose})
	}
	want := refanim.Play(a.CW, a.CH, ref)
	dec, err := animation.NewAnimDecoder(an)
	c.Eval(1)
	if err != nil {
		c.Violate(cs, "decoder-rejects-animation", nil, err.Error(), a.String())
		return
	}
	var snaps []*image.NRGBA
	var sums []string
	for pass := 0; pass < 2; pass++ {
		for i := range a.Frames {
			if !dec.HasNext() {
				c.Violate(cs, "hasnext-false-early", nil, fmt.Sprintf("pass %d frame %d", pass, i), a.String())
				return
			}
			s, d, err := dec.NextFrame()
			if err != nil || s == nil {
				c.Violate(cs, "nextframe-error", nil, fmt.Sprintf("pass %d frame %d: %v", pass, i, err), a.String())
				return
			}
			if d != time.Duration(10+i)*time.Millisecond {
				c.Violate(cs, "duration-wrong", nil, fmt.Sprintf("frame %d duration %v", i, d), a.String())
			}
			if s.Rect.Dx() != a.CW || s.Rect.Dy() != a.CH {
				c.Violate(cs, "snapshot-size", nil, fmt.Sprintf("snapshot %v canvas %dx%d", s.Rect, a.CW, a.CH), a.String())
				return
			}
			got := img.Tight(s)
			if !bytes.Equal(got, want[i]) {
				what := "compositing"
				if pass == 1 {
					what = "reset-replay"
				}
				c.Violate(cs, "canvas-differs-from-model", map[string]string{"what": what, "frames": fmt.Sprint(len(a.Frames))},
					fmt.Sprintf("pass %d frame %d: %s; %s", pass, i, firstPixelDiff(got, want[i], a.CW), a.String()), a.String())
				return
			}
			if pass == 0 {
				snaps = append(snaps, s)
				sums = append(sums, ev.Sum(s.Pix))
			}
		}
		if dec.HasNext() {
			c.Violate(cs, "hasnext-true-after-end", nil, "", a.String())
		}
		dec.Reset()
	}
	for i, s := range snaps {
		if ev.Sum(s.Pix) != sums[i] {
			c.Violate(cs, "returned-snapshot-modified", nil, fmt.Sprintf("snapshot %d changed after later calls", i), a.String())
		}
	}
	if stat != nil {
		stat.note(a)
	}
}

type c09Stats struct {
	mu                                   sync.Mutex
	outside, blendOnNonEmpty, disposeCnt int64
}

func (s *c09Stats) note(a c09Anim) {
	s.mu.Lock()
	for i, f := range a.Frames {
		if f.X < 0 || f.Y < 0 || f.X+f.W > a.CW || f.Y+f.H > a.CH {
			s.outside++
		}
		if f.Blend && i > 0 {
			s.blendOnNonEmpty++
		}
		if f.Dispose {
			s.disposeCnt++
		}
	}
	s.mu.Unlock()
}

func runC09(c *ev.Ctx) {
	c.Rule = "AnimDecoder on programmatic Animations vs an independent compositing model (no key-frame logic): (1) small bounded domain - canvas 2x2, frames of size {1,2,3}^2 at " +
		"offsets {-1,0,1}^2 x blend x dispose x HasAlpha flag x 4 alpha patterns over {0,128,255}: 1 frame exhaustive, 2 frames exhaustive in thorough (sampled in quick), " +
		"3 frames sampled; (2) random animations (canvas <= 16x16, 1..12 frames, offsets partly outside, uniform alpha); (3) blend arithmetic through NextFrame: " +
		"256x256 two-frame animations covering all (src c, dst c) pairs for an (src a, dst a) pair - all 65536 alpha pairs in thorough, 512 in quick, plus all alpha pairs on a 16x16 colour grid; " +
		"each animation is played twice (Reset) and earlier snapshots are re-hashed; distinct = distinct (frame-parameter tuple sequence) / alpha pairs"
	c.Assume("inputs whose HasAlpha flag is false while the image has non-opaque pixels are excluded (not realisable from a bitstream)")
	c.Assume("blend oracle: exact for src a=0, src a=255, dst a=0; libwebp's documented integer formula elsewhere; deviation from the real-valued formula is reported as a statistic only")
	stat := &c09Stats{}
	var cases []ev.Case
	add := func(kind string, data any) { cases = append(cases, ev.Case{Idx: len(cases), Desc: kind, Data: data}) }
	// (1a) single frames, exhaustive
	add("small-1frame-exhaustive", nil)
	// (1b) two frames: chunks of the 2-frame product
	total2 := c09PerFrame * c09PerFrame
	chunks := 256
	for k := 0; k < chunks; k++ {
		add("small-2frames", k)
	}
	// (1c) three frames sampled
	for k := 0; k < c.N(16, 2560); k++ {
		add("small-3frames", k)
	}
	// (2) random
	for k := 0; k < c.N(64, 10240); k++ {
		add("random", k)
	}
	// (3) blend arithmetic
	nAlphaPairs := c.N(512, 65536)
	for k := 0; k < nAlphaPairs; k += 64 {
		add("blend-256x256", k)
	}
	add("blend-all-alpha-pairs-16x16", nil)
	var maxDev float64
	var devMu sync.Mutex
	c.RunCases(cases, 0, func(cs ev.Case) {
		r := rng(c, cs.Idx)
		switch cs.Desc {
		case "small-1frame-exhaustive":
			for i := 0; i < c09PerFrame; i++ {
				f := c09Decode(i)
				a := c09Anim{CW: 2, CH: 2, Frames: []c09Frame{f}, Pix: [][]byte{c09Pix(f, 0)}}
				if c09Realisable(a) {
					c.Distinct(fmt.Sprintf("1|%d", i))
					c09Run(c, cs, a, stat)
				}
			}
		case "small-2frames":
			k := cs.Data.(int)
			lo, hi := total2*k/chunks, total2*(k+1)/chunks
			step := 1
			if !c.Thorough() {
				step = 17 // quick: every 17th tuple, offset by the seed
				lo += int(uint64(c.Seed) % 17)
			}
			for i := lo; i < hi; i += step {
				f0, f1 := c09Decode(i%c09PerFrame), c09Decode(i/c09PerFrame)
				a := c09Anim{CW: 2, CH: 2, Frames: []c09Frame{f0, f1}, Pix: [][]byte{c09Pix(f0, 0), c09Pix(f1, 1)}}
				if c09Realisable(a) {
					c.Distinct(fmt.Sprintf("2|%d", i))
					c09Run(c, cs, a, stat)
				}
			}
		case "small-3frames":
			for n := 0; n < 4000; n++ {
				i0, i1, i2 := r.Intn(c09PerFrame), r.Intn(c09PerFrame), r.Intn(c09PerFrame)
				f0, f1, f2 := c09Decode(i0), c09Decode(i1), c09Decode(i2)
				a := c09Anim{CW: 2, CH: 2, Frames: []c09Frame{f0, f1, f2}, Pix: [][]byte{c09Pix(f0, 0), c09Pix(f1, 1), c09Pix(f2, 2)}}
				if c09Realisable(a) {
					c.Distinct(fmt.Sprintf("3|%d|%d|%d", i0, i1, i2))
					c09Run(c, cs, a, stat)
				}
			}
		case "random":
			for n := 0; n < 200; n++ {
				a := c09Random(r)
				c.Distinct(fmt.Sprintf("r|%d|%d", cs.Idx, n))
				c09Run(c, cs, a, stat)
			}
		case "blend-256x256":
			k0 := cs.Data.(int)
			for k := k0; k < k0+64 && k < nAlphaPairs; k++ {
				var sa, da int
				if c.Thorough() {
					sa, da = k/256, k%256
				} else {
					sa, da = r.Intn(256), r.Intn(256)
					if k%8 == 0 {
						sa, da = []int{0, 1, 127, 128, 254, 255}[r.Intn(6)], []int{0, 1, 127, 128, 254, 255}[r.Intn(6)]
					}
				}
				c.Distinct(fmt.Sprintf("blend|%d|%d", sa, da))
				d := c09BlendGrid(c, cs, sa, da, 256)
				devMu.Lock()
				maxDev = math.Max(maxDev, d)
				devMu.Unlock()
			}
		case "blend-all-alpha-pairs-16x16":
			for sa := 0; sa < 256; sa++ {
				for da := 0; da < 256; da++ {
					c09BlendGrid(c, cs, sa, da, 16)
				}
			}
			c.Count("alpha_pairs_on_16x16_grid", 65536)
		}
	})
	c.Extra("max_deviation_from_real_valued_blend_formula", maxDev)
	c.Extra("frames_partly_outside_canvas", stat.outside)
	c.Extra("blended_frames_after_first", stat.blendOnNonEmpty)
	c.Extra("disposing_frames", stat.disposeCnt)
	c.Extra("small_domain_2frame_tuples", total2)
	if c.Thorough() {
		c.SetExhaustive(true)
	}
	c.Sample(map[string]any{"small_domain_frame_example": c09Decode(1234), "meaning": "canvas 2x2; frame w,h in 1..3; offset in -1..1; blend; dispose; HasAlpha flag; alpha pattern"})
}

func c09Random(r *rand.Rand) c09Anim {
	a := c09Anim{CW: 1 + r.Intn(16), CH: 1 + r.Intn(16)}
	n := 1 + r.Intn(12)
	for i := 0; i < n; i++ {
		f := c09Frame{W: 1 + r.Intn(18), H: 1 + r.Intn(18), Blend: r.Intn(2) == 0, Dispose: r.Intn(3) == 0, FlagAlpha: true}
		f.X, f.Y = r.Intn(a.CW+6)-4, r.Intn(a.CH+6)-4
		if r.Intn(3) == 0 { // full-canvas frame at the origin (key-frame candidates)
			f.X, f.Y, f.W, f.H = 0, 0, a.CW, a.CH
		}
		if r.Intn(5) == 0 { // canvas-sized but shifted
			f.W, f.H = a.CW, a.CH
		}
		p := make([]byte, f.W*f.H*4)
		r.Read(p)
		opaque := r.Intn(3) == 0
		for k := 3; k < len(p); k += 4 {
			if opaque {
				p[k] = 255
			} else if r.Intn(4) == 0 {
				p[k] = []byte{0, 255}[r.Intn(2)]
			}
		}
		if opaque {
			f.FlagAlpha = r.Intn(2) == 0
		} else if full := f.X == 0 && f.Y == 0 && f.W == a.CW && f.H == a.CH; !full && r.Intn(6) == 0 {
			// The flag is a hint of the bitstream header and can understate (a VP8L stream whose alpha_is_used bit is
			// clear may still carry translucent pixels; libwebp decodes them as such): compositing goes by the pixels.
			// Exact full-canvas frames are left out: there the player, like libwebp's, takes the flag's word for
			// "this frame replaces everything" (section 6, examined and not claimed).
			f.FlagAlpha = false
		}
		a.Frames = append(a.Frames, f)
		a.Pix = append(a.Pix, p)
	}
	return a
}

// c09BlendGrid drives one (src alpha, dst alpha) pair through NextFrame with an n x n two-frame
// animation whose pixel (x,y) has src colour derived from x and dst colour from y in all channels.
func c09BlendGrid(c *ev.Ctx, cs ev.Case, sa, da, n int) float64 {
	step := 256 / n
	dst := make([]byte, n*n*4)
	src := make([]byte, n*n*4)
	for y := 0; y < n; y++ {
		for x := 0; x < n; x++ {
			o := (y*n + x) * 4
			sc, dc := byte(x*step+(step-1)*(x%2)), byte(y*step+(step-1)*(y%2))
			src[o], src[o+1], src[o+2], src[o+3] = sc, 255-sc, sc^0x5a, byte(sa)
			dst[o], dst[o+1], dst[o+2], dst[o+3] = dc, dc^0xa5, 255-dc, byte(da)
		}
	}
	an := &animation.Animation{CanvasWidth: n, CanvasHeight: n, Frames: []animation.Frame{
		{Image: &image.NRGBA{Pix: dst, Stride: n * 4, Rect: image.Rect(0, 0, n, n)}, Blend: animation.BlendNone, HasAlpha: true, IsKeyframe: true},
		{Image: &image.NRGBA{Pix: src, Stride: n * 4, Rect: image.Rect(0, 0, n, n)}, Blend: animation.BlendAlpha, HasAlpha: true},
	}}
	dec, err := animation.NewAnimDecoder(an)
	if err != nil {
		c.Violate(cs, "decoder-rejects-animation", nil, err.Error(), nil)
		return 0
	}
	if _, _, err := dec.NextFrame(); err != nil {
		c.Violate(cs, "nextframe-error", nil, err.Error(), nil)
		return 0
	}
	s, _, err := dec.NextFrame()
	if err != nil {
		c.Violate(cs, "nextframe-error", nil, err.Error(), nil)
		return 0
	}
	c.Eval(1)
	maxDev := 0.0
	for i := 0; i < n*n; i++ {
		o := i * 4
		sp := [4]uint8{src[o], src[o+1], src[o+2], src[o+3]}
		dp := [4]uint8{dst[o], dst[o+1], dst[o+2], dst[o+3]}
		want := refanim.Blend(sp, dp)
		so := (i/n)*s.Stride + (i%n)*4
		got := [4]uint8{s.Pix[so], s.Pix[so+1], s.Pix[so+2], s.Pix[so+3]}
		if got != want {
			c.Violate(cs, "blend-arithmetic", map[string]string{"sa": fmt.Sprint(sa), "da": fmt.Sprint(da)}, fmt.Sprintf("src %v over dst %v = %v, reference %v", sp, dp, got, want), nil)
			return maxDev
		}
		if n == 256 && i%97 == 0 {
			rb := refanim.RealBlend(sp, dp)
			for k := 0; k < 4; k++ {
				if got[3] != 0 || k == 3 {
					maxDev = math.Max(maxDev, math.Abs(rb[k]-float64(got[k])))
				}
			}
		}
	}
	return maxDev
}
