package checks

import (
	"bytes"
	"encoding/json"
	"fmt"
	"os"
	"os/exec"
	"runtime"
	"strconv"
	"strings"
	"sync"

	webp "github.com/deepteams/webp"

	"verif/ev"
	"verif/gen/vp8"
	"verif/gen/vp8l"
	"verif/img"
)

func init() {
	Registry["C13"] = Check{Level: "exploration", Run: runC13}
	workers["C13"] = c13Worker
}

type c13Case struct {
	Kind         string // enc-lossy, enc-lossless, dec-vp8, dec-vp8l, dec-alph, wide-alpha
	Class, Alpha string
	W, H         int
	Sub          int
}

func c13Cases(c *ev.Ctx) []c13Case {
	var out []c13Case
	n := c.N(900, 40000)
	for i := 0; i < n; i++ {
		r := rng(c, i)
		cc := c13Case{Class: img.Classes[i%len(img.Classes)], Alpha: pickS(r, "opaque", "opaque", "binary", "gradient", "noise"), Sub: i}
		switch i % 9 {
		case 0, 1, 2:
			cc.Kind = "enc-lossy"
		case 3, 4:
			cc.Kind = "enc-lossless"
		case 5:
			cc.Kind = "dec-vp8"
		case 6:
			cc.Kind = "dec-vp8l"
		case 7:
			cc.Kind = "dec-alph"
		default:
			cc.Kind = "enc-lossy"
			cc.Alpha = pickS(r, "gradient", "binary", "noise")
		}
		switch r.Intn(4) {
		case 0:
			cc.W, cc.H = img.Pick(r, img.SmallSizes), img.Pick(r, img.SmallSizes)
		case 1:
			cc.W, cc.H = 1+r.Intn(130), 1+r.Intn(130)
		case 2:
			cc.W, cc.H = 1+r.Intn(40), 1+r.Intn(40)
		default:
			cc.W, cc.H = 60+r.Intn(200), 50+r.Intn(120)
		}
		out = append(out, cc)
	}
	// valid key frames whose dequantised coefficients exceed what any encoder emits (level up to ~2000 times
	// quantiser steps up to 157): the int16 range of the inverse transforms
	for k := 0; k < c.N(24, 400); k++ {
		out = append(out, c13Case{Kind: "dec-vp8-hugecoeff", Class: "-", Alpha: "-", W: 0, H: 0, Sub: k})
	}
	// wide pictures: vector-width dependent tails, scratch-buffer thresholds of the upsamplers
	wides := []int{2047, 2048, 2049, 2100, 4095, 4096, 4097, 1023, 1025}
	if c.Thorough() {
		wides = append(wides, 8191, 8193, 16383)
	}
	for k, w := range wides {
		for _, h := range []int{1, 2, 3, 5} {
			out = append(out, c13Case{Kind: "wide-alpha", Class: "photo", Alpha: "gradient", W: w, H: h, Sub: k})
			if h == 3 {
				out = append(out, c13Case{Kind: "enc-lossy", Class: "photo", Alpha: "opaque", W: w, H: h, Sub: k + 100000})
				out = append(out, c13Case{Kind: "enc-lossless", Class: "tiles", Alpha: "binary", W: w, H: h, Sub: k + 200000})
			}
		}
	}
	return out
}

func c13Digest(c *ev.Ctx, idx int, cc c13Case) string {
	r := rng(c, idx+1<<21)
	var d string
	if p := ev.Guard(func() {
		switch cc.Kind {
		case "enc-lossy", "enc-lossless", "wide-alpha":
			m := img.Gen(r, cc.Class, cc.Alpha, cc.W, cc.H)
			o := legalOpts(r, cc.Kind == "enc-lossless")
			o.ICC, o.EXIF, o.XMP = nil, nil, nil
			if o.Pass > 2 {
				o.Pass = 2
			}
			if cc.W*cc.H > 20000 && o.Method > 4 && cc.Kind == "enc-lossless" {
				o.Method = 4
			}
			if cc.Kind == "wide-alpha" {
				o = webp.DefaultOptions()
				o.Method = 2
			}
			data, err := encode(m, o)
			if err != nil {
				d = errDigest(err)
				return
			}
			dm, err := decode(data)
			if err != nil {
				d = "enc=" + ev.Sum(data) + " " + errDigest(err)
				return
			}
			d = "enc=" + ev.Sum(data) + " dec=" + imgDigest(dm)
		case "dec-vp8":
			pl, _ := vp8.Synthesize(r, vp8.Params{MaxSide: 96})
			dm, err := decode(vp8.WrapRIFF(pl))
			if err != nil {
				d = errDigest(err)
				return
			}
			d = imgDigest(dm)
		case "dec-vp8-hugecoeff":
			pl, _ := vp8.Synthesize(r, vp8.Params{MaxSide: 48, CoeffScale: 40})
			dm, err := decode(vp8.WrapRIFF(pl))
			if err != nil {
				d = errDigest(err)
				return
			}
			d = imgDigest(dm)
		case "dec-vp8l":
			p := vp8l.DefaultParams()
			p.MaxSide = 96
			pl, _ := vp8l.Synthesize(r, p)
			dm, err := decode(vp8l.WrapRIFF(pl))
			if err != nil {
				d = errDigest(err)
				return
			}
			d = imgDigest(dm)
		case "dec-alph":
			w, h := 1+r.Intn(90), 1+r.Intn(60)
			pl, _ := vp8.Synthesize(r, vp8.Params{W: w, H: h})
			alph, _ := c04ALPH(r, w, h)
			dm, err := decode(riffWrap(vp8xChunk(0x10, w, h), chunk("ALPH", alph), chunk("VP8 ", pl)))
			if err != nil {
				d = errDigest(err)
				return
			}
			d = imgDigest(dm)
		}
	}); p != "" {
		lines := strings.SplitN(p, "\n", 2)
		d = "PANIC:" + lines[0]
	}
	return d
}

// c13Worker: worker C13 <seed> <tier>  -> JSON lines {"i":..,"d":..}
func c13Worker(args []string) int {
	if len(args) < 2 {
		return 2
	}
	os.Setenv("VERIF_SEED", args[0])
	c := ev.New("C13", args[1], "exploration")
	cases := c13Cases(c)
	res := make([]string, len(cases))
	var wg sync.WaitGroup
	ch := make(chan int, len(cases))
	stride, _ := strconv.Atoi(os.Getenv("VERIF_C13_STRIDE")) // the js/wasm child (one thread, interpreted by node) takes every stride-th case
	for i := range cases {
		if stride > 1 && (i%stride != 0 || cases[i].W*cases[i].H > 40000) {
			continue
		}
		ch <- i
	}
	close(ch)
	for w := 0; w < runtime.NumCPU(); w++ {
		wg.Add(1)
		go func() {
			defer wg.Done()
			for i := range ch {
				res[i] = c13Digest(c, i, cases[i])
			}
		}()
	}
	wg.Wait()
	enc := json.NewEncoder(os.Stdout)
	for i, d := range res {
		if d == "" && stride > 1 {
			continue
		}
		enc.Encode(map[string]any{"i": i, "d": d})
	}
	if stride > 1 { // no kernel exerciser in the js/wasm child: it belongs to the overlay builds
		enc.Encode(map[string]any{"done": true, "goarch": runtime.GOARCH})
		return 0
	}
	// kernel level: every arch-specific kernel driven directly with corner and random vectors
	var klines []string
	if p := ev.Guard(func() { klines = kernelDigests(c.Seed, c.N(20000, 400000)) }); p != "" {
		enc.Encode(map[string]any{"k": "kernel-exerciser-panicked", "d": strings.SplitN(p, "\n", 2)[0]})
	}
	for _, l := range klines {
		if k := strings.LastIndex(l, " "); k > 0 {
			enc.Encode(map[string]any{"k": l[:k], "d": l[k+1:]})
		}
	}
	enc.Encode(map[string]any{"done": true, "avx2_env": os.Getenv("VERIF_NOAVX2")})
	return 0
}

var c13QuickTargets = []string{"linux/386", "linux/arm", "linux/arm64", "linux/riscv64", "linux/mips", "linux/mipsle", "linux/ppc64le", "linux/s390x", "windows/amd64", "windows/386", "darwin/arm64", "js/wasm", "freebsd/amd64", "wasip1/wasm"}

func runC13(c *ev.Ctx) {
	c.Rule = "(a) one case list (Encode over legal options x image classes incl. 2047..4097-pixel-wide pictures, Decode of synthesized VP8 / VP8L / ALPH streams) executed by three builds of the same " +
		"working tree: amd64 assembly with AVX2, the same with AVX2 disabled (SSE2 paths), and a portable build made with a go build overlay that deletes every *_amd64 file and activates the " +
		"!amd64 pure-Go files - plus, for every second (thorough: eighth) case, the module built for js/wasm and executed by node (the toolchain's own choice of portable files); digests of encoded bytes and decoded pixels must be identical (a panic in one build is a difference); (b) go build ./... of the module for GOOS/GOARCH targets " +
		"(quick: 14 representative targets incl. all 32-bit families; thorough: every pair of `go tool dist list`); distinct = (kind, class, alpha, size bucket) cases + targets built"
	c.Assume("arm64 assembly cannot be executed in this sandbox (no emulator): it is compile-checked only; 32-bit binaries cannot run here either")
	c.Assume("clause (b) is decided by observing the compiler, the only observation that can decide it")
	ovl, port := os.Getenv("VERIF_EXE_OVL"), os.Getenv("VERIF_EXE_PORTABLE")
	if ovl == "" || port == "" {
		c.Fatal("overlay builds missing (VERIF_EXE_OVL / VERIF_EXE_PORTABLE)")
		return
	}
	if b, err := os.ReadFile("/proc/cpuinfo"); err != nil || !bytes.Contains(b, []byte(" avx2")) {
		c.Inconclusive("cpu-without-avx2:avx2-paths-not-executed")
	}
	seed := strconv.FormatInt(c.Seed, 10)
	type variant struct {
		name, exe string
		env       []string
		pre       []string // arguments in front of "worker C13 .."
		nokern    bool     // prints no kernel-level lines
	}
	vars := []variant{{name: "portable", exe: port}, {name: "avx2", exe: ovl}, {name: "sse2", exe: ovl, env: []string{"VERIF_NOAVX2=1"}}}
	// fourth build: the module compiled for GOOS=js GOARCH=wasm - the real portable configuration (every !amd64 && !arm64
	// file selected by the toolchain itself, no overlay involved), executed by node on another instruction set. One
	// thread, so it takes every second (thorough: eighth) case of the list and none above 40000 pixels.
	if wexe, wrun := os.Getenv("VERIF_EXE_WASM"), os.Getenv("VERIF_WASM_EXEC"); wexe != "" && wrun != "" {
		if node, err := exec.LookPath("node"); err == nil {
			vars = append(vars, variant{name: "wasm", exe: node, pre: []string{wrun, wexe}, nokern: true,
				env: []string{"VERIF_C13_STRIDE=" + strconv.Itoa(c.N(2, 8))}})
		} else {
			c.Inconclusive("node-not-found:js/wasm-build-not-executed")
		}
	} else {
		c.Inconclusive("js/wasm-build-missing:not-executed")
	}
	res := make([]map[int]string, len(vars))
	kern := make([]map[string]string, len(vars))
	var wg sync.WaitGroup
	for k, v := range vars {
		wg.Add(1)
		go func(k int, v variant) {
			defer wg.Done()
			cmd := exec.Command(v.exe, append(append([]string{}, v.pre...), "worker", "C13", seed, c.Tier)...)
			cmd.Env = append(os.Environ(), v.env...)
			var se bytes.Buffer
			cmd.Stderr = &se
			out, err := cmd.Output()
			m := map[int]string{}
			km := map[string]string{}
			done := false
			for _, l := range strings.Split(string(out), "\n") {
				var rec struct {
					I    int
					K    string
					D    string
					Done bool
				}
				if json.Unmarshal([]byte(l), &rec) != nil {
					continue
				}
				if rec.Done {
					done = true
				} else if rec.K != "" {
					km[rec.K] = rec.D
				} else {
					m[rec.I] = rec.D
				}
			}
			kern[k] = km
			if err != nil || !done {
				c.Violate(ev.Case{Idx: k, Desc: "build " + v.name}, "child-died", map[string]string{"build": v.name}, fmt.Sprintf("%v; %s", err, trimTail(se.String(), 2500)), nil)
			}
			res[k] = m
		}(k, v)
	}
	wg.Wait()
	cases := c13Cases(c)
	for i, cc := range cases {
		ref, ok := res[0][i]
		if !ok {
			continue
		}
		cs := ev.Case{Idx: i, Desc: fmt.Sprintf("%+v", cc)}
		c.Distinct(fmt.Sprintf("%s|%s|%s|%s", cc.Kind, cc.Class, cc.Alpha, sizeBucket(cc.W, cc.H)))
		if strings.HasPrefix(ref, "PANIC:") {
			c.Violate(cs, "panic", map[string]string{"build": "portable"}, ref, nil)
		}
		for k := 1; k < len(vars); k++ {
			d, ok := res[k][i]
			if !ok {
				continue
			}
			c.Eval(1)
			if d != ref {
				what := "decode"
				if strings.HasPrefix(cc.Kind, "enc") || cc.Kind == "wide-alpha" {
					if strings.Split(d, " ")[0] != strings.Split(ref, " ")[0] {
						what = "encode"
					}
				}
				c.Violate(cs, "code-path-dependent", map[string]string{"build": vars[k].name, "what": what, "kind": cc.Kind},
					fmt.Sprintf("%s build: %q; portable build: %q", vars[k].name, d, ref), map[string]any{"case": cc, "index": i})
			}
		}
		if i%150 == 0 {
			smp := map[string]any{"case": cs.Desc, "digest_portable": ref, "digest_avx2": res[1][i], "digest_sse2": res[2][i]}
			if len(vars) > 3 {
				smp["digest_wasm"] = res[3][i]
			}
			c.Sample(smp)
		}
	}
	if len(vars) > 3 {
		c.Extra("cases_executed_by_the_js_wasm_build", len(res[3]))
		if len(res[3]) < 100 {
			c.Fatal("the js/wasm build returned %d case digests: observed nothing", len(res[3]))
		}
	}
	// kernel-level digests
	if len(kern[0]) < 50 {
		c.Fatal("the portable build printed %d kernel digests (overlay exerciser missing or crashed: %v)", len(kern[0]), kern[0])
	}
	nk := 0
	for name, ref := range kern[0] {
		nk++
		c.Distinct("kernel|" + name)
		for k := 1; k < len(vars); k++ {
			if vars[k].nokern {
				continue
			}
			d, ok := kern[k][name]
			c.Eval(1)
			if !ok || d != ref {
				c.Violate(ev.Case{Idx: 2000000 + nk, Desc: "kernel " + name}, "kernel-differs", map[string]string{"kernel": name, "build": vars[k].name},
					fmt.Sprintf("kernel %s: %s build digest %q, portable build %q (VERIF_KERN_DUMP=%s on cmd/kerndigest prints the vectors)", name, vars[k].name, d, ref, name), nil)
			}
		}
	}
	for k := 1; k < len(vars); k++ {
		for name := range kern[k] {
			if _, ok := kern[0][name]; !ok {
				c.Violate(ev.Case{Idx: 2999999, Desc: "kernel " + name}, "kernel-differs", map[string]string{"kernel": name, "build": vars[k].name}, "kernel line missing in the portable build", nil)
			}
		}
	}
	c.Extra("kernels_exercised", nk)
	c.Extra("kernel_vectors_per_kernel", c.N(20000, 400000))

	// (b) cross compilation
	gobin := os.Getenv("VERIF_GO")
	repo := os.Getenv("VERIF_REPO_DIR")
	if gobin == "" || repo == "" {
		c.Fatal("VERIF_GO / VERIF_REPO_DIR not set")
		return
	}
	targets := c13QuickTargets
	if c.Thorough() {
		if out, err := exec.Command(gobin, "tool", "dist", "list").Output(); err == nil {
			targets = strings.Fields(string(out))
		}
	}
	sem := make(chan struct{}, 8)
	var built, skipped int64
	var mu sync.Mutex
	for ti, t := range targets {
		wg.Add(1)
		go func(ti int, t string) {
			defer wg.Done()
			sem <- struct{}{}
			defer func() { <-sem }()
			p := strings.SplitN(t, "/", 2)
			cmd := exec.Command(gobin, "build", "./...")
			cmd.Dir = repo
			cmd.Env = append(os.Environ(), "GOOS="+p[0], "GOARCH="+p[1], "CGO_ENABLED=0", "GOFLAGS=-mod=mod")
			out, err := cmd.CombinedOutput()
			mu.Lock()
			defer mu.Unlock()
			if err != nil {
				s := string(out)
				if strings.Contains(s, "unsupported GOOS/GOARCH") || strings.Contains(s, "requires external (cgo) linking") || strings.Contains(s, "cmd/go: unsupported") {
					skipped++
					c.Count("targets_not_buildable_by_toolchain:"+t, 1)
					return
				}
				c.Violate(ev.Case{Idx: 1000000 + ti, Desc: "go build ./... for " + t}, "does-not-compile", map[string]string{"target": t}, trimTail2(s, 1500), nil)
				return
			}
			built++
			c.Eval(1)
			c.Distinct("target|" + t)
		}(ti, t)
	}
	wg.Wait()
	c.Extra("targets_built", built)
	c.Extra("targets_listed", len(targets))
	if c.Thorough() {
		c.SetExhaustive(false)
	}
}
