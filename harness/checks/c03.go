package checks

import (
	"bytes"
	"fmt"
	"sort"
	"strings"

	"verif/ev"
	"verif/gen/vp8l"
	"verif/img"
	"verif/lw"
	"verif/ximage"
)

func init() { Registry["C03"] = Check{Level: "exploration", Run: runC03} }

type c03Case struct {
	Kind string // synth, forced, big, lwenc
	P    vp8l.Params
	Sub  int
}

var c03Perms [][]int

func init() {
	// every sequence (any subset, any order) of the four transforms: 65 sequences
	var rec func(cur []int, used int)
	rec = func(cur []int, used int) {
		c03Perms = append(c03Perms, append([]int{}, cur...))
		for t := 0; t < 4; t++ {
			if used&(1<<t) == 0 {
				rec(append(cur, t), used|1<<t)
			}
		}
	}
	rec(nil, 0)
}

func runC03(c *ev.Ctx) {
	c.Rule = "webp.Decode vs libwebp 1.2.4 on (1) VP8L streams from an independent syntax-level synthesizer (any transform subset/order, tile bits, palettes 1..256 incl. " +
		"packing and out-of-range indices, cache bits 0..11, meta prefix images incl. sparse group indices, simple/single/normal/max_symbol/repeat-coded prefix codes, all 120 " +
		"plane codes, overlapping and row-crossing copies) and (2) files written by libwebp's lossless encoder over its option space; validity = libwebp accepts; " +
		"distinct = feature signature (transform sequence, packing, cache bits, meta bits, #groups bucket, code kinds present)"
	if err := lw.SelfTest(); err != nil {
		c.Fatal("libwebp oracle unavailable: %v", err)
		return
	}
	c.Assume("libwebp 1.2.4 is the definition of the pixels a valid VP8L stream denotes; a stream is valid iff libwebp accepts it")
	c.Assume("x/image (2019) is logged as a second opinion only (known to mis-assign codes for descending simple codes)")
	var cases []ev.Case
	add := func(cc c03Case) {
		cases = append(cases, ev.Case{Idx: len(cases), Desc: fmt.Sprintf("%s sub=%d %+v", cc.Kind, cc.Sub, cc.P), Data: cc})
	}
	nSynth := c.N(8000, 1200000)
	for i := 0; i < nSynth; i++ {
		add(c03Case{Kind: "synth", P: vp8l.DefaultParams(), Sub: i})
	}
	// every transform sequence x palette size class x cache/meta variation
	reps := c.N(2, 30)
	for rep := 0; rep < reps; rep++ {
		for pi, perm := range c03Perms {
			for _, ps := range []int{2, 4, 16, 200} {
				p := vp8l.DefaultParams()
				p.Transforms = perm
				if perm == nil {
					p.Transforms = []int{}
				}
				p.PaletteSize = ps
				add(c03Case{Kind: "forced", P: p, Sub: pi*10 + rep})
				hasPal := false
				for _, t := range perm {
					hasPal = hasPal || t == 3
				}
				if !hasPal {
					break
				}
			}
		}
	}
	// exact cache bits x meta bits grid
	for cb := 0; cb <= 11; cb++ {
		for _, mb := range []int{0, 2, 3, 5, 9} {
			p := vp8l.DefaultParams()
			p.CacheBits, p.MetaBits = cb, mb
			add(c03Case{Kind: "forced", P: p, Sub: cb*16 + mb})
		}
	}
	nBig := c.N(80, 20000)
	for i := 0; i < nBig; i++ {
		p := vp8l.DefaultParams()
		p.MaxSide = 200
		if i%10 == 0 && c.Thorough() {
			p.MaxSide = 512
		}
		add(c03Case{Kind: "big", P: p, Sub: i})
	}
	if c.Thorough() {
		for i := 0; i < 6; i++ {
			p := vp8l.DefaultParams()
			p.W, p.H = 16384, 1+i
			if i%2 == 1 {
				p.W, p.H = 1+i, 16384
			}
			add(c03Case{Kind: "big", P: p, Sub: 100000 + i})
		}
	}
	nLw := c.N(800, 100000)
	for i := 0; i < nLw; i++ {
		add(c03Case{Kind: "lwenc", Sub: i})
	}
	feat := &featAgg{m: map[string]int64{}}
	c.RunCases(cases, 0, func(cs ev.Case) { c03One(c, cs, feat) })
	c.Extra("feature_counts", feat.snapshot())
}

type featAgg struct {
	mu lockT
	m  map[string]int64
}

func (f *featAgg) add(k string, n int) {
	f.mu.Lock()
	f.m[k] += int64(n)
	f.mu.Unlock()
}

func (f *featAgg) snapshot() map[string]int64 {
	f.mu.Lock()
	defer f.mu.Unlock()
	out := map[string]int64{}
	for k, v := range f.m {
		out[k] = v
	}
	return out
}

func c03One(c *ev.Ctx, cs ev.Case, feat *featAgg) {
	cc := cs.Data.(c03Case)
	r := rng(c, cs.Idx)
	var file []byte
	var sig string
	switch cc.Kind {
	case "lwenc":
		w, h := 1+r.Intn(70), 1+r.Intn(70)
		if r.Intn(8) == 0 {
			w, h = 100+r.Intn(200), 100+r.Intn(150)
		}
		m := img.Gen(r, img.Pick(r, img.Classes), img.Pick(r, img.Alphas), w, h)
		cfg := lw.DefaultConfig()
		cfg.Lossless = 1
		cfg.Method = r.Intn(7)
		cfg.Quality = pickF(r, 0, 20, 50, 75, 90, 100)
		cfg.Exact = r.Intn(2)
		cfg.NearLossless = pickI(r, 100, 100, 100, 60, 0)
		cfg.ImageHint = r.Intn(4)
		var err error
		file, err = lw.Encode(img.Tight(m), w, h, cfg)
		if err != nil {
			c.Inconclusive("libwebp-encode-failed")
			return
		}
		p := riffChunks(file)["VP8L"]
		sig = fmt.Sprintf("lwenc|m%d|q%g|nl%d|%s|%s", cfg.Method, cfg.Quality, cfg.NearLossless, vp8lSig(p), sizeBucket(w, h))
		feat.add("lwenc_files", 1)
	default:
		payload, f := vp8l.Synthesize(r, cc.P)
		file = vp8l.WrapRIFF(payload)
		kinds := make([]string, 0, len(f.CodeKinds))
		for k := range f.CodeKinds {
			kinds = append(kinds, k)
			feat.add("codekind_"+k, f.CodeKinds[k])
		}
		sort.Strings(kinds)
		g := "1"
		switch {
		case f.Groups > 1000:
			g = ">1000"
		case f.Groups > 16:
			g = ">16"
		case f.Groups > 1:
			g = ">1"
		}
		sig = fmt.Sprintf("%s|pack%d|cb%d|mb%d|g%s|%s", strings.Join(f.Transforms, ","), f.PackBits, f.CacheBits, f.MetaBits, g, strings.Join(kinds, "+"))
		// coarser key for distinctness (drop tile bits / palette size detail)
		tseq := fmt.Sprint(f.TransformIDs)
		c.Distinct(fmt.Sprintf("%s|pack%d|cb%d|mb%d|g%s", tseq, f.PackBits, f.CacheBits, f.MetaBits, g))
		feat.add("tseq_"+tseq, 1)
		feat.add(fmt.Sprintf("cachebits_%d", f.CacheBits), 1)
		feat.add(fmt.Sprintf("metabits_%d", f.MetaBits), 1)
		feat.add(fmt.Sprintf("packbits_%d", f.PackBits), 1)
		for m, n := range f.PredModes {
			feat.add(fmt.Sprintf("predmode_%d", m), n)
		}
		pc := 0
		for k, n := range f.PlaneCodes {
			if n > 0 && k > 0 {
				pc++
			}
		}
		feat.add("groups_all_single_symbol_green_is_cache_index", f.TrivialCacheGroups)
		feat.add("backrefs", f.BackRefs)
		feat.add("cache_hits", f.CacheHits)
		feat.add("overlapping_copies", f.Overlaps)
		if f.MaxCodeLen == 15 {
			feat.add("streams_with_codelen15", 1)
		}
		if f.Groups > 1000 {
			feat.add("streams_with_gt1000_groups", 1)
		}
		_ = pc
	}
	if cc.Kind == "lwenc" {
		c.Distinct(sig)
	}
	want, w, h, err := lw.DecodeRGBA(file)
	if err != nil {
		c.Inconclusive("libwebp-rejects-" + cc.Kind)
		return
	}
	c.Eval(1)
	rep := func() any { return map[string]string{"file": b64(file), "sig": sig} }
	dec, derr, hung := decodeTimed(file)
	if hung {
		c.Violate(cs, "hang", map[string]string{"kind": cc.Kind}, "webp.Decode did not return within 60 s and again within 120 s on a stream libwebp decodes ["+sig+"]", rep())
		return
	}
	if derr == errAfterHang {
		c.Inconclusive("skipped-after-confirmed-hang")
		return
	}
	if derr != nil {
		c.Violate(cs, "valid-stream-rejected", map[string]string{"kind": cc.Kind}, fmt.Sprintf("libwebp decodes %dx%d, webp.Decode: %v [%s]", w, h, derr, sig), rep())
		return
	}
	if dec.Bounds().Dx() != w || dec.Bounds().Dy() != h {
		c.Violate(cs, "size-mismatch", map[string]string{"kind": cc.Kind}, fmt.Sprintf("libwebp %dx%d, Decode %v", w, h, dec.Bounds()), rep())
		return
	}
	got := img.Tight(toNRGBA(dec))
	if !bytes.Equal(got, want) {
		c.Violate(cs, "pixels-differ-from-reference", map[string]string{"kind": cc.Kind}, fmt.Sprintf("%s [%s]", firstPixelDiff(got, want, w), sig), rep())
	}
	// second opinion (never a verdict)
	if p, ok := riffChunks(file)["VP8L"]; ok && w*h <= 1<<16 {
		if xm, e := ximage.DecodeVP8L(p); e != nil {
			c.Count("ximage_rejects", 1)
		} else if !bytes.Equal(img.Tight(img.ToNRGBA(xm)), want) {
			c.Count("ximage_differs_from_libwebp", 1)
		} else {
			c.Count("ximage_agrees", 1)
		}
	}
	if cs.Idx%1500 == 0 {
		c.Sample(map[string]any{"kind": cc.Kind, "sig": sig, "w": w, "h": h, "bytes": len(file)})
	}
}
