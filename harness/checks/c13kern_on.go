//go:build verifkern

package checks

import webp "github.com/deepteams/webp"

// kernelDigests calls the kernel-level exerciser that the overlay builds inject into the library
// (overlay/*.go; never part of /repo): one "<kernel> <digest>" line per kernel.
func kernelDigests(seed int64, n int) []string { return webp.VerifKernelDigests(seed, n) }
