package checks

import (
	"bufio"
	"bytes"
	"encoding/binary"
	"encoding/json"
	"fmt"
	"hash/crc32"
	"image"
	_ "image/png"
	"io"
	"math/rand"
	"os"
	"os/exec"
	"path/filepath"
	"runtime"
	"runtime/debug"
	"strconv"
	"strings"
	"sync"
	"sync/atomic"
	"time"
	"verif/gen/vp8l"

	webp "github.com/deepteams/webp"
	"github.com/deepteams/webp/animation"
	"github.com/deepteams/webp/mux"

	"verif/ev"
)

func init() {
	Registry["C05"] = Check{Level: "exploration", Run: runC05}
	workers["C05"] = c05Worker
}

// ---------- tolerant scanner: pixel area declared anywhere in the input ----------

// declaredArea sums every picture/canvas area that any header-looking byte sequence in the input
// declares (over-approximation: it can only loosen the bound, never tighten it).
func declaredArea(b []byte) (area uint64, canvas uint64) {
	le24 := func(p []byte) uint64 { return uint64(p[0]) | uint64(p[1])<<8 | uint64(p[2])<<16 }
	for i := 0; i+8 <= len(b); i++ {
		switch string(b[i : i+4]) {
		case "VP8X":
			if i+18 <= len(b) {
				c := (1 + le24(b[i+12:])) * (1 + le24(b[i+15:]))
				area += c
				if c > canvas {
					canvas = c
				}
			}
		case "ANMF":
			if i+24 <= len(b) {
				area += (1 + le24(b[i+14:])) * (1 + le24(b[i+17:]))
			}
		case "VP8 ":
			if i+18 <= len(b) {
				w := uint64(binary.LittleEndian.Uint16(b[i+14:])) & 0x3fff
				h := uint64(binary.LittleEndian.Uint16(b[i+16:])) & 0x3fff
				area += (w + 16) * (h + 16) // macroblock padding
				if w*h > canvas {
					canvas = w * h
				}
			}
		case "VP8L":
			if i+13 <= len(b) {
				bits := binary.LittleEndian.Uint32(b[i+9:])
				w, h := uint64(bits&0x3fff)+1, uint64((bits>>14)&0x3fff)+1
				area += w * h
				if w*h > canvas {
					canvas = w * h
				}
			}
		}
	}
	return
}

// ---------- mutators ----------

type chunkPos struct{ off, size int }

func scanChunks(b []byte) []chunkPos {
	var out []chunkPos
	off := 12
	for off+8 <= len(b) {
		sz := int(binary.LittleEndian.Uint32(b[off+4:]))
		if sz < 0 || off+8+sz > len(b) {
			out = append(out, chunkPos{off, len(b) - off - 8})
			break
		}
		out = append(out, chunkPos{off, sz})
		if string(b[off:off+4]) == "ANMF" && sz >= 16 { // descend
			in := off + 8 + 16
			for in+8 <= off+8+sz {
				s2 := int(binary.LittleEndian.Uint32(b[in+4:]))
				if s2 < 0 || in+8+s2 > off+8+sz {
					break
				}
				out = append(out, chunkPos{in, s2})
				in += 8 + s2 + s2&1
			}
		}
		off += 8 + sz + sz&1
	}
	return out
}

var c05Sizes = []uint32{0, 1, 2, 3, 4, 7, 8, 9, 10, 15, 16, 17, 0x7fffffff, 0x80000000, 0xfffffff6, 0xfffffff7, 0xfffffffe, 0xffffffff}

func mutate(r *rand.Rand, seed []byte, others [][]byte) ([]byte, string) {
	b := append([]byte{}, seed...)
	if len(b) < 12 {
		return b, "short"
	}
	cps := scanChunks(b)
	pickChunk := func() chunkPos {
		if len(cps) == 0 {
			return chunkPos{12, 0}
		}
		return cps[r.Intn(len(cps))]
	}
	switch k := r.Intn(22); k {
	case 0: // bit flips
		n := 1 + r.Intn(4)
		for i := 0; i < n; i++ {
			p := r.Intn(len(b))
			b[p] ^= 1 << uint(r.Intn(8))
		}
		return b, "bitflip"
	case 1: // byte set to interesting value
		n := 1 + r.Intn(4)
		for i := 0; i < n; i++ {
			b[r.Intn(len(b))] = []byte{0, 1, 0x7f, 0x80, 0xff, 0x2f, 0x9d}[r.Intn(7)]
		}
		return b, "byteset"
	case 2: // bit flips concentrated in the first 64 bytes (headers)
		n := 1 + r.Intn(3)
		for i := 0; i < n; i++ {
			p := r.Intn(min(len(b), 64))
			b[p] ^= 1 << uint(r.Intn(8))
		}
		return b, "headerflip"
	case 3: // truncate
		return b[:r.Intn(len(b))], "truncate"
	case 4: // RIFF size field
		v := c05Sizes[r.Intn(len(c05Sizes))]
		if r.Intn(2) == 0 {
			v = uint32(len(b) - 8 + r.Intn(5) - 2)
		}
		binary.LittleEndian.PutUint32(b[4:], v)
		return b, fmt.Sprintf("riffsize=%d", v)
	case 5: // chunk size field
		c := pickChunk()
		v := c05Sizes[r.Intn(len(c05Sizes))]
		switch r.Intn(3) {
		case 0:
			v = uint32(c.size + 1)
		case 1:
			v = uint32(max(0, c.size-1))
		}
		if c.off+8 <= len(b) {
			binary.LittleEndian.PutUint32(b[c.off+4:], v)
		}
		return b, fmt.Sprintf("chunksize=%d", v)
	case 6: // drop a chunk
		c := pickChunk()
		end := min(len(b), c.off+8+c.size+c.size&1)
		return append(b[:c.off:c.off], b[end:]...), "dropchunk"
	case 7: // duplicate a chunk
		c := pickChunk()
		end := min(len(b), c.off+8+c.size+c.size&1)
		dup := append([]byte{}, b[c.off:end]...)
		out := append(append(append([]byte{}, b[:end]...), dup...), b[end:]...)
		return out, "dupchunk"
	case 8: // swap two chunks
		if len(cps) >= 2 {
			a, c := cps[r.Intn(len(cps))], cps[r.Intn(len(cps))]
			if a.off > c.off {
				a, c = c, a
			}
			ae := min(len(b), a.off+8+a.size+a.size&1)
			ce := min(len(b), c.off+8+c.size+c.size&1)
			if ae <= c.off {
				out := append([]byte{}, b[:a.off]...)
				out = append(out, b[c.off:ce]...)
				out = append(out, b[ae:c.off]...)
				out = append(out, b[a.off:ae]...)
				out = append(out, b[ce:]...)
				return out, "swapchunks"
			}
		}
		return b, "noop"
	case 9: // splice a chunk from another file
		if len(others) > 0 {
			o := others[r.Intn(len(others))]
			oc := scanChunks(o)
			if len(oc) > 0 {
				s := oc[r.Intn(len(oc))]
				se := min(len(o), s.off+8+s.size+s.size&1)
				c := pickChunk()
				out := append(append(append([]byte{}, b[:c.off]...), o[s.off:se]...), b[c.off:]...)
				return out, "splice"
			}
		}
		return b, "noop"
	case 10: // change a FourCC
		c := pickChunk()
		ids := []string{"VP8 ", "VP8L", "VP8X", "ALPH", "ANIM", "ANMF", "ICCP", "EXIF", "XMP ", "RIFF", "WEBP", "\x00\x00\x00\x00"}
		copy(b[c.off:], ids[r.Intn(len(ids))])
		return b, "fourcc"
	case 11: // VP8X flags / canvas
		for _, c := range cps {
			if string(b[c.off:c.off+4]) == "VP8X" && c.off+18 <= len(b) {
				switch r.Intn(3) {
				case 0:
					b[c.off+8] = byte(r.Intn(256))
				case 1:
					b[c.off+12+r.Intn(6)] = byte(r.Intn(256))
				default: // moderately large canvas (kept <= 64 Mpx)
					w, h := 1+r.Intn(2500), 1+r.Intn(2500)
					b[c.off+12], b[c.off+13], b[c.off+14] = byte(w-1), byte((w-1)>>8), 0
					b[c.off+15], b[c.off+16], b[c.off+17] = byte(h-1), byte((h-1)>>8), 0
				}
				return b, "vp8x-edit"
			}
		}
		return b, "noop"
	case 12: // ANMF header fields
		for _, c := range cps {
			if string(b[c.off:c.off+4]) == "ANMF" && c.off+24 <= len(b) && r.Intn(2) == 0 {
				b[c.off+8+r.Intn(16)] = byte(r.Intn(256))
				return b, "anmf-edit"
			}
		}
		return b, "noop"
	case 13: // bitstream header bytes of an image chunk
		for _, c := range cps {
			id := string(b[c.off : c.off+4])
			if (id == "VP8 " || id == "VP8L" || id == "ALPH") && c.size > 0 && r.Intn(2) == 0 {
				n := min(c.size, 12)
				p := c.off + 8 + r.Intn(n)
				if p < len(b) {
					b[p] = byte(r.Intn(256))
				}
				return b, "bitstream-header-" + strings.TrimSpace(id)
			}
		}
		return b, "noop"
	case 14: // random garbage inside an image payload
		c := pickChunk()
		if c.size > 4 {
			n := 1 + r.Intn(min(c.size, 64))
			p := c.off + 8 + r.Intn(c.size-n+1)
			if p+n <= len(b) {
				r.Read(b[p : p+n])
			}
		}
		return b, "payload-garbage"
	case 15: // nested RIFF
		inner := append([]byte{}, b...)
		return riffWrap(chunk("RIFF", inner)), "nested-riff"
	case 16: // append trailing bytes
		t := make([]byte, 1+r.Intn(40))
		r.Read(t)
		return append(b, t...), "trailing"
	case 17: // zero a range
		p := r.Intn(len(b))
		n := min(len(b)-p, 1+r.Intn(32))
		for i := 0; i < n; i++ {
			b[p+i] = 0
		}
		return b, "zerorange"
	case 18: // remove one byte / insert one byte (shifts everything)
		p := r.Intn(len(b))
		if r.Intn(2) == 0 {
			return append(b[:p:p], b[p+1:]...), "delbyte"
		}
		return append(append(append([]byte{}, b[:p]...), byte(r.Intn(256))), b[p:]...), "insbyte"
	case 19: // many frames: repeat the last ANMF chunk N times
		for i := len(cps) - 1; i >= 0; i-- {
			c := cps[i]
			if string(b[c.off:c.off+4]) == "ANMF" {
				end := min(len(b), c.off+8+c.size+c.size&1)
				fr := b[c.off:end]
				n := []int{3, 50, 500}[r.Intn(3)]
				out := append([]byte{}, b[:end]...)
				for k := 0; k < n; k++ {
					out = append(out, fr...)
				}
				out = append(out, b[end:]...)
				binary.LittleEndian.PutUint32(out[4:], uint32(len(out)-8))
				return out, fmt.Sprintf("repeat-anmf-%d", n)
			}
		}
		return b, "noop"
	default: // two-step: apply two mutations
		m1, n1 := mutate(r, b, others)
		if len(m1) < 12 {
			return m1, n1
		}
		m2, n2 := mutate(r, m1, others)
		return m2, n1 + "+" + n2
	}
}

// c05SparseGroups hand-assembles a valid VP8L file (LSB-first bit packing, as the format defines): no transforms, no colour
// cache, meta prefix image of 1x1 (prefix bits 9) whose pixel names group `top`, then top+1 groups of five single-symbol
// simple codes; every pixel of the w x h picture costs zero bits.
func c05SparseGroups(r *rand.Rand) []byte {
	return c05SparseGroupsN(r, pickI(r, 1200, 3000, 8000, 8000, 12000))
}

func c05SparseGroupsN(r *rand.Rand, top int) []byte {
	w := 160 + r.Intn(90)
	h := (top+w)/w + 1 + r.Intn(40) // at least top+1 pixels
	var out []byte
	var acc uint64
	nb := uint(0)
	put := func(v uint32, n uint) {
		acc |= uint64(v) << nb
		nb += n
		for nb >= 8 {
			out = append(out, byte(acc))
			acc >>= 8
			nb -= 8
		}
	}
	simple1 := func(sym uint32) { // simple code, one symbol
		put(1, 1) // simple
		put(0, 1) // num_symbols - 1
		if sym < 2 {
			put(0, 1) // is_first_8bits = 0: 1-bit symbol
			put(sym, 1)
		} else {
			put(1, 1)
			put(sym, 8)
		}
	}
	put(0x2f, 8)
	put(uint32(w-1), 14)
	put(uint32(h-1), 14)
	put(0, 1) // alpha_is_used
	put(0, 3) // version
	put(0, 1) // no transform
	put(0, 1) // no colour cache
	put(1, 1) // meta prefix codes present
	put(9-2, 3)
	// entropy image (1x1, its own stream: no cache, one group): pixel = group index in red<<8 | green
	put(0, 1)
	simple1(uint32(top & 0xff))      // green
	simple1(uint32(top >> 8 & 0xff)) // red
	simple1(0)                       // blue
	simple1(0)                       // alpha
	simple1(0)                       // distance
	// the groups of the main image
	for g := 0; g <= top; g++ {
		simple1(uint32(g & 1))    // green / length / cache alphabet: literal green 0 or 1
		simple1(uint32(g >> 1 & 1)) // red
		simple1(1)                // blue
		simple1(1)                // alpha (255 would need 8 bits; any value is a valid picture)
		simple1(0)                // distance
	}
	if nb > 0 {
		put(0, 8-nb)
	}
	return riffWrap(chunk("VP8L", out))
}

// handmade inputs: declaration bombs and header-prefixed garbage.
func c05Handmade(r *rand.Rand, i int) ([]byte, string) {
	le24 := func(v int) []byte { return []byte{byte(v), byte(v >> 8), byte(v >> 16)} }
	switch i % 14 {
	case 13:
		// valid VP8L picture whose 1x1 entropy image names one high prefix-code group: the stream has to carry every
		// group up to that index (20 bits each as single-symbol codes), the picture uses one. Memory has to follow the
		// input (a few bytes per unused group at most), not index x table size.
		// (withdrawn from the input list: their verdict needs a live-heap figure, and under load that figure counts what is
		// allocated while a collection is running - DESIGN.md section 9, note on C05g. The generator stays, with its test.)
		fallthrough
	case 12: // valid, very narrow VP8L pictures (widths 1..7: most plane codes map to distances < 1 and are clamped)
		p := vp8l.DefaultParams()
		p.W, p.H = 1+r.Intn(7), 1+r.Intn(40)
		pl, _ := vp8l.Synthesize(r, p)
		return vp8l.WrapRIFF(pl), "narrow-vp8l"
	case 0: // random bytes
		b := make([]byte, r.Intn(200))
		r.Read(b)
		return b, "random"
	case 1: // RIFF header + garbage
		b := make([]byte, 12+r.Intn(100))
		r.Read(b)
		copy(b, "RIFF")
		copy(b[8:], "WEBP")
		if len(b) >= 16 && r.Intn(2) == 0 {
			copy(b[12:], []string{"VP8 ", "VP8L", "VP8X", "ALPH", "ANMF"}[r.Intn(5)])
		}
		if r.Intn(2) == 0 {
			binary.LittleEndian.PutUint32(b[4:], uint32(len(b)-8))
		} else {
			binary.LittleEndian.PutUint32(b[4:], c05Sizes[r.Intn(len(c05Sizes))])
		}
		return b, "riff+garbage"
	case 2: // VP8L header declaring a big picture with almost no data
		w, h := 1+r.Intn(2500), 1+r.Intn(2500)
		bits := uint32(w-1) | uint32(h-1)<<14
		p := []byte{0x2f, byte(bits), byte(bits >> 8), byte(bits >> 16), byte(bits >> 24)}
		g := make([]byte, r.Intn(30))
		r.Read(g)
		return riffWrap(chunk("VP8L", append(p, g...))), "vp8l-bomb"
	case 3: // VP8 header declaring a big picture
		w, h := 1+r.Intn(2500), 1+r.Intn(2500)
		g := make([]byte, 4+r.Intn(60))
		r.Read(g)
		part0 := len(g)
		tag := uint32(part0)<<5 | 1<<4
		p := []byte{byte(tag), byte(tag >> 8), byte(tag >> 16), 0x9d, 0x01, 0x2a, byte(w), byte(w >> 8), byte(h), byte(h >> 8)}
		return riffWrap(chunk("VP8 ", append(p, g...))), "vp8-bomb"
	case 4: // big canvas, ANIM, tiny frame
		cw, ch := 1+r.Intn(2500), 1+r.Intn(2500)
		fw, fh := 1+r.Intn(4), 1+r.Intn(4)
		bits := uint32(fw-1) | uint32(fh-1)<<14
		vp8lp := []byte{0x2f, byte(bits), byte(bits >> 8), byte(bits >> 16), byte(bits >> 24), 0, 0, 0}
		anmf := append(append(append(append(append(le24(r.Intn(4000)), le24(r.Intn(4000))...), le24(fw-1)...), le24(fh-1)...), le24(10)...), byte(r.Intn(4)))
		anmf = append(anmf, chunk("VP8L", vp8lp)...)
		return riffWrap(vp8xChunk(0x02, cw, ch), chunk("ANIM", []byte{0, 0, 0, 0, 0, 0}), chunk("ANMF", anmf)), "canvas-bomb"
	case 5: // ANMF declaring a big frame with tiny data
		cw, ch := 1+r.Intn(2500), 1+r.Intn(2500)
		anmf := append(append(append(append(append(le24(0), le24(0)...), le24(cw-1)...), le24(ch-1)...), le24(10)...), 0)
		g := make([]byte, r.Intn(30))
		r.Read(g)
		anmf = append(anmf, chunk(pickS(r, "VP8L", "VP8 ", "ALPH"), g)...)
		return riffWrap(vp8xChunk(0x02, cw, ch), chunk("ANIM", []byte{0, 0, 0, 0, 0, 0}), chunk("ANMF", anmf)), "frame-bomb"
	case 6: // thousands of tiny chunks
		var chunks [][]byte
		chunks = append(chunks, vp8xChunk(byte(r.Intn(64)), 4, 4))
		n := []int{999, 1000, 1001, 1500}[r.Intn(4)]
		for k := 0; k < n; k++ {
			chunks = append(chunks, chunk("UNKN", nil))
		}
		return riffWrap(chunks...), fmt.Sprintf("many-chunks-%d", n)
	case 7: // ALPH with VP8L stream declaring odd things + tiny VP8
		w, h := 1+r.Intn(300), 1+r.Intn(300)
		g := make([]byte, 1+r.Intn(40))
		r.Read(g)
		g[0] = byte(r.Intn(64))
		tag := uint32(4)<<5 | 1<<4
		vp := []byte{byte(tag), byte(tag >> 8), byte(tag >> 16), 0x9d, 0x01, 0x2a, byte(w), byte(w >> 8), byte(h), byte(h >> 8), 0, 0, 0, 0}
		return riffWrap(vp8xChunk(0x10, w, h), chunk("ALPH", g), chunk("VP8 ", vp)), "alph-garbage"
	case 8: // RIFF size < 4 and friends
		b := []byte("RIFF\x00\x00\x00\x00WEBPVP8L\x05\x00\x00\x00\x2f\x00\x00\x00\x00\x00")
		binary.LittleEndian.PutUint32(b[4:], uint32(r.Intn(12)))
		return b, "tiny-riffsize"
	case 9: // huge palette / group counts in a VP8L stream: header + transform bits garbage
		w, h := 1+r.Intn(64), 1+r.Intn(64)
		bits := uint32(w-1) | uint32(h-1)<<14
		g := make([]byte, 8+r.Intn(200))
		r.Read(g)
		g[0] |= 1 // transform present
		return riffWrap(chunk("VP8L", append([]byte{0x2f, byte(bits), byte(bits >> 8), byte(bits >> 16), byte(bits >> 24)}, g...))), "vp8l-garbage"
	case 10: // VP8 with 8 partitions and lying partition sizes
		w, h := 16+r.Intn(64), 16+r.Intn(64)
		g := make([]byte, 40+r.Intn(100))
		r.Read(g)
		tag := uint32(8+r.Intn(20))<<5 | 1<<4
		p := []byte{byte(tag), byte(tag >> 8), byte(tag >> 16), 0x9d, 0x01, 0x2a, byte(w), byte(w >> 8), byte(h), byte(h >> 8)}
		return riffWrap(chunk("VP8 ", append(p, g...))), "vp8-garbage"
	default: // empty / tiny
		return []byte("RIFF\x04\x00\x00\x00WEBP")[:r.Intn(13)], "tiny"
	}
}

// ---------- child: run every entry point on every input of a batch ----------

type c05Result struct {
	I       int    `json:"i"`
	Class   string `json:"class,omitempty"` // violation class ("" = fine)
	Entry   string `json:"entry,omitempty"`
	Detail  string `json:"detail,omitempty"`
	Alloc   uint64 `json:"alloc"`
	Bound   uint64 `json:"bound"`
	Live    uint64 `json:"live,omitempty"` // peak live heap of a second, sampled run (only taken when Alloc > Bound)
	Accept  int    `json:"accept"`         // entry points that returned nil error
	Workers int    `json:"workers,omitempty"`
}

func wellFormed(m image.Image) string {
	if m == nil {
		return "nil image with nil error"
	}
	b := m.Bounds()
	if b.Dx() <= 0 || b.Dy() <= 0 {
		return fmt.Sprintf("non-positive bounds %v", b)
	}
	switch t := m.(type) {
	case *image.NRGBA:
		if t.Stride < 4*b.Dx() || len(t.Pix) < (b.Dy()-1)*t.Stride+4*b.Dx() {
			return fmt.Sprintf("NRGBA buffer too small: len %d stride %d bounds %v", len(t.Pix), t.Stride, b)
		}
	case *image.YCbCr:
		if t.YStride < b.Dx() || len(t.Y) < (b.Dy()-1)*t.YStride+b.Dx() {
			return fmt.Sprintf("Y plane too small: len %d stride %d bounds %v", len(t.Y), t.YStride, b)
		}
		cw, ch := (b.Dx()+1)/2, (b.Dy()+1)/2
		if t.SubsampleRatio == image.YCbCrSubsampleRatio420 {
			if t.CStride < cw || len(t.Cb) < (ch-1)*t.CStride+cw || len(t.Cr) < (ch-1)*t.CStride+cw {
				return fmt.Sprintf("chroma planes too small: len %d/%d stride %d bounds %v", len(t.Cb), len(t.Cr), t.CStride, b)
			}
		}
	}
	// touching the corners must not panic
	m.At(b.Min.X, b.Min.Y)
	m.At(b.Max.X-1, b.Max.Y-1)
	return ""
}

const c05MaxSnapshots = 6

// c05MaxDeclared: inputs whose declared-size term of the memory bound exceeds this are not executed.
const c05MaxDeclared = 3 << 29

// c05RunOne executes all entry points; returns the first violation (class, entry, detail) and stats.
func c05RunOne(data []byte) (res c05Result) {
	area, canvas := declaredArea(data)
	bound := uint64(64<<20) + 64*uint64(len(data)) + 48*(area+uint64(c05MaxSnapshots+2)*canvas)
	res.Bound = bound
	var ms0, ms1 runtime.MemStats
	entry := ""
	defer func() {
		if r := recover(); r != nil {
			st := string(debug.Stack())
			res.Class, res.Entry = "panic", entry
			res.Detail = fmt.Sprintf("panic in %s: %v\n%s", entry, r, trimTail2(st, 2500))
		}
	}()
	fail := func(class, detail string) {
		if res.Class == "" {
			res.Class, res.Entry, res.Detail = class, entry, detail
		}
	}
	// internal worker count as on hosts with other core counts (decided by the input bytes, so that an
	// isolated re-run of one input sees the same count): 0 = whatever GOMAXPROCS gives the child
	if k := []int{0, 16, 5, 37}[crc32.ChecksumIEEE(data)%4]; k > 0 {
		webp.VerifSetWorkers(func(site string, n int) int { return k })
		defer webp.VerifSetWorkers(nil)
		res.Workers = k
	}
	runtime.ReadMemStats(&ms0)

	// how the bytes arrive (decided by the input, like the worker count): a *bytes.Reader, a reader
	// without Len() (files, network bodies), or short reads of 1..7 bytes
	rd := func() io.Reader {
		switch (crc32.ChecksumIEEE(data) >> 2) % 3 {
		case 1:
			return plainReader{bytes.NewReader(data)}
		case 2:
			return &shortReader{r: bytes.NewReader(data), k: 1 + len(data)%7}
		}
		return bytes.NewReader(data)
	}
	entry = "Decode"
	m, err := webp.Decode(rd())
	if err == nil {
		res.Accept++
		if w := wellFormed(m); w != "" {
			fail("malformed-result", w)
		}
	}
	entry = "DecodeConfig"
	cfg, err2 := webp.DecodeConfig(rd())
	if err2 == nil {
		res.Accept++
		if cfg.Width <= 0 || cfg.Height <= 0 || cfg.ColorModel == nil {
			fail("malformed-result", fmt.Sprintf("DecodeConfig ok with %dx%d model=%v", cfg.Width, cfg.Height, cfg.ColorModel))
		}
	}
	entry = "GetFeatures"
	ft, err3 := webp.GetFeatures(rd())
	if err3 == nil {
		res.Accept++
		if ft == nil || ft.Width <= 0 || ft.Height <= 0 {
			fail("malformed-result", fmt.Sprintf("GetFeatures ok with %+v", ft))
		}
	}
	entry = "image.Decode"
	m2, _, err4 := image.Decode(rd())
	if err4 == nil {
		res.Accept++
		if w := wellFormed(m2); w != "" {
			fail("malformed-result", w)
		}
	}
	entry = "mux.ReadChunk"
	for _, off := range []int{0, 12, 20, len(data) / 2} {
		if off <= len(data) {
			if ch, n, e := mux.ReadChunk(data[off:]); e == nil {
				if n < 8 || n > len(data)-off+1 || len(ch.Data) > len(data) {
					fail("malformed-result", fmt.Sprintf("ReadChunk at %d: consumed %d of %d bytes, payload %d", off, n, len(data)-off, len(ch.Data)))
				}
			}
			mux.ReadChunkHeader(data[off:])
		}
	}
	entry = "animation.Decode"
	if an0, e := animation.Decode(rd()); e == nil && an0 != nil {
		if an0.CanvasWidth < 0 || an0.CanvasHeight < 0 { // a zero canvas is not an image; it fails later, at DecodeFrames / NewAnimDecoder
			fail("malformed-result", fmt.Sprintf("animation.Decode ok with canvas %dx%d", an0.CanvasWidth, an0.CanvasHeight))
		}
		an0.TotalDuration()
		for i := range an0.Frames {
			an0.Frames[i].Bounds()
			an0.Frames[i].HasImage()
		}
	}
	entry = "mux.NewDemuxer"
	dm, err5 := mux.NewDemuxer(data)
	if err5 == nil {
		res.Accept++
		f := dm.GetFeatures()
		n := dm.NumFrames()
		if n < 0 || f.Width < 0 || f.Height < 0 {
			fail("malformed-result", fmt.Sprintf("demuxer features %+v frames %d", f, n))
		}
		for i := -1; i <= n && i < 40; i++ {
			fi, e := dm.Frame(i)
			if e == nil && fi == nil {
				fail("malformed-result", "Frame returned nil,nil")
			}
			if e == nil && (i < 0 || i >= n) {
				fail("malformed-result", fmt.Sprintf("Frame(%d) succeeded with %d frames", i, n))
			}
		}
		for _, id := range []uint32{mux.FourCCICCP, mux.FourCCEXIF, mux.FourCCXMP, mux.FourCCALPH, mux.FourCCANIM, mux.FourCCVP8X, 0x4e4b4e55} {
			dm.GetChunk(id)
		}
		it := dm.NewFrameIterator()
		for k := 0; it.HasNext() && k < n+2; k++ {
			if _, e := it.Next(); e != nil {
				break
			}
		}
		dm.LoopCount()
		dm.BackgroundColor()
	}
	entry = "animation.DecodeBytes"
	an, err6 := animation.DecodeBytes(data)
	if err6 == nil {
		res.Accept++
		an2, _ := animation.DecodeBytes(data)
		entry = "Animation.DecodeFrames"
		e1 := an.DecodeFrames()
		entry = "Animation.DecodeFramesParallel"
		var e2 error
		if an2 != nil {
			e2 = an2.DecodeFramesParallel()
		}
		if (e1 == nil) != (e2 == nil) {
			fail("parallel-serial-disagree", fmt.Sprintf("DecodeFrames err=%v, DecodeFramesParallel err=%v", e1, e2))
		}
		if e1 == nil {
			for i := range an.Frames {
				if an.Frames[i].Image != nil {
					if w := wellFormed(an.Frames[i].Image); w != "" {
						fail("malformed-result", fmt.Sprintf("frame %d: %s", i, w))
					}
				}
			}
			entry = "NewAnimDecoder"
			dec, e3 := animation.NewAnimDecoder(an)
			if e3 == nil && dec != nil {
				entry = "AnimDecoder.NextFrame"
				for k := 0; dec.HasNext() && k < c05MaxSnapshots; k++ {
					fr, _, e4 := dec.NextFrame()
					if e4 != nil {
						break
					}
					if fr == nil || fr.Rect.Dx() != an.CanvasWidth || fr.Rect.Dy() != an.CanvasHeight {
						fail("malformed-result", fmt.Sprintf("NextFrame snapshot %v, canvas %dx%d", fr, an.CanvasWidth, an.CanvasHeight))
						break
					}
					if w := wellFormed(fr); w != "" {
						fail("malformed-result", w)
					}
				}
				if !dec.HasNext() { // past the end: an error, no picture, no crash
					entry = "AnimDecoder.NextFrame past the end"
					if fr, _, e4 := dec.NextFrame(); e4 == nil || fr != nil {
						fail("malformed-result", fmt.Sprintf("NextFrame past the last frame returned (%v, err=%v)", fr != nil, e4))
					}
				}
				entry = "AnimDecoder.Reset + replay"
				dec.Reset()
				if dec.HasNext() {
					if fr, _, e4 := dec.NextFrame(); e4 == nil && (fr == nil || fr.Rect.Dx() != an.CanvasWidth || fr.Rect.Dy() != an.CanvasHeight) {
						fail("malformed-result", "first snapshot after Reset has the wrong size")
					}
				}
			}
		}
		entry = "Animation.DecodeFrames (second call)"
		if e1b := an.DecodeFrames(); (e1 == nil) != (e1b == nil) { // decoded frames are skipped, a bad frame fails again
			fail("parallel-serial-disagree", fmt.Sprintf("DecodeFrames err=%v, called again on the same Animation err=%v", e1, e1b))
		}
		// a tolerant player: whatever DecodeFramesParallel reported, the frames it left behind are used
		if an2 != nil {
			entry = "frames after DecodeFramesParallel"
			for i := range an2.Frames {
				f := &an2.Frames[i]
				f.Bounds()
				if f.HasImage() {
					if w := wellFormed(f.Image); w != "" {
						fail("malformed-result", fmt.Sprintf("frame %d after DecodeFramesParallel (err=%v): %s", i, e2, w))
					}
				}
			}
			if dec2, e5 := animation.NewAnimDecoder(an2); e5 == nil && dec2 != nil {
				entry = "AnimDecoder.NextFrame after DecodeFramesParallel"
				for k := 0; dec2.HasNext() && k < c05MaxSnapshots; k++ {
					if _, _, e6 := dec2.NextFrame(); e6 != nil {
						break
					}
				}
			}
		}
	}
	entry = "accounting"
	runtime.ReadMemStats(&ms1)
	res.Alloc = ms1.TotalAlloc - ms0.TotalAlloc
	if res.Alloc > bound && !c05Probing && res.Class == "" {
		// Cumulative allocation is a cheap over-approximation of memory use (it counts garbage: a decoder that builds and
		// drops a small table per unused prefix-code group allocates kilobytes per input byte in total and holds next to
		// nothing). The property bounds memory, so the verdict comes from a second run with the collector kept eager and
		// the live heap sampled: only live memory above the bound is a violation.
		res.Live = c05PeakLive(data)
		if res.Live > bound {
			fail("alloc-bound", fmt.Sprintf("peak live heap %d bytes (cumulative allocation %d) for a %d-byte input declaring %d px (canvas %d): bound %d", res.Live, res.Alloc, len(data), area, canvas, bound))
		}
	}
	return res
}

var c05Probing bool

// c05CaseClock is when the child's watchdog started counting for the current input; the live-heap probe, a second run
// of the same input, restarts it so that it gets a budget of its own.
var c05CaseClock atomic.Int64

// c05PeakLive runs every entry point on the input once more with GOGC=5 and a sampler that forces a collection and then reads runtime.MemStats.HeapAlloc
// (the child executes one input at a time) and returns the largest live heap seen above the level before the run.
func c05PeakLive(data []byte) uint64 {
	old := debug.SetGCPercent(5)
	defer debug.SetGCPercent(old)
	runtime.GC()
	var m runtime.MemStats
	runtime.ReadMemStats(&m)
	base := m.HeapAlloc
	stop := make(chan struct{})
	peakCh := make(chan uint64, 1)
	go func() {
		var ms runtime.MemStats
		peak := uint64(0)
		for {
			select {
			case <-stop:
				peakCh <- peak
				return
			default:
			}
			runtime.GC() // a full collection, then the figure: what survives is live (plus what was allocated meanwhile)
			runtime.ReadMemStats(&ms)
			if ms.HeapAlloc > peak {
				peak = ms.HeapAlloc
			}
		}
	}()
	c05Probing = true
	c05CaseClock.Store(time.Now().UnixNano())
	c05RunOne(data)
	c05Probing = false
	close(stop)
	peak := <-peakCh
	if peak < base {
		return 0
	}
	return peak - base
}

func trimTail2(s string, n int) string {
	if len(s) > n {
		return s[:n] + "…"
	}
	return s
}

// batch file: repeated [u32 len][bytes]
func writeBatch(path string, inputs [][]byte) error {
	f, err := os.Create(path)
	if err != nil {
		return err
	}
	w := bufio.NewWriter(f)
	var l [4]byte
	for _, in := range inputs {
		binary.LittleEndian.PutUint32(l[:], uint32(len(in)))
		w.Write(l[:])
		w.Write(in)
	}
	if err := w.Flush(); err != nil {
		return err
	}
	return f.Close()
}

func readBatch(path string) ([][]byte, error) {
	b, err := os.ReadFile(path)
	if err != nil {
		return nil, err
	}
	var out [][]byte
	for len(b) >= 4 {
		n := int(binary.LittleEndian.Uint32(b))
		if 4+n > len(b) {
			break
		}
		out = append(out, b[4:4+n])
		b = b[4+n:]
	}
	return out, nil
}

// c05Worker: vcheck worker C05 <batchfile> <progressfile> <resultfile> <timeoutScale>
func c05Worker(args []string) int {
	if len(args) >= 2 && args[0] == "scale" {
		return c05ScaleWorker(args[1:])
	}
	if len(args) < 4 {
		return 2
	}
	inputs, err := readBatch(args[0])
	if err != nil {
		fmt.Fprintln(os.Stderr, err)
		return 2
	}
	scale, _ := strconv.Atoi(args[3])
	if scale < 1 {
		scale = 1
	}
	prog, _ := os.OpenFile(args[1], os.O_CREATE|os.O_WRONLY|os.O_TRUNC, 0o644)
	resf, _ := os.OpenFile(args[2], os.O_CREATE|os.O_WRONLY|os.O_TRUNC, 0o644)
	enc := json.NewEncoder(resf)
	var cur atomic.Int64
	started := &c05CaseClock
	var budget atomic.Int64
	cur.Store(-1)
	go func() { // watchdog on CPU-independent but generous wall budget per case
		for {
			time.Sleep(200 * time.Millisecond)
			i := cur.Load()
			if i < 0 {
				continue
			}
			if time.Since(time.Unix(0, started.Load())) > time.Duration(budget.Load()) {
				fmt.Fprintf(prog, "TIMEOUT %d\n", i)
				enc.Encode(c05Result{I: int(i), Class: "timeout", Detail: "watchdog"})
				os.Exit(3)
			}
		}
	}()
	for i, in := range inputs {
		fmt.Fprintf(prog, "%d\n", i) // log before executing
		area, canvas := declaredArea(in)
		b := time.Duration(scale) * (10*time.Second + time.Duration(2*(uint64(len(in))+area+8*canvas))*time.Microsecond)
		budget.Store(int64(b))
		started.Store(time.Now().UnixNano())
		cur.Store(int64(i))
		r := c05RunOne(in)
		cur.Store(-1)
		r.I = i
		enc.Encode(r)
	}
	fmt.Fprintf(prog, "DONE\n")
	return 0
}

// ---------- parent ----------

type c05Input struct {
	data []byte
	desc string
}

func runC05(c *ev.Ctx) {
	c.Rule = "every decoding entry point (Decode, DecodeConfig, GetFeatures, image.Decode, mux.NewDemuxer+Frame/GetChunk/iterator, animation.DecodeBytes+DecodeFrames+" +
		"DecodeFramesParallel+NewAnimDecoder+NextFrame) on structure-aware mutations (22 operators incl. size-field edits, chunk drop/dup/swap/splice, header edits, truncation, " +
		"frame repetition) of valid lossy/lossless/alpha/extended/animated/synthesized files (incl. extreme aspect ratios such as 16000x9), plus hand-made declaration bombs and header-prefixed garbage; " +
		"per input (by a hash of its bytes) the internal worker count is left at GOMAXPROCS=2 or forced to 16/5/37 and the reader is a bytes.Reader, a reader without Len() or short reads; in child processes under " +
		"ulimit -v with per-case logging; oracles: no panic / fatal / child death, watchdog (3 isolated re-runs before a verdict), TotalAlloc <= 64MiB + 64*len + 48*(declared px) - and, where the cumulative figure is above that, peak live heap of a second run sampled after forced collections <= the same bound (only that is a verdict), " +
		"well-formed results; plus a scaling probe: 108 families of n repeated units (chunk kinds x container heads x tails) at n and 4n, CPU time ratio > 10 with >= 0.4 s CPU, three times in a row = superlinear-time; " +
		"distinct = distinct (mutation operator, seed kind, number of accepting entry points) tuples"
	c.Assume("declared pixel area is computed by a tolerant scanner that over-approximates (every header-looking byte sequence counts)")
	exe := os.Getenv("VERIF_EXE")
	if exe == "" {
		exe, _ = os.Executable()
	}
	r := rng(c, 0)
	stills := stillCorpus(r, c.N(60, 300), 48)
	anims := animCorpus(r, c.N(24, 120), 32)
	seeds := append(append(append(append([]namedFile{}, stills...), anims...), aspectCorpus(r)...), muxAnimCorpus(r, c.N(12, 60))...)
	var raw [][]byte
	for _, s := range seeds {
		raw = append(raw, s.Data)
	}
	c.Extra("seed_files", len(seeds))
	total := c.N(64000, 5000000)
	if v := getenvInt("VERIF_C05_N", 0); v > 0 {
		total = v
	}
	nChildren := runtime.NumCPU()
	perBatch := (total + nChildren - 1) / nChildren
	if perBatch > 30000 {
		perBatch = 30000
	}
	nBatches := (total + perBatch - 1) / perBatch
	dir, err := os.MkdirTemp("", "verif-c05-")
	if err != nil {
		c.Fatal("tempdir: %v", err)
		return
	}
	defer os.RemoveAll(dir)

	gen := func(batch int) []c05Input {
		br := rng(c, 1000+batch)
		var out []c05Input
		for k := 0; k < perBatch; k++ {
			idx := batch*perBatch + k
			if idx >= total {
				break
			}
			if k%8 == 7 {
				d, desc := c05Handmade(br, idx/8)
				out = append(out, c05Input{d, "handmade:" + desc})
				continue
			}
			if k%97 == 0 { // unmutated seeds: everything must accept them
				s := seeds[br.Intn(len(seeds))]
				out = append(out, c05Input{s.Data, "seed:" + s.Name})
				continue
			}
			s := seeds[br.Intn(len(seeds))]
			d, desc := mutate(br, s.Data, raw)
			if a, cv := declaredArea(d); 48*(a+uint64(c05MaxSnapshots+2)*cv) > c05MaxDeclared {
				// Declarations this large make "memory proportional to the declared size" exceed what a
				// child may use; they could only ever be judged "error or bounded", so they are not run.
				c.Inconclusive("skipped-declaration-above-1.5GiB-bound")
				d, desc = s.Data[:len(s.Data)/2], "truncate-half"
			}
			out = append(out, c05Input{d, s.Name + ":" + desc})
		}
		return out
	}

	var mu sync.Mutex
	var classes = map[string]int{}
	var wg sync.WaitGroup
	sem := make(chan struct{}, nChildren)
	for b := 0; b < nBatches; b++ {
		wg.Add(1)
		go func(b int) {
			defer wg.Done()
			sem <- struct{}{}
			defer func() { <-sem }()
			inputs := gen(b)
			c05RunBatch(c, exe, dir, b, inputs, 1, &mu, classes)
		}(b)
	}
	wg.Wait()
	if c.Only < 0 {
		c05Scaling(c, exe)
	}
	c.Extra("outcome_classes", classes)
	c.Extra("children", nBatches)
}

// c05RunBatch runs one child over inputs; on child death it isolates the culprit and continues.
func c05RunBatch(c *ev.Ctx, exe, dir string, b int, inputs []c05Input, scale int, mu *sync.Mutex, classes map[string]int) {
	base := b * 1000000
	for len(inputs) > 0 {
		bf := filepath.Join(dir, fmt.Sprintf("batch-%d-%d.bin", b, base))
		pf := bf + ".progress"
		rf := bf + ".results"
		raw := make([][]byte, len(inputs))
		for i := range inputs {
			raw[i] = inputs[i].data
		}
		if err := writeBatch(bf, raw); err != nil {
			c.Fatal("write batch: %v", err)
			return
		}
		logf := bf + ".log"
		sh := fmt.Sprintf("ulimit -v %d; exec timeout -s QUIT %d %q worker C05 %q %q %q %d >%q 2>&1", 8<<20, 3600, exe, bf, pf, rf, scale, logf)
		cmd := exec.Command("sh", "-c", sh)
		cmd.Env = append(os.Environ(), "GOMAXPROCS=2", "GOTRACEBACK=all")
		err := cmd.Run()
		results := map[int]c05Result{}
		if f, e := os.Open(rf); e == nil {
			dec := json.NewDecoder(f)
			for {
				var r c05Result
				if dec.Decode(&r) != nil {
					break
				}
				results[r.I] = r
			}
			f.Close()
		}
		prog, _ := os.ReadFile(pf)
		done := strings.Contains(string(prog), "DONE")
		last := -1
		for _, l := range strings.Split(strings.TrimSpace(string(prog)), "\n") {
			if v, e := strconv.Atoi(strings.TrimSpace(l)); e == nil {
				last = v
			}
		}
		for i := 0; i < len(inputs); i++ {
			r, ok := results[i]
			if !ok {
				continue
			}
			c.Eval(1)
			op := inputs[i].desc
			if k := strings.Index(op, "="); k > 0 {
				op = op[:k]
			}
			c.Distinct(fmt.Sprintf("%s|acc%d", op, r.Accept))
			mu.Lock()
			if r.Class == "" {
				if r.Accept > 0 {
					classes["accepted-by-some-entry-point"]++
				} else {
					classes["rejected-by-all"]++
				}
			} else {
				classes[r.Class]++
			}
			mu.Unlock()
			if strings.HasPrefix(inputs[i].desc, "seed:") && r.Accept < 4 && r.Class == "" {
				c.Violate(ev.Case{Idx: base + i, Desc: inputs[i].desc}, "valid-seed-rejected", nil, fmt.Sprintf("only %d entry points accept an unmutated valid file", r.Accept), map[string]string{"file": b64(inputs[i].data)})
			}
			if r.Class != "" && r.Class != "timeout" {
				site := ""
				if r.Class == "panic" {
					site = panicFunc(r.Detail)
				}
				c.Violate(ev.Case{Idx: base + i, Desc: inputs[i].desc}, r.Class, map[string]string{"entry": r.Entry, "site": site}, r.Detail, map[string]string{"file": b64(inputs[i].data)})
			}
			if r.Alloc > r.Bound && r.Class == "" {
				c.Count("cumulative_allocation_above_bound_but_peak_live_heap_below", 1)
			}
			if (base+i)%9001 == 0 {
				c.Sample(map[string]any{"input": inputs[i].desc, "len": len(inputs[i].data), "accepting_entry_points": r.Accept, "alloc": r.Alloc, "bound": r.Bound})
			}
		}
		if done && err == nil {
			os.Remove(bf)
			os.Remove(pf)
			os.Remove(rf)
			os.Remove(logf)
			return
		}
		// the child died or timed out while executing input `last`
		if last < 0 || last >= len(inputs) {
			lg, _ := os.ReadFile(logf)
			c.Violate(ev.Case{Idx: base, Desc: "child start"}, "child-died", nil, fmt.Sprintf("child died before the first case: %v; log: %s", err, trimTail(string(lg), 1500)), nil)
			return
		}
		culprit := inputs[last]
		lg, _ := os.ReadFile(logf)
		cs := ev.Case{Idx: base + last, Desc: culprit.desc}
		if r, ok := results[last]; ok && r.Class == "timeout" || strings.Contains(string(prog), "TIMEOUT") {
			// stage 2: three isolated re-runs with a 10x budget; only unanimous timeouts are a verdict
			if scale == 1 && c.Counter("hang_investigations") >= 4 {
				c.Count("hang_candidates_not_investigated", 1)
			} else if scale == 1 {
				c.Count("hang_investigations", 1)
				slow := 0
				for k := 0; k < 3; k++ {
					if c05Isolated(exe, dir, culprit.data, 5) == "timeout" {
						slow++
					}
				}
				if slow == 3 {
					c.Violate(cs, "hang", nil, "does not return within 5x the generous budget (50 s + 10 us per input byte and declared pixel) in 3 isolated re-runs", map[string]string{"file": b64(culprit.data)})
				} else {
					c.Inconclusive("watchdog-fired-once-not-reproduced")
				}
			}
		} else {
			kind := "child-died"
			txt := string(lg)
			switch {
			case strings.Contains(txt, "fatal error: all goroutines are asleep"):
				kind = "deadlock"
			case strings.Contains(txt, "fatal error: runtime: out of memory") || strings.Contains(txt, "cannot allocate memory"):
				kind = "out-of-memory"
			case strings.Contains(txt, "fatal error:"):
				kind = "fatal-error"
			case strings.Contains(txt, "panic:"):
				kind = "panic"
			}
			area, _ := declaredArea(culprit.data)
			c.Violate(cs, kind, map[string]string{"site": panicFunc(txt)}, fmt.Sprintf("child process died (%v) on this input (len %d, declared %d px); log tail: %s", err, len(culprit.data), area, trimTail(txt, 2500)), map[string]string{"file": b64(culprit.data)})
		}
		os.Remove(bf)
		os.Remove(pf)
		os.Remove(rf)
		os.Remove(logf)
		base += last + 1
		inputs = inputs[last+1:]
	}
}

// c05Isolated runs one input alone; returns "ok", "timeout" or "died".
func c05Isolated(exe, dir string, data []byte, scale int) string {
	bf := filepath.Join(dir, fmt.Sprintf("iso-%d-%d.bin", os.Getpid(), time.Now().UnixNano()))
	defer os.Remove(bf)
	defer os.Remove(bf + ".progress")
	defer os.Remove(bf + ".results")
	if writeBatch(bf, [][]byte{data}) != nil {
		return "died"
	}
	sh := fmt.Sprintf("ulimit -v %d; exec %q worker C05 %q %q %q %d >/dev/null 2>&1", 8<<20, exe, bf, bf+".progress", bf+".results", scale)
	cmd := exec.Command("sh", "-c", sh)
	cmd.Env = append(os.Environ(), "GOMAXPROCS=2")
	err := cmd.Run()
	prog, _ := os.ReadFile(bf + ".progress")
	if strings.Contains(string(prog), "TIMEOUT") {
		return "timeout"
	}
	if err != nil {
		return "died"
	}
	return "ok"
}

// panicFunc extracts the first repository function below the panic in a stack trace.
func panicFunc(stack string) string {
	lines := strings.Split(stack, "\n")
	seen := false
	for _, l := range lines {
		if strings.HasPrefix(l, "panic(") || strings.Contains(l, "runtime.gopanic") || strings.Contains(l, "runtime.panic") || strings.Contains(l, "runtime.goPanic") {
			seen = true
			continue
		}
		if seen && strings.HasPrefix(l, "github.com/deepteams/webp") {
			if j := strings.LastIndex(l, "("); j > 0 {
				l = l[:j]
			}
			return strings.TrimPrefix(l, "github.com/deepteams/webp")
		}
	}
	return ""
}

var _ = io.EOF
