package checks

import (
	"bytes"
	"encoding/binary"
	"fmt"
	"math/rand"

	webp "github.com/deepteams/webp"
	"github.com/deepteams/webp/mux"

	"verif/ev"
	"verif/img"
	"verif/lw"
	"verif/riffwalk"
)

func init() { Registry["C14"] = Check{Level: "exploration", Run: runC14} }

type c14Payload struct {
	Kind      string // vp8, vp8l, alph+vp8
	W, H      int
	Bitstream []byte // bare VP8/VP8L
	Alpha     []byte // ALPH payload (nil if none)
	Prefixed  []byte // what is handed to AddFrame
}

// c14Pool: real payloads produced beforehand by the encoders (odd and even lengths occur naturally).
func c14Pool(r *rand.Rand, n int) []c14Payload {
	var out []c14Payload
	for i := 0; len(out) < n && i < 6*n; i++ {
		w, h := 1+r.Intn(24), 1+r.Intn(24)
		if i%5 == 0 {
			w, h = 2*(1+r.Intn(8)), 2*(1+r.Intn(8))
		}
		o := webp.DefaultOptions()
		alpha := "opaque"
		switch i % 3 {
		case 1:
			o.Lossless = true
			alpha = pickS(r, "opaque", "binary", "gradient")
		case 2:
			alpha = pickS(r, "binary", "gradient", "noise", "levels3")
			o.AlphaCompression = r.Intn(2)
		}
		d, err := encode(img.Gen(r, img.Pick(r, img.Classes), alpha, w, h), o)
		if err != nil {
			continue
		}
		ch := riffChunks(d)
		p := c14Payload{W: w, H: h}
		if bs, ok := ch["VP8L"]; ok {
			p.Kind, p.Bitstream, p.Prefixed = "vp8l", bs, bs
		} else if bs, ok := ch["VP8 "]; ok {
			p.Bitstream = bs
			if a, ok := ch["ALPH"]; ok {
				p.Kind, p.Alpha = "alph+vp8", a
				pre := make([]byte, 8, 8+len(a)+1+len(bs))
				copy(pre, "ALPH")
				binary.LittleEndian.PutUint32(pre[4:], uint32(len(a)))
				pre = append(pre, a...)
				if len(a)%2 == 1 {
					pre = append(pre, 0)
				}
				p.Prefixed = append(pre, bs...)
			} else {
				p.Kind, p.Prefixed = "vp8", bs
			}
		} else {
			continue
		}
		out = append(out, p)
	}
	// a combination the format does not have: an ALPH chunk in front of a *lossless* bitstream. The muxer may refuse
	// it; if it writes a file, both readers of the package must still read it alike.
	var extra []c14Payload
	for _, p := range out {
		if p.Kind == "vp8l" && len(extra) < max(2, n/20) {
			a := []byte{0, byte(r.Intn(256)), byte(r.Intn(256))}
			pre := make([]byte, 8, 8+len(a)+1+len(p.Bitstream))
			copy(pre, "ALPH")
			binary.LittleEndian.PutUint32(pre[4:], uint32(len(a)))
			pre = append(append(pre, a...), 0)
			extra = append(extra, c14Payload{W: p.W, H: p.H, Kind: "alph+vp8l", Bitstream: p.Bitstream, Alpha: a, Prefixed: append(pre, p.Bitstream...)})
		}
	}
	return append(out, extra...)
}

type c14Frame struct {
	P    c14Payload
	Opts mux.FrameOptions
	Nil  bool // AddFrame(data, nil)
}

type c14Hist struct {
	Frames           []c14Frame
	Ops              []string
	ICC, EXIF, XMP   []byte
	Loop             int
	LoopSet          bool
	BG               uint32
	BGSet            bool
	CanvasW, CanvasH int
	CanvasMode       string // absent, exact, larger, smaller
	UnknownID        mux.ChunkID // a chunk AddChunk accepted under an id other than ICCP/EXIF/XMP
	Unknown          []byte
}

func runC14(c *ev.Ctx) {
	c.Rule = "random Muxer call histories (AddFrame with VP8 / VP8L / ALPH-prefixed VP8 payloads of odd and even length, with and without options; SetFrameDisposeMode / " +
		"SetFrameDuration incl. out-of-range indices; SetLoopCount / SetBackgroundColor / SetCanvasSize absent-exact-larger-smaller; SetICC/EXIF/XMP/AddChunk with nil, empty, " +
		"odd, even blobs) in random order; every fourth history hands its payloads over as adjacent sub-slices of one buffer (spare capacity = the next payload); oracles: what was put in (model of the accepted history), the independent RIFF walker, Demuxer, GetFeatures/DecodeConfig/Decode " +
		"(second parser), libwebp for stills; distinct = (frame count class, payload kinds, still/animated, metadata subset, canvas mode, option classes)"
	lwOK := lw.SelfTest() == nil
	pool := c14Pool(rng(c, 0), 90)
	if len(pool) < 10 {
		c.Fatal("payload pool too small")
		return
	}
	n := c.N(40000, 20000000)
	var cases []ev.Case
	for i := 0; i < n; i++ {
		cases = append(cases, ev.Case{Idx: i, Desc: "history"})
	}
	c.RunCases(cases, 0, func(cs ev.Case) { c14One(c, cs, pool, lwOK) })
	if c.Only < 0 {
		c14Cap(c, n, pool)
	}
}

// c14Cap: metadata at and just above the 100 MiB limit that AddChunk documents, given through the setters (which
// cannot return an error): whatever Assemble writes must demux back; refusing is fine, a file the demuxer refuses is not.
func c14Cap(c *ev.Ctx, idx int, pool []c14Payload) {
	const lim = 100 * 1024 * 1024
	{ // three blobs within the per-chunk limit whose sum exceeds the 256 MiB that Decode/GetFeatures/animation.Decode read
		cs := ev.Case{Idx: idx + 2, Desc: "SetICCProfile/SetEXIF/SetXMP(90 MiB each) + AddFrame + Assemble"}
		mk := func(seed byte) []byte {
			b := make([]byte, 90<<20)
			for i := 0; i < len(b); i += 4093 {
				b[i] = seed + byte(i>>9)
			}
			return b
		}
		m := mux.NewMuxer()
		m.SetICCProfile(mk(1))
		m.SetEXIF(mk(2))
		m.SetXMP(mk(3))
		m.AddFrame(pool[0].Prefixed, nil)
		var buf bytes.Buffer
		err := m.Assemble(&buf)
		c.Eval(1)
		c.Distinct("cap|sum")
		if err == nil {
			if _, ferr := webp.GetFeatures(bytes.NewReader(buf.Bytes())); ferr != nil {
				c.Violate(cs, "parser-rejects-muxer-output", map[string]string{"cap": "sum"}, fmt.Sprintf("Assemble wrote %d bytes that GetFeatures refuses: %v", buf.Len(), ferr), nil)
			}
		}
	}
	{ // as many frames as AddFrame takes (up to 70000): where the muxer draws the line is its choice, but what it then
		// assembles is read by both parsers, with every frame
		cs := ev.Case{Idx: idx + 3, Desc: "AddFrame until refused (at most 70000 times) + Assemble"}
		small := pool[0]
		for _, p := range pool {
			if p.Kind == "vp8l" && len(p.Prefixed) < len(small.Prefixed) || small.Kind != "vp8l" {
				small = p
			}
		}
		m := mux.NewMuxer()
		added := 0
		for ; added < 70000; added++ {
			if err := m.AddFrame(small.Prefixed, &mux.FrameOptions{Duration: 10}); err != nil {
				break
			}
		}
		var buf bytes.Buffer
		err := m.Assemble(&buf)
		c.Eval(1)
		c.Distinct("cap|frames")
		c.Count(fmt.Sprintf("cap_frames_accepted_%d", added), 1)
		if err == nil {
			if dm, derr := mux.NewDemuxer(buf.Bytes()); derr != nil {
				c.Violate(cs, "demuxer-rejects-muxer-output", map[string]string{"cap": "frames"}, fmt.Sprintf("AddFrame accepted %d frames, Assemble wrote %d bytes that NewDemuxer refuses: %v", added, buf.Len(), derr), nil)
			} else if dm.NumFrames() != added {
				c.Violate(cs, "demux/frame-count", map[string]string{"cap": "frames"}, fmt.Sprintf("%d frames accepted, demuxer sees %d", added, dm.NumFrames()), nil)
			}
			if ft, ferr := webp.GetFeatures(bytes.NewReader(buf.Bytes())); ferr != nil {
				c.Violate(cs, "parser-rejects-muxer-output", map[string]string{"cap": "frames"}, fmt.Sprintf("AddFrame accepted %d frames, Assemble wrote %d bytes that GetFeatures refuses: %v", added, buf.Len(), ferr), nil)
			} else if ft.FrameCount != added {
				c.Violate(cs, "parsers-disagree", map[string]string{"on": "frames", "cap": "frames"}, fmt.Sprintf("%d frames accepted, GetFeatures reports %d", added, ft.FrameCount), nil)
			}
		}
	}
	for k, n := range []int{lim, lim + 1} {
		cs := ev.Case{Idx: idx + k, Desc: fmt.Sprintf("SetEXIF(%d bytes) + AddFrame + Assemble", n)}
		blob := make([]byte, n)
		for i := 0; i < n; i += 4093 {
			blob[i] = byte(i >> 7)
		}
		m := mux.NewMuxer()
		m.SetEXIF(blob)
		if err := m.AddFrame(pool[0].Prefixed, nil); err != nil {
			c.Fatal("cap case: AddFrame: %v", err)
			return
		}
		var buf bytes.Buffer
		err := m.Assemble(&buf)
		c.Eval(1)
		c.Distinct(fmt.Sprintf("cap|%d", n))
		if err != nil {
			if n == lim {
				c.Violate(cs, "valid-history-rejected", map[string]string{"cap": "1"}, "metadata of exactly the documented limit refused: "+err.Error(), nil)
			}
			continue
		}
		dm, derr := mux.NewDemuxer(buf.Bytes())
		if derr != nil {
			c.Violate(cs, "demuxer-rejects-muxer-output", map[string]string{"cap": "1"}, fmt.Sprintf("Assemble wrote %d bytes that NewDemuxer refuses: %v", buf.Len(), derr), nil)
			continue
		}
		if got, gerr := dm.GetChunk(mux.FourCCEXIF); gerr != nil || !bytes.Equal(got, blob) {
			c.Violate(cs, "demux/metadata", map[string]string{"cap": "1"}, fmt.Sprintf("EXIF of %d bytes does not read back (%v)", n, gerr), nil)
		}
	}
}

func c14One(c *ev.Ctx, cs ev.Case, pool []c14Payload, lwOK bool) {
	r := rng(c, cs.Idx+1)
	m := mux.NewMuxer()
	var h c14Hist
	// arena mode (every fourth history): what is handed to the muxer is carved back to back, in call order, out of one
	// buffer, so each slice's spare capacity is the next payload. The expectation keeps the pool's own copies: a muxer
	// that writes past the end of a slice it was given damages the payload that follows, and the round trip shows it.
	var arena []byte
	if cs.Idx%4 == 3 {
		arena = make([]byte, 0, 1<<18)
	}
	carve := func(b []byte) []byte {
		if arena == nil || len(b) == 0 || len(arena)+len(b) > cap(arena) {
			return b
		}
		s := len(arena)
		arena = append(arena, b...)
		return arena[s:len(arena)]
	}
	nf := 1
	switch r.Intn(6) {
	case 0, 1:
		nf = 1
	case 2:
		nf = 2
	case 3:
		nf = 3 + r.Intn(4)
	default:
		nf = 1 + r.Intn(20)
	}
	still := nf == 1 && r.Intn(3) != 0
	// build the operation list: frames in order, everything else interleaved at random positions
	type op func()
	var ops []op
	addFrame := func() {
		p := pool[r.Intn(len(pool))]
		f := c14Frame{P: p}
		if still || r.Intn(8) == 0 {
			f.Nil = r.Intn(2) == 0
		} else {
			f.Opts = mux.FrameOptions{
				Duration: pickI(r, 0, 1, 40, 100, 0xFFFFFF, 0xFFFFFF+1, -5, 70000),
				OffsetX:  pickI(r, 0, 0, 1, 2, 3, 10, 17, -1, -2, -8),
				OffsetY:  pickI(r, 0, 0, 1, 2, 5, 8, -2),
			}
			if r.Intn(16) == 0 { // at and beyond what the 24-bit canvas / offset fields can hold
				if r.Intn(2) == 0 {
					f.Opts.OffsetX = pickI(r, 1<<24-2, 1<<24, 1<<25, 2*(1<<24-1), 16000000)
				} else {
					f.Opts.OffsetY = pickI(r, 1<<24-2, 1<<24, 1<<25, 2*(1<<24-1), 16000000)
				}
			}
			f.Opts = mux.FrameOptions{Duration: f.Opts.Duration, OffsetX: f.Opts.OffsetX, OffsetY: f.Opts.OffsetY,
				BlendMode:   mux.BlendMode(r.Intn(2)),
				DisposeMode: mux.DisposeMode(r.Intn(2)),
			}
		}
		if still {
			f.Opts.Duration = 0
		}
		ops = append(ops, func() {
			var err error
			if f.Nil {
				err = m.AddFrame(carve(f.P.Prefixed), nil)
				f.Opts = mux.FrameOptions{}
			} else {
				o := f.Opts
				err = m.AddFrame(carve(f.P.Prefixed), &o)
			}
			if err == nil {
				h.Frames = append(h.Frames, f)
				h.Ops = append(h.Ops, fmt.Sprintf("AddFrame(%s %dx%d len=%d, %+v nil=%v)", f.P.Kind, f.P.W, f.P.H, len(f.P.Prefixed), f.Opts, f.Nil))
			} else {
				h.Ops = append(h.Ops, "AddFrame -> "+err.Error())
			}
		})
	}
	for i := 0; i < nf; i++ {
		addFrame()
	}
	insert := func(o op) {
		k := r.Intn(len(ops) + 1)
		ops = append(ops[:k], append([]op{o}, ops[k:]...)...)
	}
	mkblob := func() []byte {
		switch r.Intn(5) {
		case 0:
			return nil
		case 1:
			return []byte{}
		case 2:
			b := make([]byte, 1+2*r.Intn(20))
			r.Read(b)
			return b
		default:
			b := make([]byte, 2+2*r.Intn(20))
			r.Read(b)
			return b
		}
	}
	if r.Intn(2) == 0 {
		b := mkblob()
		via := r.Intn(2)
		insert(func() {
			if via == 0 {
				m.SetICCProfile(carve(b))
			} else {
				m.AddChunk(mux.FourCCICCP, carve(b))
			}
			h.ICC = b
			h.Ops = append(h.Ops, fmt.Sprintf("ICC(%d bytes nil=%v)", len(b), b == nil))
		})
	}
	if r.Intn(2) == 0 {
		b := mkblob()
		via := r.Intn(2)
		insert(func() {
			if via == 0 {
				m.SetEXIF(carve(b))
			} else {
				m.AddChunk(mux.FourCCEXIF, carve(b))
			}
			h.EXIF = b
			h.Ops = append(h.Ops, fmt.Sprintf("EXIF(%d bytes nil=%v)", len(b), b == nil))
		})
	}
	if r.Intn(2) == 0 {
		b := mkblob()
		via := r.Intn(2)
		insert(func() {
			if via == 0 {
				m.SetXMP(carve(b))
			} else {
				m.AddChunk(mux.FourCCXMP, carve(b))
			}
			h.XMP = b
			h.Ops = append(h.Ops, fmt.Sprintf("XMP(%d bytes nil=%v)", len(b), b == nil))
		})
	}
	if r.Intn(8) == 0 { // AddChunk "adds an arbitrary metadata chunk": one the format has no name for
		id := mux.ChunkID(uint32('z') | uint32('z')<<8 | uint32('z')<<16 | uint32(byte('a'+r.Intn(26)))<<24)
		b := mkblob()
		insert(func() {
			err := m.AddChunk(id, carve(b))
			h.Ops = append(h.Ops, fmt.Sprintf("AddChunk(zzz?, %d bytes) -> %v", len(b), err))
			if err == nil && len(b) > 0 {
				h.UnknownID, h.Unknown = id, b
			}
		})
	}
	if r.Intn(2) == 0 {
		v := pickI(r, 0, 1, 7, 65535, 65536, -3)
		insert(func() {
			m.SetLoopCount(v)
			h.Loop, h.LoopSet = v, true
			h.Ops = append(h.Ops, fmt.Sprintf("SetLoopCount(%d)", v))
		})
	}
	if r.Intn(2) == 0 {
		v := r.Uint32()
		insert(func() {
			m.SetBackgroundColor(v)
			h.BG, h.BGSet = v, true
			h.Ops = append(h.Ops, fmt.Sprintf("SetBackgroundColor(%#x)", v))
		})
	}
	// retroactive per-frame edits (applied after all frames exist or in between: index may be out of range)
	nEdits := r.Intn(4)
	type edit struct {
		kind, idx, val int
	}
	var edits []edit
	for i := 0; i < nEdits; i++ {
		edits = append(edits, edit{r.Intn(2), r.Intn(nf+2) - 1, pickI(r, 0, 1, 50, 0xFFFFFF, 0x1000000, -1)})
	}
	h.CanvasMode = pickS(r, "absent", "absent", "exact", "larger", "smaller")
	// in 1 of 3 histories the muxer is also assembled once somewhere in the middle of the call sequence (output
	// discarded): an Assemble must not change what a later Assemble of the same Muxer writes
	if r.Intn(3) == 0 {
		insert(func() {
			var early bytes.Buffer
			ev.Guard(func() { m.Assemble(&early) })
			h.Ops = append(h.Ops, fmt.Sprintf("Assemble() [early, %d bytes discarded]", early.Len()))
		})
	}
	// run
	for _, o := range ops {
		o()
	}
	for _, e := range edits {
		if e.kind == 0 {
			d := mux.DisposeMode(e.val & 1)
			m.SetFrameDisposeMode(e.idx, d)
			if e.idx >= 0 && e.idx < len(h.Frames) {
				h.Frames[e.idx].Opts.DisposeMode = d
			}
			h.Ops = append(h.Ops, fmt.Sprintf("SetFrameDisposeMode(%d,%d)", e.idx, d))
		} else {
			m.SetFrameDuration(e.idx, e.val)
			if e.idx >= 0 && e.idx < len(h.Frames) && !(still) {
				h.Frames[e.idx].Opts.Duration = e.val
			} else if e.idx >= 0 && e.idx < len(h.Frames) {
				h.Frames[e.idx].Opts.Duration = e.val
			}
			h.Ops = append(h.Ops, fmt.Sprintf("SetFrameDuration(%d,%d)", e.idx, e.val))
		}
	}
	// model: clamp durations, extents
	extW, extH := 0, 0
	animated := len(h.Frames) > 1
	for i := range h.Frames {
		f := &h.Frames[i]
		if f.Opts.Duration < 0 {
			f.Opts.Duration = 0
		}
		if f.Opts.Duration > 0xFFFFFF {
			f.Opts.Duration = 0xFFFFFF
		}
		if f.Opts.Duration > 0 {
			animated = true
		}
		extW = max(extW, f.Opts.OffsetX+f.P.W)
		extH = max(extH, f.Opts.OffsetY+f.P.H)
	}
	expectReject := len(h.Frames) == 0
	for _, f := range h.Frames {
		if f.Opts.OffsetX < 0 || f.Opts.OffsetY < 0 {
			expectReject = true // unsigned 24-bit offset fields cannot hold a negative offset
		}
	}
	switch h.CanvasMode {
	case "exact":
		h.CanvasW, h.CanvasH = extW, extH
	case "larger":
		h.CanvasW, h.CanvasH = extW+1+r.Intn(9), extH+r.Intn(9)
		if r.Intn(12) == 0 { // area at / above 2^30 pixels: the muxer may refuse it, but if it writes a file every reader must read it alike
			h.CanvasW, h.CanvasH = max(h.CanvasW, pickI(r, 32768, 40000, 1<<20)), max(h.CanvasH, pickI(r, 32768, 40000, 1024))
		} else if r.Intn(6) == 0 { // beyond 16 bits (24-bit canvas fields)
			if r.Intn(2) == 0 {
				h.CanvasW = max(h.CanvasW, pickI(r, 65536, 65537, 70000, 100000))
			} else {
				h.CanvasH = max(h.CanvasH, pickI(r, 65536, 65537, 70000, 100000))
			}
		}
	case "smaller":
		h.CanvasW, h.CanvasH = extW-1, extH
		if h.CanvasW <= 0 {
			h.CanvasW, h.CanvasH = extW, extH-1
		}
		if h.CanvasW > 0 && h.CanvasH > 0 {
			expectReject = true
		} else {
			h.CanvasMode = "absent"
		}
	}
	if h.CanvasMode != "absent" {
		m.SetCanvasSize(h.CanvasW, h.CanvasH)
		h.Ops = append(h.Ops, fmt.Sprintf("SetCanvasSize(%d,%d) [%s]", h.CanvasW, h.CanvasH, h.CanvasMode))
		// documented: "Dimensions are clamped to [0, MaxCanvasSize] (24-bit max)"
		cw, ch := min(h.CanvasW, 1<<24), min(h.CanvasH, 1<<24)
		if (cw != h.CanvasW || ch != h.CanvasH) && (cw < extW || ch < extH) {
			expectReject = true // the clamped canvas no longer holds the frames
		}
		h.CanvasW, h.CanvasH = cw, ch
	}
	wantW, wantH := extW, extH
	if h.CanvasMode == "exact" || h.CanvasMode == "larger" {
		wantW, wantH = h.CanvasW, h.CanvasH
	}
	// the VP8X canvas fields hold width-1 and height-1 in 24 bits, the ANMF offset fields hold offset/2 in 24 bits:
	// a canvas beyond 2^24 cannot be written down and has to be refused
	if wantW > 1<<24 || wantH > 1<<24 {
		expectReject = true
	}
	// Canvases of 2^30 pixels and more: the package's own readers put their limits in different places, so the muxer
	// may refuse them; if it writes a file, every view of that file must still agree (checked below as usual).
	mayReject := uint64(wantW)*uint64(wantH) >= 1<<30
	for _, f := range h.Frames {
		if f.P.Kind == "alph+vp8l" {
			mayReject = true
		}
	}
	cs.Desc = fmt.Sprintf("%v", h.Ops)
	// D11 (repaired): a single frame whose canvas (explicit, or implied by a frame offset) differs from the image size
	// cannot be a still - the still layouts have no frame rectangle, and a VP8X canvas that differs from the image is
	// invalid. The only file that "demuxes back to the same offsets and canvas size" is a one-frame animation, so that
	// is what the model expects. The tag stays on the direct consequences: a tree without the repair shows them, and
	// the known-findings file no longer lists them.
	d11 := ""
	if !animated && len(h.Frames) == 1 && (wantW != h.Frames[0].P.W || wantH != h.Frames[0].P.H) && !expectReject {
		d11 = "1"
		animated = true
	}
	kinds := ""
	for _, f := range h.Frames {
		kinds += f.P.Kind[:1] + map[bool]string{true: "o", false: "e"}[len(f.P.Prefixed)%2 == 1]
		if len(kinds) > 12 {
			break
		}
	}
	c.Distinct(fmt.Sprintf("n=%d|%s|anim=%v|icc=%v exif=%v xmp=%v|%s", min(len(h.Frames), 4), kinds, animated, h.ICC != nil, h.EXIF != nil, h.XMP != nil, h.CanvasMode))

	var buf bytes.Buffer
	var aerr error
	if p := ev.Guard(func() { aerr = m.Assemble(&buf) }); p != "" {
		c.Violate(cs, "panic", map[string]string{"where": "Assemble"}, p, nil)
		return
	}
	c.Eval(1)
	data := buf.Bytes()
	rep := func() any { return map[string]any{"ops": h.Ops, "file": b64(data)} }
	if cs.Idx%2 == 1 { // every second history is judged on the output of a second Assemble of the same, unchanged Muxer
		var again bytes.Buffer
		if p := ev.Guard(func() { aerr = m.Assemble(&again) }); p != "" {
			c.Violate(cs, "panic", map[string]string{"where": "Assemble (second call)"}, p, nil)
			return
		}
		data = again.Bytes()
		h.Ops = append(h.Ops, "Assemble() [first output discarded, second one judged]")
		cs.Desc = fmt.Sprintf("%v", h.Ops)
	}
	if aerr != nil {
		if !expectReject && !mayReject {
			c.Violate(cs, "valid-history-rejected", map[string]string{"canvas": h.CanvasMode}, aerr.Error(), rep())
		}
		if len(data) != 0 {
			c.Violate(cs, "rejected-but-wrote", nil, fmt.Sprintf("Assemble returned %v after writing %d bytes", aerr, len(data)), rep())
		}
		c.Count("rejected", 1)
		return
	}
	if expectReject {
		c.Violate(cs, "invalid-history-accepted", map[string]string{"canvas": h.CanvasMode}, fmt.Sprintf("canvas %dx%d smaller than frame extents %dx%d (or no frames) but Assemble succeeded", h.CanvasW, h.CanvasH, extW, extH), rep())
		return
	}
	c.Count(fmt.Sprintf("assembled_animated_%v", animated), 1)

	// ---- structure
	info, issues := riffwalk.Walk(data)
	for _, is := range issues {
		a := map[string]string{"rule": is.Rule, "animated": fmt.Sprint(animated), "canvas": h.CanvasMode}
		if is.Rule == "still-canvas-ne-image" {
			a["still_canvas_ne_image"] = d11
		}
		c.Violate(cs, "structure/"+is.Rule, a, is.Msg, rep())
	}
	if info == nil {
		return
	}
	if info.Animated != animated {
		c.Violate(cs, "model/animated-flag", nil, fmt.Sprintf("file animated=%v, history implies %v", info.Animated, animated), rep())
	}
	if len(info.Frames) != len(h.Frames) {
		c.Violate(cs, "model/frame-count", nil, fmt.Sprintf("file has %d frames, %d were added", len(info.Frames), len(h.Frames)), rep())
		return
	}
	if info.Extended && (info.CanvasW != wantW || info.CanvasH != wantH) {
		c.Violate(cs, "model/canvas", map[string]string{"canvas": h.CanvasMode, "animated": fmt.Sprint(animated), "still_canvas_ne_image": d11}, fmt.Sprintf("VP8X canvas %dx%d, expected %dx%d", info.CanvasW, info.CanvasH, wantW, wantH), rep())
	}
	// ---- demuxer
	dm, derr := mux.NewDemuxer(data)
	if derr != nil {
		c.Violate(cs, "demuxer-rejects-muxer-output", map[string]string{"animated": fmt.Sprint(animated)}, derr.Error(), rep())
		return
	}
	if dm.NumFrames() != len(h.Frames) {
		c.Violate(cs, "demux/frame-count", nil, fmt.Sprintf("demuxer sees %d frames, %d were added", dm.NumFrames(), len(h.Frames)), rep())
		return
	}
	df := dm.GetFeatures()
	if df.Width != wantW || df.Height != wantH {
		c.Violate(cs, "demux/canvas", map[string]string{"canvas": h.CanvasMode, "animated": fmt.Sprint(animated), "still_canvas_ne_image": d11}, fmt.Sprintf("demuxer canvas %dx%d, expected %dx%d", df.Width, df.Height, wantW, wantH), rep())
	}
	for i, f := range h.Frames {
		fi, err := dm.Frame(i)
		if err != nil {
			c.Violate(cs, "demux/frame-error", nil, err.Error(), rep())
			continue
		}
		wf := info.Frames[i]
		if !bytes.Equal(fi.Data, f.P.Bitstream) || (wf.BS != nil && !bytes.Equal(wf.BS.Data, f.P.Bitstream)) {
			c.Violate(cs, "demux/bitstream", map[string]string{"kind": f.P.Kind}, fmt.Sprintf("frame %d: bitstream differs from what was added (%s)", i, firstByteDiff(f.P.Bitstream, fi.Data)), rep())
		}
		if !bytes.Equal(fi.AlphaData, f.P.Alpha) || !bytes.Equal(wf.Alpha, f.P.Alpha) {
			c.Violate(cs, "demux/alpha", map[string]string{"kind": f.P.Kind, "animated": fmt.Sprint(animated)}, fmt.Sprintf("frame %d: alpha payload differs (%d bytes put in, demuxer %d, walker %d)", i, len(f.P.Alpha), len(fi.AlphaData), len(wf.Alpha)), rep())
		}
		if fi.Width != f.P.W || fi.Height != f.P.H {
			c.Violate(cs, "demux/frame-size", map[string]string{"still_canvas_ne_image": d11}, fmt.Sprintf("frame %d: %dx%d, payload is %dx%d", i, fi.Width, fi.Height, f.P.W, f.P.H), rep())
		}
		if animated {
			ex, ey := f.Opts.OffsetX/2*2, f.Opts.OffsetY/2*2
			if fi.OffsetX != ex || fi.OffsetY != ey || wf.X != ex || wf.Y != ey {
				c.Violate(cs, "demux/offset", nil, fmt.Sprintf("frame %d: offset (%d,%d) walker (%d,%d), expected (%d,%d)", i, fi.OffsetX, fi.OffsetY, wf.X, wf.Y, ex, ey), rep())
			}
			if fi.Duration != f.Opts.Duration || wf.Duration != f.Opts.Duration {
				c.Violate(cs, "demux/duration", nil, fmt.Sprintf("frame %d: duration %d (walker %d), expected %d", i, fi.Duration, wf.Duration, f.Opts.Duration), rep())
			}
			if fi.BlendMode != f.Opts.BlendMode || wf.Blend != (f.Opts.BlendMode == mux.BlendAlpha) {
				c.Violate(cs, "demux/blend", nil, fmt.Sprintf("frame %d: blend %v, expected %v", i, fi.BlendMode, f.Opts.BlendMode), rep())
			}
			if fi.DisposeMode != f.Opts.DisposeMode || wf.Dispose != (f.Opts.DisposeMode == mux.DisposeBackground) {
				c.Violate(cs, "demux/dispose", nil, fmt.Sprintf("frame %d: dispose %v, expected %v", i, fi.DisposeMode, f.Opts.DisposeMode), rep())
			}
		}
	}
	if h.Unknown != nil {
		if got, err := dm.GetChunk(h.UnknownID); err != nil || !bytes.Equal(got, h.Unknown) {
			c.Violate(cs, "accepted-chunk-lost", nil, fmt.Sprintf("AddChunk accepted %d bytes under an id of its own and returned nil; the file does not carry them (GetChunk: %v)", len(h.Unknown), err), rep())
		}
	}
	if animated {
		wantLoop := h.Loop
		if wantLoop < 0 {
			wantLoop = 0
		}
		if wantLoop > 65535 {
			wantLoop = 65535
		}
		if dm.LoopCount() != wantLoop || info.LoopCount != wantLoop {
			c.Violate(cs, "demux/loop-count", nil, fmt.Sprintf("loop count %d (walker %d), expected %d", dm.LoopCount(), info.LoopCount, wantLoop), rep())
		}
		if dm.BackgroundColor() != h.BG || info.Background != h.BG {
			c.Violate(cs, "demux/background", nil, fmt.Sprintf("background %#x (walker %#x), expected %#x", dm.BackgroundColor(), info.Background, h.BG), rep())
		}
	}
	for k, want := range [][]byte{h.ICC, h.EXIF, h.XMP} {
		id := []mux.ChunkID{mux.FourCCICCP, mux.FourCCEXIF, mux.FourCCXMP}[k]
		name := []string{"ICC", "EXIF", "XMP"}[k]
		got, gerr := dm.GetChunk(id)
		wgot := [][]byte{info.ICC, info.EXIF, info.XMP}[k]
		whas := []bool{info.HasICC, info.HasEXIF, info.HasXMP}[k]
		if whas != (gerr == nil) { // a chunk that is in the file (walker) is one the demuxer finds, empty ones at the very end included
			c.Violate(cs, "demux/metadata", map[string]string{"blob": name, "what": "presence"}, fmt.Sprintf("%s: chunk in the file=%v (walker), Demuxer.GetChunk err=%v", name, whas, gerr), rep())
			continue
		}
		if want == nil {
			if gerr == nil || whas {
				c.Violate(cs, "demux/metadata-spurious", map[string]string{"blob": name}, name+" never set but present", rep())
			}
			continue
		}
		if len(want) == 0 {
			if (gerr == nil && len(got) != 0) || len(wgot) != 0 {
				c.Violate(cs, "demux/metadata", map[string]string{"blob": name}, name+" set to empty but non-empty stored", rep())
			}
			continue
		}
		if gerr != nil || !bytes.Equal(got, want) || !bytes.Equal(wgot, want) {
			c.Violate(cs, "demux/metadata", map[string]string{"blob": name}, fmt.Sprintf("%s: put %d bytes, demuxer err=%v %d bytes, walker %d bytes", name, len(want), gerr, len(got), len(wgot)), rep())
		}
	}
	// ---- second parser (container.Parser through the public API)
	ft, ferr := webp.GetFeatures(bytes.NewReader(data))
	if ferr != nil {
		c.Violate(cs, "parser-rejects-muxer-output", map[string]string{"animated": fmt.Sprint(animated), "canvas": h.CanvasMode}, "GetFeatures: "+ferr.Error(), rep())
	} else {
		if ft.FrameCount != len(h.Frames) || ft.HasAnimation != animated {
			c.Violate(cs, "parsers-disagree", map[string]string{"on": "frames"}, fmt.Sprintf("GetFeatures %+v, muxer history has %d frames animated=%v", *ft, len(h.Frames), animated), rep())
		}
		if ft.Width != df.Width || ft.Height != df.Height {
			c.Violate(cs, "parsers-disagree", map[string]string{"on": "canvas", "canvas": h.CanvasMode, "animated": fmt.Sprint(animated), "still_canvas_ne_image": d11}, fmt.Sprintf("GetFeatures %dx%d, demuxer %dx%d", ft.Width, ft.Height, df.Width, df.Height), rep())
		}
	}
	if !animated {
		// the still must decode to the same pixels as the bare payload in a plain container
		f := h.Frames[0]
		var plain []byte
		switch f.P.Kind {
		case "vp8l":
			plain = riffWrap(chunk("VP8L", f.P.Bitstream))
		case "vp8":
			plain = riffWrap(chunk("VP8 ", f.P.Bitstream))
		default:
			plain = riffWrap(vp8xChunk(0x10, f.P.W, f.P.H), chunk("ALPH", f.P.Alpha), chunk("VP8 ", f.P.Bitstream))
		}
		d1, e1 := decode(data)
		d2, e2 := decode(plain)
		if e1 != nil || e2 != nil {
			c.Violate(cs, "still-undecodable", map[string]string{"kind": f.P.Kind, "canvas": h.CanvasMode}, fmt.Sprintf("muxed: %v; plain container: %v", e1, e2), rep())
		} else if imgDigest(d1) != imgDigest(d2) {
			c.Violate(cs, "still-pixels-differ", map[string]string{"kind": f.P.Kind}, "muxed still decodes differently from the bare payload", rep())
		}
		if lwOK {
			if _, _, _, e := lw.DecodeRGBA(data); e != nil {
				c.Violate(cs, "still-rejected-by-libwebp", map[string]string{"kind": f.P.Kind, "canvas": h.CanvasMode, "still_canvas_ne_image": d11}, "libwebp rejects the muxed still", rep())
			}
		}
	}
	if cs.Idx%600 == 0 {
		c.Sample(map[string]any{"ops": h.Ops, "bytes": len(data), "animated": animated})
	}
}
