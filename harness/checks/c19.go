package checks

import (
	"bytes"
	"fmt"
	"image"
	"reflect"

	webp "github.com/deepteams/webp"

	"verif/ev"
	"verif/img"
)

func init() { Registry["C19"] = Check{Level: "exploration", Run: runC19} }

type c19Case struct {
	Class, Alpha string
	W, H         int
	Lossless     bool
	Method       int
	Quality      float32
	Exact, Sharp bool
	Prep         int
	SrcType      string
}

func runC19(c *ev.Ctx) {
	c.Rule = "for one picture: bytes of Encode(canonical *image.NRGBA at origin, tight stride) vs every placement {offset, negative origin, sub-image (2 sentinel fills), " +
		"odd-offset sub-image, stride padding (2 fills), over-long Pix, opaque wrapper}, and concrete Go type T vs Wrapper{T}; caller buffer hashed before/after; " +
		"half of the cases carry ICC or EXIF+XMP (buffered writers instead of the streaming ones); distinct = (class, alpha, size mod 16 bucket, codec, method, exact, sharp, dithering, metadata, placement/type)"
	n := c.N(1500, 250000)
	var cases []ev.Case
	for i := 0; i < n; i++ {
		r := rng(c, i)
		cc := c19Case{Class: img.Classes[i%len(img.Classes)], Alpha: img.Pick(r, img.Alphas), Lossless: i%3 == 0,
			Method: []int{0, 2, 4, 6}[(i/3)%4], Quality: pickF(r, 20, 75, 75, 95), Exact: r.Intn(2) == 0, Sharp: r.Intn(5) == 0,
			Prep: pickI(r, 0, 0, 1, 2, 3), SrcType: pickS(r, "RGBA", "RGBA", "Gray", "NRGBA64", "RGBA64", "Paletted", "YCbCr", "CMYK", "Alpha", "NYCbCrA", "Gray16")}
		if r.Intn(3) == 0 {
			cc.Alpha = "opaque"
		}
		switch r.Intn(3) {
		case 0:
			cc.W, cc.H = img.Pick(r, img.SmallSizes), img.Pick(r, img.SmallSizes)
		case 1:
			cc.W, cc.H = 1+r.Intn(70), 1+r.Intn(70)
		default:
			cc.W, cc.H = 6+r.Intn(12), 6+r.Intn(12)
		}
		cases = append(cases, ev.Case{Idx: i, Desc: fmt.Sprintf("%+v", cc), Data: cc})
	}
	c.RunCases(cases, 0, func(cs ev.Case) { c19One(c, cs) })
}

func backing(m image.Image) []byte {
	switch t := m.(type) {
	case *image.NRGBA:
		return t.Pix
	case *image.RGBA:
		return t.Pix
	case *image.Gray:
		return t.Pix
	case *image.NRGBA64:
		return t.Pix
	case *image.RGBA64:
		return t.Pix
	case *image.Paletted:
		return t.Pix
	case *image.CMYK:
		return t.Pix
	case *image.Alpha:
		return t.Pix
	case *image.Gray16:
		return t.Pix
	case *image.YCbCr:
		return append(append(append([]byte{}, t.Y...), t.Cb...), t.Cr...)
	case *image.NYCbCrA:
		return append(append(append(append([]byte{}, t.Y...), t.Cb...), t.Cr...), t.A...)
	case img.Wrapper:
		return backing(t.I)
	}
	return nil
}

func c19One(c *ev.Ctx, cs ev.Case) {
	cc := cs.Data.(c19Case)
	r := rng(c, cs.Idx+1<<20)
	base := img.Gen(r, cc.Class, cc.Alpha, cc.W, cc.H)
	o := webp.DefaultOptions()
	o.Lossless, o.Method, o.Quality, o.Exact, o.UseSharpYUV, o.Preprocessing = cc.Lossless, cc.Method, cc.Quality, cc.Exact, cc.Sharp, cc.Prep
	// metadata switches Encode to its buffered writers (other pixel-import code than the streaming ones): half of the cases
	meta := []string{"none", "none", "icc", "exif+xmp"}[cs.Idx%4]
	switch meta {
	case "icc":
		o.ICC = []byte("icc-profile-odd")
	case "exif+xmp":
		o.EXIF, o.XMP = []byte("exif"), []byte("<x:xmpmeta/>")
	}
	baseSum := ev.Sum(base.Pix)
	ref, err := encode(base, o)
	if err != nil {
		c.Violate(cs, "encode-error", nil, err.Error(), nil)
		return
	}
	if ev.Sum(base.Pix) != baseSum { // the canonical placement (tight NRGBA at the origin) is a caller's image too
		c.Violate(cs, "caller-image-modified", map[string]string{"placement": "origin"}, "Encode modified the caller's pixel buffer (tightly packed *image.NRGBA at the origin)", map[string]string{"opts": optString(o)})
		return
	}
	key := func(what string) string {
		return fmt.Sprintf("%s|%s|%d,%d|L=%v|M%d|E%v|S%v|P%d|%s|%s", cc.Class, cc.Alpha, cc.W%16, cc.H%16, cc.Lossless, cc.Method, cc.Exact, cc.Sharp, cc.Prep, meta, what)
	}
	try := func(what string, m image.Image, ref []byte) {
		pix := backing(m)
		before := ev.Sum(pix)
		got, err := encode(m, o)
		c.Eval(1)
		c.Distinct(key(what))
		if err != nil {
			c.Violate(cs, "encode-error", map[string]string{"placement": what}, err.Error(), nil)
			return
		}
		if !bytes.Equal(got, ref) {
			c.Violate(cs, "storage-dependent-output", map[string]string{"placement": what, "lossless": fmt.Sprint(cc.Lossless)},
				fmt.Sprintf("placement %s: %s", what, firstByteDiff(ref, got)), map[string]string{"opts": optString(o), "ref": b64(ref), "got": b64(got)})
		}
		if ev.Sum(backing(m)) != before {
			c.Violate(cs, "caller-image-modified", map[string]string{"placement": what}, "Encode modified the caller's pixel buffer", nil)
		}
	}
	for _, how := range img.Placements {
		if how == "origin" {
			continue
		}
		pr := rng(c, cs.Idx+7<<20) // same geometry for both sentinel fills
		try(how+"/fill=00", img.Place(pr, base, how, 0x00), ref)
		if how == "offset" || how == "negorigin" || how == "subimage" || how == "subimage2" {
			// the generic At() paths with a non-zero bounds origin: same view behind an opaque wrapper
			pr = rng(c, cs.Idx+7<<20)
			try("wrapped-"+how, img.Wrapper{I: img.Place(pr, base, how, 0xa5)}, ref)
		}
		if how == "subimage" || how == "subimage2" || how == "stridepad" || how == "longpix" {
			pr = rng(c, cs.Idx+7<<20)
			try(how+"/fill=ff", img.Place(pr, base, how, 0xff), ref)
			pr = rng(c, cs.Idx+7<<20)
			try(how+"/fill=5a", img.Place(pr, base, how, 0x5a), ref)
		}
	}
	// concrete type vs the same colours behind an opaque wrapper
	tr := rng(c, cs.Idx+9<<20)
	typed := img.AsType(tr, base, cc.SrcType)
	if reflect.TypeOf(typed) != reflect.TypeOf(img.Wrapper{}) {
		tref, err := encode(typed, o)
		if err == nil {
			try("type="+cc.SrcType+"-vs-wrapper", img.Wrapper{I: typed}, tref)
		}
	}
	// the 16-bit types have no import path of their own: they are read through At(), so they must give the file of
	// their canonical 8-bit reading (the *image.NRGBA holding NRGBAModel.Convert of every pixel)
	if cc.SrcType == "NRGBA64" || cc.SrcType == "RGBA64" || cc.SrcType == "Gray16" || cc.SrcType == "Alpha16" {
		if cref, err := encode(img.ToNRGBA(typed), o); err == nil {
			try("type="+cc.SrcType+"-vs-its-8-bit-reading", typed, cref)
		}
	}
	// a concrete Go type away from the origin vs the same colours behind a wrapper (even shifts keep
	// the chroma siting of the subsampled YCbCr types)
	sh := img.AsType(rng(c, cs.Idx+9<<20), img.Shift(base, 2*(1+tr.Intn(9)), -2*(1+tr.Intn(9))), cc.SrcType)
	if reflect.TypeOf(sh) != reflect.TypeOf(img.Wrapper{}) {
		if sref, err := encode(sh, o); err == nil {
			try("shifted-type="+cc.SrcType+"-vs-wrapper", img.Wrapper{I: sh}, sref)
		}
	}
	if cs.Idx%100 == 0 {
		c.Sample(map[string]any{"case": cs.Desc, "ref_bytes": len(ref), "placements": len(img.Placements) - 1})
	}
}
