package checks

import (
	"bytes"
	"encoding/json"
	"fmt"
	"hash/fnv"
	"image"
	"math/rand"
	"os"
	"os/exec"
	"path/filepath"
	"regexp"
	"runtime"
	"sort"
	"strconv"
	"strings"
	"sync"
	"sync/atomic"
	"time"

	webp "github.com/deepteams/webp"
	"github.com/deepteams/webp/animation"
	"github.com/deepteams/webp/mux"
	"github.com/deepteams/webp/sharpyuv"

	"verif/ev"
	"verif/gen/vp8"
	"verif/gen/vp8l"
	"verif/img"
)

func init() {
	Registry["C10"] = Check{Level: "exploration", Run: runC10}
	workers["C10"] = c10Worker
}

// ---------------- trace recording (hook H3) ----------------

type traceEv struct {
	G    int64
	ID   int
	A, B int
}

type tracer struct {
	mu     sync.Mutex
	evs    []traceEv
	policy int
	ctr    atomic.Uint64
	seed   uint64
	slowG  atomic.Int64
}

func mix(x uint64) uint64 {
	x += 0x9e3779b97f4a7c15
	x = (x ^ (x >> 30)) * 0xbf58476d1ce4e5b9
	x = (x ^ (x >> 27)) * 0x94d049bb133111eb
	return x ^ (x >> 31)
}

// hook records the event, then perturbs the schedule according to the policy.
func (t *tracer) hook(id, a, b int) {
	g := gid()
	t.mu.Lock()
	t.evs = append(t.evs, traceEv{g, id, a, b})
	t.mu.Unlock()
	rnd := mix(t.seed + t.ctr.Add(1))
	switch t.policy {
	case 0: // none
	case 1: // yield with probability 1/4 everywhere
		if rnd%4 == 0 {
			runtime.Gosched()
		}
	case 2: // sleeps in the windows where a lost wake-up would live
		if id == webp.VerifPtWaitAdded || id == webp.VerifPtWaitLoop || id == webp.VerifPtSignalStore {
			time.Sleep(time.Duration(1+rnd%200) * time.Microsecond)
		}
	case 3: // starve one worker: the first goroutine that claims a row sleeps at every macroblock
		if id == webp.VerifPtRowClaim {
			t.slowG.CompareAndSwap(0, g)
		}
		if id == webp.VerifPtMBBegin && t.slowG.Load() == g {
			time.Sleep(time.Duration(20+rnd%100) * time.Microsecond)
		}
	case 4: // signaller races ahead / waiter delayed before taking the lock
		if id == webp.VerifPtWaitEnter && rnd%3 == 0 {
			time.Sleep(time.Duration(rnd%50) * time.Microsecond)
		}
		if id == webp.VerifPtSignalBcast {
			runtime.Gosched()
		}
	case 5: // heavy yield at macroblock boundaries
		if id == webp.VerifPtMBEnd || id == webp.VerifPtMBBegin {
			runtime.Gosched()
		}
	}
}

// checkTrace verifies the row protocol on one recorded trace. Returns violations.
func checkTrace(evs []traceEv, mbW, mbH int) (viol []string, stats map[string]int, sig uint64) {
	stats = map[string]int{}
	claimBy := map[int]int64{}
	endPos := map[[2]int]int{} // (x,y) -> position of MBEnd
	nextX := map[int]int{}
	lastSignal := map[int]int{}
	waitDepth := map[int64]int{}
	phaseB := -1
	var phaseG int64
	h := fnv.New64a()
	for pos, e := range evs {
		switch e.ID {
		case webp.VerifPtRowClaim:
			if _, dup := claimBy[e.A]; dup {
				viol = append(viol, fmt.Sprintf("row %d claimed twice", e.A))
			}
			claimBy[e.A] = e.G
			fmt.Fprintf(h, "c%d:%d;", e.A, e.G%97)
		case webp.VerifPtMBBegin:
			x, y := e.A, e.B
			if g, ok := claimBy[y]; !ok || g != e.G {
				viol = append(viol, fmt.Sprintf("MB (%d,%d) processed by a goroutine that did not claim row %d", x, y, y))
			}
			if nextX[y] != x {
				viol = append(viol, fmt.Sprintf("row %d: MB %d begun, expected %d", y, x, nextX[y]))
			}
			if y > 0 {
				need := min(x+1, mbW-1)
				if _, ok := endPos[[2]int{need, y - 1}]; !ok {
					viol = append(viol, fmt.Sprintf("MB (%d,%d) begun at trace position %d before MB (%d,%d) of the row above finished", x, y, pos, need, y-1))
				}
			}
		case webp.VerifPtMBEnd:
			x, y := e.A, e.B
			if nextX[y] != x {
				viol = append(viol, fmt.Sprintf("row %d: MB %d ended, expected %d", y, x, nextX[y]))
			}
			nextX[y] = x + 1
			endPos[[2]int{x, y}] = pos
		case webp.VerifPtSignalStore:
			if e.B != lastSignal[e.A]+1 || e.B > mbW {
				viol = append(viol, fmt.Sprintf("row %d: signal value %d after %d (mbW %d)", e.A, e.B, lastSignal[e.A], mbW))
			}
			lastSignal[e.A] = e.B
		case webp.VerifPtSignalBcast:
			stats["broadcasts"]++
			fmt.Fprintf(h, "b%d;", e.A)
		case webp.VerifPtWaitEnter:
			waitDepth[e.G]++
		case webp.VerifPtWaitAdded:
			stats["slow_path_waits"]++
			fmt.Fprintf(h, "w%d;", e.A)
		case webp.VerifPtWaitLoop:
			stats["cond_waits"]++
		case webp.VerifPtWaitExit:
			waitDepth[e.G]--
			if waitDepth[e.G] < 0 {
				viol = append(viol, "wait-exit without wait-enter")
			}
		case webp.VerifPtPhaseBRow:
			if e.A != phaseB+1 {
				viol = append(viol, fmt.Sprintf("phase B row %d after row %d", e.A, phaseB))
			}
			if phaseB >= 0 && phaseG != e.G {
				viol = append(viol, "phase B ran on more than one goroutine")
			}
			phaseB, phaseG = e.A, e.G
			if _, ok := endPos[[2]int{mbW - 1, e.A}]; !ok {
				viol = append(viol, fmt.Sprintf("phase B recorded row %d before its last macroblock was encoded", e.A))
			}
		}
	}
	for y := 0; y < mbH; y++ {
		if _, ok := claimBy[y]; !ok {
			viol = append(viol, fmt.Sprintf("row %d never claimed", y))
		}
		if nextX[y] != mbW {
			viol = append(viol, fmt.Sprintf("row %d: only %d of %d macroblocks encoded", y, nextX[y], mbW))
		}
		if lastSignal[y] != mbW {
			viol = append(viol, fmt.Sprintf("row %d: last signal %d, want %d", y, lastSignal[y], mbW))
		}
	}
	if phaseB != mbH-1 {
		viol = append(viol, fmt.Sprintf("phase B stopped at row %d of %d", phaseB, mbH))
	}
	for g, d := range waitDepth {
		if d != 0 {
			viol = append(viol, fmt.Sprintf("goroutine %d: %d wait-enter without wait-exit", g, d))
		}
	}
	ws := map[int64]bool{}
	for _, g := range claimBy {
		ws[g] = true
	}
	stats["workers_used"] = len(ws)
	return viol, stats, h.Sum64()
}

// ---------------- child: perturbed encodes ----------------

type c10Msg struct {
	Kind   string         `json:"kind"`
	I      int            `json:"i"`
	Class  string         `json:"class,omitempty"`
	Desc   string         `json:"desc,omitempty"`
	Detail string         `json:"detail,omitempty"`
	Stats  map[string]int `json:"stats,omitempty"`
	Sigs   []uint64       `json:"sigs,omitempty"`
	N      int            `json:"n,omitempty"`
}

func c10PerturbChild(c *ev.Ctx, shard, nsh int, out *json.Encoder) {
	n := c.N(480, 20000)
	var forcedWorkers atomic.Int64
	webp.VerifSetWorkers(func(site string, k int) int {
		if site == "lossy.encodeFrameParallel" {
			if v := forcedWorkers.Load(); v > 0 {
				return int(v)
			}
		}
		return k
	})
	total := map[string]int{}
	var sigs []uint64
	done := 0
	for i := shard; i < n; i += nsh {
		r := rng(c, i)
		mbW := []int{1, 2, 3, 8, 12}[r.Intn(5)]
		mbH := []int{4, 5, 7, 12, 20}[r.Intn(5)]
		w, h := mbW*16-r.Intn(15), mbH*16-r.Intn(15)
		m := img.Gen(r, img.Pick(r, img.Classes), pickS(r, "opaque", "opaque", "binary"), w, h)
		o := webp.DefaultOptions()
		o.Method = 3 + r.Intn(4)
		o.Quality = pickF(r, 30, 75, 90)
		o.Partitions = r.Intn(4)
		o.Segments = pickI(r, -1, 1, 2, 4)
		nw := pickI(r, 2, 2, 3, 4, 6, 6, mbH+3)
		policy := 1 + r.Intn(5)
		desc := fmt.Sprintf("%dx%d (mb %dx%d) M%d workers=%d policy=%d %s", w, h, mbW, mbH, o.Method, nw, policy, optString(o))
		// reference: one worker, no perturbation
		forcedWorkers.Store(1)
		webp.VerifSetPoint(nil)
		ref, err := encode(m, o)
		if err != nil {
			out.Encode(c10Msg{Kind: "viol", I: i, Class: "encode-error", Desc: desc, Detail: err.Error()})
			continue
		}
		tr := &tracer{policy: policy, seed: uint64(c.Seed)*7919 + uint64(i)}
		forcedWorkers.Store(int64(nw))
		webp.VerifSetPoint(tr.hook)
		got, err := encode(m, o)
		webp.VerifSetPoint(nil)
		done++
		if err != nil {
			out.Encode(c10Msg{Kind: "viol", I: i, Class: "encode-error", Desc: desc, Detail: err.Error()})
			continue
		}
		if !bytes.Equal(ref, got) {
			out.Encode(c10Msg{Kind: "viol", I: i, Class: "schedule-dependent-bytes", Desc: desc, Detail: "perturbed multi-worker encode differs from the single-worker encode: " + firstByteDiff(ref, got)})
		}
		viol, st, sig := checkTrace(tr.evs, (w+15)/16, (h+15)/16)
		for _, v := range viol {
			out.Encode(c10Msg{Kind: "viol", I: i, Class: "row-protocol", Desc: desc, Detail: v})
			break
		}
		for k, v := range st {
			total[k] += v
		}
		total["trace_events"] += len(tr.evs)
		sigs = append(sigs, sig)
	}
	out.Encode(c10Msg{Kind: "stat", N: done, Stats: total, Sigs: sigs})
}

// ---------------- child: concurrent use vs solo results ----------------

// slowWriter blocks inside Write (like a pipe or a socket), giving other goroutines the chance
// to take pooled objects while this call is still writing.
type slowWriter struct {
	buf bytes.Buffer
	n   int
}

func (s *slowWriter) Write(p []byte) (int, error) {
	s.n++
	runtime.Gosched()
	if s.n%2 == 1 {
		time.Sleep(50 * time.Microsecond)
	}
	return s.buf.Write(p)
}

type c10Op struct {
	Name string
	Run  func() string
}

func c10Ops(c *ev.Ctx) []c10Op {
	r := rng(c, 99)
	var ops []c10Op
	add := func(n string, f func() string) { ops = append(ops, c10Op{n, f}) }
	encOp := func(name string, m image.Image, o *webp.EncoderOptions) {
		add("enc/"+name, func() string {
			w := &slowWriter{}
			if err := webp.Encode(w, m, o); err != nil {
				return errDigest(err)
			}
			return ev.Sum(w.buf.Bytes())
		})
	}
	mkopt := func(f func(o *webp.EncoderOptions)) *webp.EncoderOptions { o := webp.DefaultOptions(); f(o); return o }
	// same sizes on purpose: pooled encoders / buffers are shared between concurrent calls
	for k := 0; k < 6; k++ {
		m := img.Gen(r, img.Classes[(k*3)%len(img.Classes)], pickS(r, "opaque", "gradient"), 96, 96)
		encOp(fmt.Sprintf("lossless/96x96/%d", k), m, mkopt(func(o *webp.EncoderOptions) { o.Lossless = true; o.Method = 2 + k%4 }))
		encOp(fmt.Sprintf("lossy/96x96/%d", k), m, mkopt(func(o *webp.EncoderOptions) { o.Method = 3 + k%4; o.Partitions = k % 4 }))
	}
	for k := 0; k < 3; k++ {
		m := img.Gen(r, "tiles", "opaque", 200, 150)
		encOp(fmt.Sprintf("lossy/200x150/%d", k), m, mkopt(func(o *webp.EncoderOptions) { o.Method = 4 + k }))
		if k == 0 {
			encOp("lossless/200x150", m, mkopt(func(o *webp.EncoderOptions) { o.Lossless = true }))
		}
	}
	files := stillCorpus(r, 14, 64)
	for _, f := range files {
		d := f.Data
		add("dec/"+f.Name, func() string {
			m, err := decode(d)
			if err != nil {
				return errDigest(err)
			}
			return imgDigest(m)
		})
		add("cfg/"+f.Name, func() string {
			cfg, err := webp.DecodeConfig(bytes.NewReader(d))
			ft, err2 := webp.GetFeatures(bytes.NewReader(d))
			if err != nil || err2 != nil {
				return fmt.Sprint(err, err2)
			}
			return fmt.Sprintf("%dx%d %+v", cfg.Width, cfg.Height, *ft)
		})
	}
	// error paths next to good decodes: a lossy picture whose VP8 data is fine but whose ALPH chunk is rejected, cut
	// streams; and wide lossy+alpha pictures (> 2048 columns: the upsampler leaves its on-stack scratch)
	decOp := func(name string, d []byte) {
		add("dec/"+name, func() string {
			m, err := decode(d)
			if err != nil {
				return errDigest(err)
			}
			return imgDigest(m)
		})
	}
	for k := 0; k < 2; k++ {
		wide, _ := encode(img.Gen(r, pickS(r, "photo", "tiles"), pickS(r, "gradient", "noise"), 2100+200*k+r.Intn(90), 33+r.Intn(30)), mkopt(func(o *webp.EncoderOptions) { o.Method = 1 }))
		decOp(fmt.Sprintf("wide-lossy+alpha/%d", k), wide)
		la, _ := encode(img.Gen(r, "photo", "gradient", 40+r.Intn(40), 40+r.Intn(40)), mkopt(func(o *webp.EncoderOptions) {}))
		if ch := riffChunks(la); ch["ALPH"] != nil && ch["VP8 "] != nil && ch["VP8X"] != nil {
			bad := append([]byte{}, ch["ALPH"]...)
			if k == 0 {
				bad[0] = bad[0]&^3 | 3 // unknown alpha compression method
			} else {
				bad = bad[:1+len(bad)/3] // alpha data ends early
			}
			decOp(fmt.Sprintf("bad-alph/%d", k), riffWrap(chunk("VP8X", ch["VP8X"]), chunk("ALPH", bad), chunk("VP8 ", ch["VP8 "])))
			decOp(fmt.Sprintf("cut-vp8/%d", k), riffWrap(chunk("VP8X", ch["VP8X"]), chunk("ALPH", ch["ALPH"]), chunk("VP8 ", ch["VP8 "][:len(ch["VP8 "])*(1+k)/3])))
		}
	}
	for k := 0; k < 2; k++ {
		if d := badFramesAnim(r); d != nil {
			add(fmt.Sprintf("anim-badframes/%d", k), func() string {
				an, err := animation.DecodeBytes(d)
				if err != nil {
					return errDigest(err)
				}
				e1 := an.DecodeFramesParallel()
				got := ""
				for i := range an.Frames {
					if an.Frames[i].HasImage() {
						got += fmt.Sprint(i, ",")
					}
				}
				return errDigest(e1) + " decoded=" + got
			})
		}
	}
	anims := animCorpus(r, 4, 40)
	for _, f := range anims {
		d := f.Data
		add("anim-play/"+f.Name, func() string {
			an, err := animation.DecodeBytes(d)
			if err != nil {
				return errDigest(err)
			}
			if err := an.DecodeFramesParallel(); err != nil {
				return errDigest(err)
			}
			dec, err := animation.NewAnimDecoder(an)
			if err != nil {
				return errDigest(err)
			}
			var all []byte
			for dec.HasNext() {
				fr, _, err := dec.NextFrame()
				if err != nil {
					return errDigest(err)
				}
				all = append(all, fr.Pix...)
			}
			return ev.Sum(all)
		})
	}
	frames := []*image.NRGBA{img.Gen(r, "photo", "binary", 48, 40)}
	for k := 0; k < 3; k++ {
		n := image.NewNRGBA(frames[k].Rect)
		copy(n.Pix, frames[k].Pix)
		for j := 0; j < 60; j++ {
			n.Pix[n.PixOffset(4+j%30, 5+k*6)] ^= 0x3f
		}
		frames = append(frames, n)
	}
	for _, ll := range []bool{true, false} {
		lossless := ll
		add(fmt.Sprintf("anim-enc/lossless=%v", lossless), func() string {
			w := &slowWriter{}
			e := animation.NewEncoder(w, 48, 40, &animation.EncodeOptions{Lossless: lossless, Quality: 60})
			for _, f := range frames {
				if err := e.AddFrame(f, 30*time.Millisecond); err != nil {
					return errDigest(err)
				}
			}
			if err := e.Close(); err != nil {
				return errDigest(err)
			}
			return ev.Sum(w.buf.Bytes())
		})
	}
	if len(files) >= 2 {
		a, b := riffChunks(files[1].Data), riffChunks(files[0].Data)
		add("mux", func() string {
			m := mux.NewMuxer()
			for _, ch := range []map[string][]byte{a, b} {
				if p, ok := ch["VP8L"]; ok {
					m.AddFrame(p, &mux.FrameOptions{Duration: 10})
				} else if p, ok := ch["VP8 "]; ok {
					m.AddFrame(p, &mux.FrameOptions{Duration: 10})
				}
			}
			w := &slowWriter{}
			if err := m.Assemble(w); err != nil {
				return errDigest(err)
			}
			d, err := mux.NewDemuxer(w.buf.Bytes())
			if err != nil {
				return errDigest(err)
			}
			return ev.Sum(w.buf.Bytes()) + fmt.Sprint(d.NumFrames())
		})
	}
	return ops
}

func c10StressChild(c *ev.Ctx, rounds int, out *json.Encoder) {
	ops := c10Ops(c)
	solo := make([]string, len(ops))
	for i, o := range ops {
		solo[i] = o.Run()
	}
	// solo must be reproducible to begin with
	for i, o := range ops {
		if d := o.Run(); d != solo[i] {
			out.Encode(c10Msg{Kind: "viol", I: i, Class: "solo-not-reproducible", Desc: o.Name, Detail: d + " vs " + solo[i]})
		}
	}
	total := 0
	for round := 0; round < rounds; round++ {
		ng := []int{4, 8, 16, 32, 64}[round%5]
		var wg sync.WaitGroup
		var mism sync.Map
		var cnt atomic.Int64
		for g := 0; g < ng; g++ {
			wg.Add(1)
			go func(g int) {
				defer wg.Done()
				r := rand.New(rand.NewSource(c.Seed*1009 + int64(round)*131 + int64(g)))
				perm := r.Perm(len(ops))
				if ng >= 32 {
					perm = perm[:len(perm)/3]
				}
				for _, k := range perm {
					d := ops[k].Run()
					cnt.Add(1)
					if d != solo[k] {
						mism.LoadOrStore(k, d)
					}
				}
			}(g)
		}
		wg.Wait()
		total += int(cnt.Load())
		mism.Range(func(k, v any) bool {
			i := k.(int)
			out.Encode(c10Msg{Kind: "viol", I: i, Class: "concurrent-differs-from-solo", Desc: ops[i].Name, Detail: fmt.Sprintf("with %d goroutines: %q, alone: %q", ng, v.(string), solo[i])})
			return true
		})
	}
	out.Encode(c10Msg{Kind: "stat", N: total, Stats: map[string]int{"ops": len(ops), "rounds": rounds}})
}


// ---------------- child: the coders' own parallel sections ----------------

// c10PsecChild drives every internal parallel section (hash chain fill, predictor tiles, histogram
// cost + remap, inverse transforms, ARGB conversion, lossy import / analysis / row pipeline, parallel
// frame decoding) with inputs above each section's size threshold, under several worker counts and
// with a few calls in flight at once on different pictures (so pooled scratch changes hands). Every
// result must equal the one-worker solo result; the worker hook records which sections actually ran.
func c10PsecChild(c *ev.Ctx, out *json.Encoder) {
	r := rng(c, 4242)
	var forced atomic.Int64
	var mu sync.Mutex
	sites := map[string]int{}
	webp.VerifSetWorkers(func(site string, k int) int {
		mu.Lock()
		sites[site]++
		mu.Unlock()
		if v := forced.Load(); v > 0 {
			return int(v)
		}
		return k
	})
	type op struct {
		name string
		run  func() string
	}
	var ops []op
	mkopt := func(f func(o *webp.EncoderOptions)) *webp.EncoderOptions { o := webp.DefaultOptions(); f(o); return o }
	enc := func(name string, m image.Image, o *webp.EncoderOptions) []byte {
		ops = append(ops, op{"enc/" + name, func() string {
			b, err := encode(m, o)
			if err != nil {
				return errDigest(err)
			}
			return ev.Sum(b)
		}})
		b, _ := encode(m, o)
		return b
	}
	dec := func(name string, file []byte) {
		ops = append(ops, op{"dec/" + name, func() string {
			m, err := decode(file)
			if err != nil {
				return errDigest(err)
			}
			return imgDigest(m)
		}})
	}
	forced.Store(1)
	f1 := enc("lossless/bands-400x260-q95", img.Gen(r, "bands", "opaque", 400, 260), mkopt(func(o *webp.EncoderOptions) { o.Lossless = true; o.Quality = 95; o.Method = 4 }))
	f2 := enc("lossless/pillarbox-330x310-q90", img.Gen(r, "pillarbox", "gradient", 330, 310), mkopt(func(o *webp.EncoderOptions) { o.Lossless = true; o.Quality = 90; o.Method = 3 }))
	f3 := enc("lossless/photo-350x300-q92", img.Gen(r, "photo", "noise", 350, 300), mkopt(func(o *webp.EncoderOptions) { o.Lossless = true; o.Quality = 92; o.Method = 2; o.Exact = true }))
	enc("lossless/flatpatch-512x200-q99", img.Gen(r, "flatpatch", "opaque", 512, 200), mkopt(func(o *webp.EncoderOptions) { o.Lossless = true; o.Quality = 99; o.Method = 4 }))
	// two pictures of one size whose empty entropy tiles lie elsewhere: pooled scratch changes hands between them
	enc("lossless/stripflat-512x256-a", img.Gen(r, "stripflat", "opaque", 512, 256), mkopt(func(o *webp.EncoderOptions) { o.Lossless = true; o.Quality = 95; o.Method = 4 }))
	enc("lossless/stripflat-512x256-b", img.Gen(r, "stripflat", "opaque", 512, 256), mkopt(func(o *webp.EncoderOptions) { o.Lossless = true; o.Quality = 95; o.Method = 4 }))
	enc("lossless/tiles-420x250-q75", img.Gen(r, "tiles", "binary", 420, 250), mkopt(func(o *webp.EncoderOptions) { o.Lossless = true }))
	f4 := enc("lossy/photo-640x480", img.Gen(r, "photo", "opaque", 640, 480), mkopt(func(o *webp.EncoderOptions) { o.Method = 4 }))
	f5 := enc("lossy+alpha/tiles-500x300", img.Gen(r, "tiles", "gradient", 500, 300), mkopt(func(o *webp.EncoderOptions) { o.Method = 3; o.Partitions = 2 }))
	enc("lossy/ycbcr-640x400", img.AsType(r, img.Gen(r, "gradient", "opaque", 640, 400), "YCbCr"), mkopt(func(o *webp.EncoderOptions) { o.Method = 5 }))
	dec("lossless/bands", f1)
	dec("lossless/pillarbox", f2)
	dec("lossless/photo", f3)
	dec("lossy/photo", f4)
	dec("lossy+alpha/tiles", f5)
	solo := make([]string, len(ops))
	for i, o := range ops {
		solo[i] = o.run()
	}
	total := 0
	counts := []int64{3, 16}
	if c.Thorough() {
		counts = []int64{2, 3, 4, 5, 7, 11, 16, 33, 0}
	}
	for round, k := range counts {
		forced.Store(k) // 0 = whatever GOMAXPROCS gives
		var wg sync.WaitGroup
		var mism sync.Map
		for g := 0; g < 3; g++ {
			wg.Add(1)
			go func(g int) {
				defer wg.Done()
				pr := rand.New(rand.NewSource(c.Seed*77 + int64(round)*13 + int64(g)))
				for _, i := range pr.Perm(len(ops)) {
					if d := ops[i].run(); d != solo[i] {
						mism.LoadOrStore(i, d)
					}
				}
			}(g)
		}
		wg.Wait()
		total += 3 * len(ops)
		mism.Range(func(key, v any) bool {
			i := key.(int)
			out.Encode(c10Msg{Kind: "viol", I: i, Class: "worker-count-or-schedule-dependent", Desc: ops[i].name,
				Detail: fmt.Sprintf("with %d internal workers and 3 calls in flight: %q, one worker alone: %q", k, v.(string), solo[i])})
			return true
		})
	}
	st := map[string]int{"psec_ops": len(ops)}
	mu.Lock()
	for k, v := range sites {
		st["section:"+k] = v
	}
	mu.Unlock()
	out.Encode(c10Msg{Kind: "stat", N: total, Stats: st})
}

// c10Worker: worker C10 <seed> <tier> perturb <shard> <nshards> | stress <rounds> | psec
func c10Worker(args []string) int {
	if len(args) < 3 {
		return 2
	}
	os.Setenv("VERIF_SEED", args[0])
	c := ev.New("C10", args[1], "exploration")
	out := json.NewEncoder(os.Stdout)
	switch args[2] {
	case "perturb":
		s, _ := strconv.Atoi(args[3])
		n, _ := strconv.Atoi(args[4])
		c10PerturbChild(c, s, n, out)
	case "stress":
		r, _ := strconv.Atoi(args[3])
		c10StressChild(c, r, out)
	case "psec":
		c10PsecChild(c, out)
	case "cold":
		k, _ := strconv.Atoi(args[3])
		c10ColdChild(c, k, out)
	}
	return 0
}

// ---------------- child: cold start ----------------
//
// Every other child computes its solo references first, so whatever the library initialises lazily (lookup tables
// behind sync.Once, pools, dispatch tables) is warm before the first concurrent call. Here the very first library
// calls of a fresh process are concurrent: eight goroutines are released together into the same operation, and each
// result must equal the one the operation gives afterwards, alone. Nothing of the library runs while the operations
// are set up: pictures come from the harness's generators, streams from its synthesizers.
func c10ColdOps(c *ev.Ctx) []c10Op {
	r := rng(c, 4242)
	var ops []c10Op
	add := func(n string, f func() string) { ops = append(ops, c10Op{n, f}) }
	enc := func(name string, m image.Image, f func(o *webp.EncoderOptions)) {
		add("enc/"+name, func() string {
			o := webp.DefaultOptions()
			f(o)
			var b bytes.Buffer
			if err := webp.Encode(&b, m, o); err != nil {
				return errDigest(err)
			}
			return ev.Sum(b.Bytes())
		})
	}
	photo := img.Gen(r, "photo", "opaque", 96, 64)
	trans := img.Gen(r, "tiles", "gradient", 80, 72)
	enc("lossy-sharpyuv", photo, func(o *webp.EncoderOptions) { o.UseSharpYUV = true })
	enc("lossy-default", photo, func(o *webp.EncoderOptions) {})
	enc("lossy-alpha", trans, func(o *webp.EncoderOptions) { o.AlphaFiltering = 2 })
	enc("lossless", trans, func(o *webp.EncoderOptions) { o.Lossless = true })
	enc("lossy-dither-m6", photo, func(o *webp.EncoderOptions) { o.Preprocessing = 2; o.Method = 6 })
	rgb := make([]byte, 64*48*3)
	r.Read(rgb)
	add("sharpyuv/Convert", func() string {
		y := image.NewYCbCr(image.Rect(0, 0, 64, 48), image.YCbCrSubsampleRatio420)
		if err := sharpyuv.Convert(rgb, 64, 48, 64*3, y, sharpyuv.DefaultOptions()); err != nil {
			return errDigest(err)
		}
		return ev.Sum(y.Y) + ev.Sum(y.Cb) + ev.Sum(y.Cr)
	})
	add("sharpyuv/gamma", func() string {
		var b []byte
		for v := uint32(0); v < 1<<16; v += 97 {
			g := sharpyuv.LinearToGamma(v, 10, sharpyuv.TransferSRGB)
			l := sharpyuv.GammaToLinear(uint16(v>>6), 10, sharpyuv.TransferSRGB)
			b = append(b, byte(g), byte(g>>8), byte(l), byte(l>>8), byte(l>>16))
		}
		return ev.Sum(b)
	})
	vp, _ := vp8.Synthesize(r, vp8.Params{W: 72, H: 56})
	vfile := vp8.WrapRIFF(vp)
	lp := vp8l.DefaultParams()
	lp.W, lp.H = 61, 47
	vl, _ := vp8l.Synthesize(r, lp)
	lfile := vp8l.WrapRIFF(vl)
	alph, _ := c04ALPH(r, 72, 56)
	afile := riffWrap(vp8xChunk(0x10, 72, 56), chunk("ALPH", alph), chunk("VP8 ", vp))
	for _, f := range []struct {
		n string
		d []byte
	}{{"synth-vp8", vfile}, {"synth-vp8l", lfile}, {"synth-vp8+alph", afile}} {
		f := f
		add("dec/"+f.n, func() string {
			m, err := webp.Decode(bytes.NewReader(f.d))
			if err != nil {
				return errDigest(err)
			}
			return imgDigest(m)
		})
	}
	add("anim/encode+play", func() string {
		var b bytes.Buffer
		e := animation.NewEncoder(&b, 80, 72, &animation.EncodeOptions{Quality: 60, AllowMixed: true})
		for k := 0; k < 3; k++ {
			n := image.NewNRGBA(trans.Rect)
			copy(n.Pix, trans.Pix)
			for j := 0; j < 30; j++ {
				n.Pix[n.PixOffset(3+j, 5+k)] ^= 0x55
			}
			if err := e.AddFrame(n, 30*time.Millisecond); err != nil {
				return errDigest(err)
			}
		}
		if err := e.Close(); err != nil {
			return errDigest(err)
		}
		p, err := c15Pixels(b.Bytes(), true)
		if err != nil {
			return errDigest(err)
		}
		return ev.Sum(b.Bytes()) + ev.Sum(p)
	})
	return ops
}

func c10ColdChild(c *ev.Ctx, k int, out *json.Encoder) {
	ops := c10ColdOps(c)
	op := ops[k%len(ops)]
	const ng = 8
	res := make([]string, ng)
	var ready, done sync.WaitGroup
	start := make(chan struct{})
	for g := 0; g < ng; g++ {
		ready.Add(1)
		done.Add(1)
		go func(g int) {
			defer done.Done()
			ready.Done()
			<-start
			res[g] = op.Run()
		}(g)
	}
	ready.Wait()
	close(start)
	done.Wait()
	solo := op.Run()
	for g := 0; g < ng; g++ {
		if res[g] != solo {
			out.Encode(c10Msg{Kind: "viol", I: k, Class: "concurrent-differs-from-solo", Desc: "cold start " + op.Name,
				Detail: fmt.Sprintf("first calls of the process, %d goroutines at once: goroutine %d got %q, the same call alone afterwards: %q", ng, g, res[g], solo)})
			break
		}
	}
	out.Encode(c10Msg{Kind: "stat", N: ng, Stats: map[string]int{"cold_starts": 1, "cold_start:" + op.Name: 1}})
}

// ---------------- parent ----------------

var raceBlockRE = regexp.MustCompile(`(?s)WARNING: DATA RACE.*?==================`)

func runC10(c *ev.Ctx) {
	c.Rule = "(a) the stress mix (Encode lossy/lossless into blocking writers, Decode, DecodeConfig, GetFeatures, AnimEncoder cycles, DecodeFramesParallel+playback, Muxer+Demuxer; equal sizes so " +
		"pools collide; 4..64 goroutines) runs in a -race build, every DATA RACE report with a repository frame is a violation; (b) each concurrent result must equal the solo result; " +
		"(c) multi-worker lossy encodes under seeded schedule perturbation at the hooked sync points (yield / sleep in the lost-wake-up windows / starved worker) must equal the single-worker " +
		"bytes; (d) offline checker over the recorded event trace: rows claimed once, macroblocks in order by the claiming goroutine, MB(x,y) only after MB(min(x+1,mbW-1),y-1), signals " +
		"1..mbW in order, phase B row y only after row y is complete, waits balanced; (e) deadlock = Go's all-goroutines-asleep fatal or a watchdog QUIT dump parked in rowSync.waitFor; " +
		"(f) the coders' own parallel sections (hash chain, predictor tiles, histogram cost/remap, inverse transforms, ARGB conversion, lossy import/analysis/row pipeline) driven above their size " +
		"thresholds with forced worker counts and 3 calls in flight on different pictures, std and -race builds: result == one-worker solo result, sections actually entered are counted by the worker hook; " +
		"(g) cold starts: fresh processes whose first library calls are 8 goroutines released together into one operation (11 operations incl. sharp-YUV, dithering, alpha, the sharpyuv package, synthesized streams), each result == the same call alone afterwards, std and -race builds; " +
		"distinct = distinct interleaving signatures (hash of claim/wait/broadcast order)"
	exe := os.Getenv("VERIF_EXE")
	raceExe := os.Getenv("VERIF_EXE_RACE")
	if exe == "" {
		exe, _ = os.Executable()
	}
	seed := strconv.FormatInt(c.Seed, 10)
	run := func(exe string, env []string, timeout time.Duration, args ...string) (msgs []c10Msg, stderr string, err error) {
		cmd := exec.Command(exe, append([]string{"worker", "C10", seed, c.Tier}, args...)...)
		cmd.Env = append(os.Environ(), env...)
		var so, se bytes.Buffer
		cmd.Stdout, cmd.Stderr = &so, &se
		if err = cmd.Start(); err != nil {
			return nil, "", err
		}
		doneCh := make(chan error, 1)
		go func() { doneCh <- cmd.Wait() }()
		select {
		case err = <-doneCh:
		case <-time.After(timeout):
			cmd.Process.Signal(syscallQuit) // goroutine dump on stderr
			select {
			case <-doneCh:
			case <-time.After(10 * time.Second):
				cmd.Process.Kill()
				<-doneCh
			}
			err = fmt.Errorf("watchdog: no completion within %v", timeout)
			// keep the goroutine dump: it is the witness of a deadlock verdict (or shows why there is none)
			dir := filepath.Join(ev.OutDir(), "replays", "C10")
			os.MkdirAll(dir, 0o755)
			os.WriteFile(filepath.Join(dir, fmt.Sprintf("watchdog-dump-%s.txt", strings.Join(args, "-"))), se.Bytes(), 0o644)
		}
		for _, l := range strings.Split(so.String(), "\n") {
			var m c10Msg
			if json.Unmarshal([]byte(l), &m) == nil && m.Kind != "" {
				msgs = append(msgs, m)
			}
		}
		return msgs, se.String(), err
	}
	var mu sync.Mutex
	stats := map[string]int{}
	sigSet := map[uint64]bool{}
	handle := func(what string, msgs []c10Msg, stderr string, err error) {
		gotStat := false
		for _, m := range msgs {
			switch m.Kind {
			case "viol":
				c.Violate(ev.Case{Idx: m.I, Desc: what + ": " + m.Desc}, m.Class, map[string]string{"part": what}, m.Detail, nil)
			case "stat":
				gotStat = true
				c.Eval(m.N)
				mu.Lock()
				for k, v := range m.Stats {
					stats[what+"_"+k] += v
				}
				for _, s := range m.Sigs {
					sigSet[s] = true
				}
				mu.Unlock()
			}
		}
		if err != nil || !gotStat {
			cls := "child-died"
			switch {
			case strings.Contains(stderr, "all goroutines are asleep"):
				cls = "deadlock"
			case err != nil && strings.HasPrefix(err.Error(), "watchdog") && !parkedForMinutes(stderr):
				// the wall-clock watchdog alone is never a verdict: without goroutines parked in the
				// row synchronisation this is a slow machine, not a lost wake-up
				c.Inconclusive("watchdog-fired-without-parked-row-waiters:" + what)
				return
			case parkedForMinutes(stderr):
				cls = "deadlock"
			case strings.Contains(stderr, "fatal error: concurrent map") || strings.Contains(stderr, "fatal error:"):
				cls = "fatal-error"
			case strings.Contains(stderr, "panic:"):
				cls = "panic"
			}
			c.Violate(ev.Case{Idx: 0, Desc: what}, cls, map[string]string{"part": what}, fmt.Sprintf("%v; stderr tail: %s", err, trimTail(stderr, 3000)), nil)
		}
	}
	var wg sync.WaitGroup
	// (c)+(d)+(e): perturbed encodes, std build, sharded
	nsh := max(4, runtime.NumCPU()/2)
	for s := 0; s < nsh; s++ {
		wg.Add(1)
		go func(s int) {
			defer wg.Done()
			msgs, se, err := run(exe, []string{"GOMAXPROCS=8"}, time.Duration(c.N(200, 2400))*time.Second, "perturb", strconv.Itoa(s), strconv.Itoa(nsh))
			handle("perturb", msgs, se, err)
		}(s)
	}
	// (b): stress, std build
	wg.Add(1)
	go func() {
		defer wg.Done()
		msgs, se, err := run(exe, nil, time.Duration(c.N(200, 3000))*time.Second, "stress", strconv.Itoa(c.N(10, 200)))
		handle("stress", msgs, se, err)
	}()
	// parallel sections, std build
	wg.Add(1)
	go func() {
		defer wg.Done()
		msgs, se, err := run(exe, nil, time.Duration(c.N(300, 3000))*time.Second, "psec")
		handle("psec", msgs, se, err)
	}()
	wg.Wait()
	// (g): cold starts, std build (short processes, four at a time)
	nCold := len(c10ColdOps(c))
	{
		sem := make(chan struct{}, 4)
		var cwg sync.WaitGroup
		for rep := 0; rep < c.N(2, 12); rep++ {
			for k := 0; k < nCold; k++ {
				cwg.Add(1)
				sem <- struct{}{}
				go func(k int) {
					defer cwg.Done()
					defer func() { <-sem }()
					msgs, se, err := run(exe, nil, 300*time.Second, "cold", strconv.Itoa(k))
					handle("cold", msgs, se, err)
				}(k)
			}
		}
		cwg.Wait()
	}
	// (a): race build (on an otherwise idle machine)
	if raceExe == "" {
		c.Fatal("race-detector build not available (VERIF_EXE_RACE unset)")
	} else {
		dir, _ := os.MkdirTemp("", "verif-c10-race-")
		defer os.RemoveAll(dir)
		logp := filepath.Join(dir, "race.log")
		// the parallel-sections child runs next to the stress and perturbation children (8 + 8 cores)
		var rwg sync.WaitGroup
		rwg.Add(1)
		go func() {
			defer rwg.Done()
			msgs, se, err := run(raceExe, []string{"GORACE=halt_on_error=0 log_path=" + logp, "GOMAXPROCS=8"}, time.Duration(c.N(900, 7200))*time.Second, "psec")
			handle("race-psec", msgs, se, err)
		}()
		msgs, se, err := run(raceExe, []string{"GORACE=halt_on_error=0 log_path=" + logp}, time.Duration(c.N(300, 3600))*time.Second, "stress", strconv.Itoa(c.N(3, 40)))
		handle("race-stress", msgs, se, err)
		nsRace := 2
		for s := 0; s < nsRace; s++ {
			msgs, se, err = run(raceExe, []string{"GORACE=halt_on_error=0 log_path=" + logp, "GOMAXPROCS=8"}, time.Duration(c.N(300, 3600))*time.Second, "perturb", strconv.Itoa(s), strconv.Itoa(nsh*c.N(4, 2)))
			handle("race-perturb", msgs, se, err)
		}
		rwg.Wait()
		for rep := 0; rep < c.N(1, 4); rep++ { // cold starts under the race detector: an unsynchronised lazy initialisation is a report
			for k := 0; k < nCold; k++ {
				msgs, se, err = run(raceExe, []string{"GORACE=halt_on_error=0 log_path=" + logp}, 300*time.Second, "cold", strconv.Itoa(k))
				handle("race-cold", msgs, se, err)
			}
		}
		logs, _ := filepath.Glob(logp + ".*")
		reports := 0
		seen := map[string]bool{}
		for _, lf := range logs {
			b, _ := os.ReadFile(lf)
			for _, blk := range raceBlockRE.FindAllString(string(b), -1) {
				reports++
				var frames []string
				for _, l := range strings.Split(blk, "\n") {
					l = strings.TrimSpace(l)
					if strings.HasPrefix(l, "github.com/deepteams/webp") {
						if j := strings.Index(l, "("); j > 0 {
							l = l[:j]
						}
						frames = append(frames, l)
					}
				}
				if len(frames) == 0 {
					c.Count("race_reports_without_repository_frames", 1)
					continue
				}
				key := frames[0]
				if len(frames) > 1 {
					key += " / " + frames[len(frames)-1]
				}
				if !seen[key] {
					seen[key] = true
					c.Violate(ev.Case{Idx: len(seen), Desc: "race detector"}, "data-race", map[string]string{"frames": key}, trimTail2(blk, 3500), nil)
				}
			}
		}
		stats["race_reports"] = reports
		stats["race_log_files"] = len(logs)
	}
	for s := range sigSet {
		c.Distinct(fmt.Sprintf("%x", s))
	}
	keys := make([]string, 0, len(stats))
	for k := range stats {
		keys = append(keys, k)
	}
	sort.Strings(keys)
	c.Extra("observed", stats)
	c.Extra("distinct_interleaving_signatures", len(sigSet))
	c.Sample(map[string]any{"perturbation_policies": []string{"yield p=1/4", "sleep 1-200us at waiters.Add / before cond.Wait / after done.Store", "starve first worker", "delay waiter + yield before Broadcast", "yield at every MB boundary"},
		"example_trace_rule": "MBBegin(x,y) requires an earlier MBEnd(min(x+1,mbW-1), y-1)"})
}

var parkedRE = regexp.MustCompile(`goroutine \d+ [^\[\n]*\[sync\.Cond\.Wait, \d+ minutes\]:\n(?:.+\n){0,14}?.*rowSync\)\.waitFor`)

// parkedForMinutes: the QUIT dump shows a goroutine that has been parked in the row wait for at least a
// minute (the runtime prints the wait time). A live encode never waits that long for a neighbour row, so
// this - not the wall-clock watchdog itself - is what makes a hung child a lost wake-up.
func parkedForMinutes(dump string) bool { return parkedRE.MatchString(dump) }
