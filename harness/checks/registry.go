// Package checks holds one monitor per property.
package checks

import "verif/ev"

// Check is a registered property monitor.
type Check struct {
	Level string
	Run   func(c *ev.Ctx)
}

// Registry maps property ids to monitors.
var Registry = map[string]Check{}

// workers maps property ids to child-process entry points (vcheck worker <id> ...).
var workers = map[string]func(args []string) int{}

// Worker dispatches child mode.
func Worker(args []string) int {
	if len(args) == 0 {
		return 2
	}
	if f, ok := workers[args[0]]; ok {
		return f(args[1:])
	}
	return 2
}
