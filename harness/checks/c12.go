package checks

import (
	"sync/atomic"
	"bufio"
	"bytes"
	"encoding/json"
	"fmt"
	"image"
	"os"
	"os/exec"
	"runtime"
	"sort"
	"strconv"
	"strings"
	"time"

	webp "github.com/deepteams/webp"
	"github.com/deepteams/webp/animation"

	"verif/ev"
	"verif/img"
	"verif/lw"
)

func init() {
	Registry["C12"] = Check{Level: "exploration", Run: runC12}
	workers["C12"] = c12Worker
}

type c12Case struct {
	Kind    string // lossy, lossless, dec-lossless, dec-lossy, anim
	Class   string
	Alpha   string
	W, H    int
	Method  int
	Quality float32
	Extra   int
}

// c12Cases is a pure function of (seed, tier) so that parent and children agree.
func c12Cases(c *ev.Ctx) []c12Case {
	var out []c12Case
	n := c.N(48, 1500)
	classes := []string{"tiles", "photo", "bands", "gradient", "noise", "pillarbox", "pal16", "checker", "pal256", "tiles", "bands"}
	for i := 0; i < n; i++ {
		r := rng(c, i)
		cc := c12Case{Class: classes[i%len(classes)], Alpha: pickS(r, "opaque", "opaque", "binary", "gradient")}
		switch i % 6 {
		case 0, 1: // lossy above / around the row-parallel threshold (>= 4 MB rows, method >= 3)
			cc.Kind = "lossy"
			cc.Method = (i / 6) % 7
			cc.W = 33 + r.Intn(300)
			cc.H = []int{48, 63, 64, 65, 80, 128, 200, 333}[r.Intn(8)]
			cc.Quality = pickF(r, 30, 75, 90)
			cc.Extra = r.Intn(4) // partitions
		case 2, 3: // lossless above / below the 50 000-pixel and tile-count thresholds
			cc.Kind = "lossless"
			cc.Method = (i / 6) % 7
			cc.Quality = pickF(r, 25, 75, 100)
			if r.Intn(4) == 0 {
				cc.W, cc.H = 150+r.Intn(60), 150+r.Intn(60) // below
			} else {
				cc.W, cc.H = 230+r.Intn(300), 220+r.Intn(200)
			}
			if !c.Thorough() && cc.Method >= 5 && cc.Quality >= 100 {
				cc.W, cc.H = min(cc.W, 300), min(cc.H, 240)
			}
		case 4: // decode of foreign (libwebp-written) files: decoder-side parallel sections
			cc.Kind = pickS(r, "dec-lossless", "dec-lossless", "dec-lossy")
			cc.W, cc.H = 300+r.Intn(400), 300+r.Intn(300)
			cc.Method = r.Intn(7)
			cc.Quality = pickF(r, 50, 75, 100)
		case 5:
			cc.Kind = "anim"
			cc.W, cc.H = 40+r.Intn(80), 40+r.Intn(80)
			cc.Extra = 3 + r.Intn(6) // frames
			cc.Method = r.Intn(2)    // lossless?
		}
		out = append(out, cc)
	}
	// long copy runs next to busy content at high Quality: histogram tiles without any token start,
	// clusters > 1, >= 64 tiles (tile-to-worker chunk boundaries matter here)
	for k := 0; k < c.N(6, 40); k++ {
		r := rng(c, 5000+k)
		out = append(out, c12Case{Kind: "lossless", Class: []string{"bands", "pillarbox", "bands"}[k%3], Alpha: "opaque",
			W: 300 + r.Intn(240), H: 240 + r.Intn(170), Method: 3 + k%4, Quality: []float32{100, 90, 95}[k%3]})
	}
	for k := 0; k < c.N(3, 30); k++ {
		out = append(out, c12Case{Kind: "animbad", Class: "-", Alpha: "-", Extra: k})
	}
	// the alpha plane coder of the lossy encoder: planes of 4096 pixels and more, every filtering level and both
	// compression methods, content on which several filter trials end with the same size (noise: every trial falls
	// back to the raw plane; ramps and flat levels: several filters leave the same residue)
	for k := 0; k < c.N(18, 180); k++ {
		r := rng(c, 7000+k)
		out = append(out, c12Case{Kind: "lossy-alpha", Class: pickS(r, "flat", "photo", "tiles"),
			Alpha: []string{"noise", "gradient", "levels3", "blocks", "noise", "levels16"}[k%6],
			W:     64 + r.Intn(100), H: 64 + r.Intn(60), Method: []int{4, 0, 6, 2}[k%4], Quality: 75, Extra: k})
	}
	return out
}

func c12Digest(c *ev.Ctx, idx int, cc c12Case) (string, error) {
	r := rng(c, idx+1<<20)
	switch cc.Kind {
	case "lossy-alpha":
		m := img.Gen(r, cc.Class, cc.Alpha, cc.W, cc.H)
		o := webp.DefaultOptions()
		o.Method, o.Quality = cc.Method, cc.Quality
		o.AlphaFiltering = []int{2, 1, 2, 0, 2, 1}[cc.Extra%6]
		o.AlphaCompression = []int{1, 1, 1, 0}[(cc.Extra/6)%4]
		o.AlphaQuality = []int{100, 100, 60, 0}[(cc.Extra/3)%4]
		data, err := encode(m, o)
		if err != nil {
			return "", err
		}
		return "enc=" + ev.Sum(data) + " alph=" + ev.Sum(riffChunks(data)["ALPH"]), nil
	case "lossy", "lossless":
		m := img.Gen(r, cc.Class, cc.Alpha, cc.W, cc.H)
		o := webp.DefaultOptions()
		o.Lossless = cc.Kind == "lossless"
		o.Method, o.Quality = cc.Method, cc.Quality
		var src image.Image = m
		if cc.Kind == "lossy" {
			o.Partitions = cc.Extra
			// every second lossy case: the remaining options (dithering, sharp YUV, segments, SNS, filters, rate
			// control, alpha settings, Exact) drawn from their legal values and the source handed over as another
			// Go image type - the colour import, analysis and alpha paths have their own parallel sections
			if idx%2 == 1 {
				or := rng(c, idx+3<<20)
				lo := legalOpts(or, false)
				lo.Method, lo.Quality, lo.Partitions = o.Method, o.Quality, o.Partitions
				lo.ICC, lo.EXIF, lo.XMP = nil, nil, nil
				lo.Pass = min(lo.Pass, 3)
				if or.Intn(2) == 0 {
					lo.Preprocessing |= 2 // pseudo-random dithering carries generator state through the import
				}
				o = lo
				src = img.AsType(or, m, pickS(or, "NRGBA", "NRGBA", "RGBA", "Wrapper", "YCbCr", "NRGBA64"))
			}
		}
		data, err := encode(src, o)
		if err != nil {
			return "", err
		}
		d, err := decode(data)
		if err != nil {
			return "", err
		}
		return "enc=" + ev.Sum(data) + " dec=" + c12ImgSum(d), nil
	case "dec-lossless", "dec-lossy":
		m := img.Gen(r, cc.Class, cc.Alpha, cc.W, cc.H)
		cfg := lw.DefaultConfig()
		if cc.Kind == "dec-lossless" {
			cfg.Lossless = 1
		}
		cfg.Method, cfg.Quality = cc.Method, cc.Quality
		file, err := lw.Encode(img.Tight(m), cc.W, cc.H, cfg)
		if err != nil {
			return "", err
		}
		d, err := decode(file)
		if err != nil {
			return "", err
		}
		cfgd, err := webp.DecodeConfig(bytes.NewReader(file))
		if err != nil {
			return "", err
		}
		return fmt.Sprintf("file=%s dec=%s cfg=%dx%d", ev.Sum(file), c12ImgSum(d), cfgd.Width, cfgd.Height), nil
	case "animbad":
		// several undecodable frames: which error is reported must not depend on the number of workers
		an, err := animation.DecodeBytes(badFramesAnim(r))
		if err != nil {
			return "", err
		}
		e1 := an.DecodeFramesParallel()
		got := ""
		for i := range an.Frames {
			if an.Frames[i].HasImage() {
				got += fmt.Sprint(i, ",")
			}
		}
		return fmt.Sprintf("err=%v decoded=%s", e1, got), nil
	case "anim":
		var buf bytes.Buffer
		e := animation.NewEncoder(&buf, cc.W, cc.H, &animation.EncodeOptions{Lossless: cc.Method == 1, Quality: 70})
		cur := img.Gen(r, cc.Class, cc.Alpha, cc.W, cc.H)
		for f := 0; f < cc.Extra; f++ {
			if err := e.AddFrame(cur, 50*time.Millisecond); err != nil {
				return "", err
			}
			nxt := image.NewNRGBA(cur.Rect)
			copy(nxt.Pix, cur.Pix)
			for k := 0; k < 30; k++ {
				x, y := r.Intn(cc.W), r.Intn(cc.H)
				nxt.Pix[nxt.PixOffset(x, y)] ^= 0x55
			}
			cur = nxt
		}
		if err := e.Close(); err != nil {
			return "", err
		}
		an, err := animation.DecodeBytes(buf.Bytes())
		if err != nil {
			return "", err
		}
		if err := an.DecodeFramesParallel(); err != nil {
			return "", err
		}
		sum := ""
		if len(an.Frames) > 0 {
			dec, err := animation.NewAnimDecoder(an)
			if err != nil {
				return "", err
			}
			var all []byte
			for dec.HasNext() {
				fr, _, err := dec.NextFrame()
				if err != nil {
					return "", err
				}
				all = append(all, img.Tight(fr)...)
			}
			sum = ev.Sum(all)
		}
		return "enc=" + ev.Sum(buf.Bytes()) + " play=" + sum, nil
	}
	return "", fmt.Errorf("unknown kind")
}

func c12ImgSum(m image.Image) string {
	switch t := m.(type) {
	case *image.YCbCr:
		return "ycc:" + ev.Sum(t.Y, t.Cb, t.Cr)
	case *image.NRGBA:
		return "nrgba:" + ev.Sum(img.Tight(t))
	}
	return "other:" + ev.Sum(img.Tight(img.ToNRGBA(m)))
}

// c12Worker: vcheck worker C12 <seed> <tier>  -> one JSON line per case {"i":..,"d":..,"e":..}
func c12Worker(args []string) int {
	if len(args) < 2 {
		return 2
	}
	os.Setenv("VERIF_SEED", args[0])
	c := ev.New("C12", args[1], "exploration")
	w := bufio.NewWriter(os.Stdout)
	defer w.Flush()
	for i, cc := range c12Cases(c) {
		d, err := c12Digest(c, i, cc)
		e := ""
		if err != nil {
			e = err.Error()
		}
		b, _ := json.Marshal(map[string]any{"i": i, "d": d, "e": e})
		w.Write(b)
		w.WriteByte('\n')
		w.Flush()
	}
	fmt.Fprintf(w, "{\"done\":true,\"gomaxprocs\":%d}\n", runtime.GOMAXPROCS(0))
	return 0
}

func runC12(c *ev.Ctx) {
	c.Rule = "the same (input, options) list is executed in child processes started with GOMAXPROCS in {1,2,3,4,8,16,32} (thorough: 1..8,12,16,32); Encode bytes, Decode pixels, " +
		"DecodeFramesParallel+playback digests must equal the GOMAXPROCS=1 child's; corpus sits above and just below every parallel threshold (>=4 MB rows & Method>=3; " +
		">50 000 px; predictor/cross-colour tiles; histogram counts; >2 animation frames); distinct = (kind, class, method, quality, size bucket, above/below threshold)"
	c.Assume("children are separate processes of the same binary, so GOMAXPROCS is the only variable (one variable at a time)")
	if lw.SelfTest() != nil {
		c.Inconclusive("libwebp-unavailable(decode-of-foreign-files cases use repo-independent inputs)")
	}
	exe := os.Getenv("VERIF_EXE")
	if exe == "" {
		exe, _ = os.Executable()
	}
	procs := []int{1, 2, 3, 4, 8, 16, 32}
	if c.Thorough() {
		procs = []int{1, 2, 3, 4, 5, 6, 7, 8, 12, 16, 32}
	}
	cases := c12Cases(c)
	results := map[int]map[int]string{} // gomaxprocs -> idx -> digest
	type res struct {
		p   int
		m   map[int]string
		err string
	}
	ch := make(chan res, len(procs))
	sem := make(chan struct{}, 3)
	for _, p := range procs {
		go func(p int) {
			sem <- struct{}{}
			defer func() { <-sem }()
			cmd := exec.Command(exe, "worker", "C12", strconv.FormatInt(c.Seed, 10), c.Tier)
			cmd.Env = append(os.Environ(), "GOMAXPROCS="+strconv.Itoa(p))
			var stderr bytes.Buffer
			cmd.Stderr = &stderr
			out, err := cmd.Output()
			m := map[int]string{}
			done := false
			for _, line := range strings.Split(string(out), "\n") {
				var rec struct {
					I    int
					D, E string
					Done bool
				}
				if json.Unmarshal([]byte(line), &rec) != nil {
					continue
				}
				if rec.Done {
					done = true
					continue
				}
				if rec.E != "" {
					m[rec.I] = "ERROR:" + rec.E
				} else {
					m[rec.I] = rec.D
				}
			}
			e := ""
			if err != nil || !done {
				e = fmt.Sprintf("child GOMAXPROCS=%d died: %v; stderr: %s", p, err, trimTail(stderr.String(), 1500))
			}
			ch <- res{p, m, e}
		}(p)
	}
	for range procs {
		r := <-ch
		results[r.p] = r.m
		if r.err != "" {
			c.Violate(ev.Case{Idx: len(r.m), Desc: fmt.Sprintf("child GOMAXPROCS=%d", r.p)}, "child-died", map[string]string{"gomaxprocs": fmt.Sprint(r.p)}, r.err, nil)
		}
	}
	ref := results[1]
	for i, cc := range cases {
		cs := ev.Case{Idx: i, Desc: fmt.Sprintf("%+v", cc)}
		if strings.HasPrefix(ref[i], "ERROR:") {
			c.Violate(cs, "call-failed", map[string]string{"kind": cc.Kind}, ref[i], nil)
			continue
		}
		if ref[i] == "" {
			continue
		}
		above := "above"
		if (cc.Kind == "lossy" && (cc.H < 64 || cc.Method < 3)) || (cc.Kind == "lossless" && cc.W*cc.H <= 50000) {
			above = "below"
		}
		c.Distinct(fmt.Sprintf("%s|%s|m%d|q%g|%s|%s", cc.Kind, cc.Class, cc.Method, cc.Quality, sizeBucket(cc.W, cc.H), above))
		var differing []string
		for _, p := range procs[1:] {
			d, ok := results[p][i]
			if !ok {
				continue
			}
			c.Eval(1)
			if d != ref[i] {
				differing = append(differing, strconv.Itoa(p))
			}
		}
		if len(differing) > 0 {
			what := "encode"
			if strings.HasPrefix(cc.Kind, "dec-") {
				what = "decode"
			} else {
				// same encoded bytes but different decode?
				p, _ := strconv.Atoi(differing[0])
				if strings.Split(results[p][i], " ")[0] == strings.Split(ref[i], " ")[0] {
					what = "decode"
				}
			}
			sort.Strings(differing)
			p0, _ := strconv.Atoi(differing[0])
			c.Violate(cs, "gomaxprocs-dependent", map[string]string{"kind": cc.Kind, "what": what},
				fmt.Sprintf("%s result differs from GOMAXPROCS=1 at GOMAXPROCS in {%s}: %q vs %q", what, strings.Join(differing, ","), ref[i], results[p0][i]),
				map[string]any{"case": cc, "index": i})
		}
		if i%12 == 0 {
			c.Sample(map[string]any{"case": cs.Desc, "digest_at_1": ref[i], "gomaxprocs_values": procs})
		}
	}
	c.Extra("gomaxprocs_values", procs)
	c12WorkerOverride(c, cases)
}

// c12WorkerOverride: second axis - the worker count that every parallel site derives from GOMAXPROCS is
// overridden in-process (hook H2) with values a real machine may report but this sandbox cannot provide
// (up to 64, odd counts, counts larger than the number of rows/tiles), one variable at a time: same process,
// same GOMAXPROCS, pools flushed (two GC cycles) before each compared call.
func c12WorkerOverride(c *ev.Ctx, cases []c12Case) {
	var k atomic.Int64
	webp.VerifSetWorkers(func(site string, n int) int {
		if v := k.Load(); v > 0 {
			return int(v)
		}
		return n
	})
	defer webp.VerifSetWorkers(nil)
	counts := []int64{3, 7, 33}
	if c.Thorough() {
		counts = []int64{2, 3, 5, 7, 11, 16, 33, 64}
	}
	done := 0
	for i, cc := range cases {
		if cc.Kind == "anim" || (!c.Thorough() && i%3 != 0) {
			continue
		}
		cs := ev.Case{Idx: 100000 + i, Desc: fmt.Sprintf("worker-override %+v", cc)}
		k.Store(1)
		runtime.GC()
		runtime.GC()
		ref, err := c12Digest(c, i, cc)
		if err != nil {
			continue
		}
		for _, n := range counts {
			k.Store(n)
			runtime.GC()
			runtime.GC()
			d, err := c12Digest(c, i, cc)
			c.Eval(1)
			if err != nil || d != ref {
				c.Violate(cs, "worker-count-dependent", map[string]string{"kind": cc.Kind, "workers": fmt.Sprint(n)},
					fmt.Sprintf("with every parallel site forced to %d workers: %q (err %v); with 1 worker: %q", n, d, err, ref), map[string]any{"case": cc, "index": i})
				break
			}
		}
		done++
	}
	k.Store(0)
	c.Extra("worker_override_cases", done)
	c.Extra("worker_override_counts", counts)
}

func trimTail(s string, n int) string {
	if len(s) > n {
		return "…" + s[len(s)-n:]
	}
	return s
}
