package checks

import (
	"bytes"
	"fmt"
	"image"
	"math/rand"
	"time"

	webp "github.com/deepteams/webp"
	"github.com/deepteams/webp/animation"
	"github.com/deepteams/webp/mux"

	"verif/ev"
	"verif/img"
	"verif/riffwalk"
)

func init() { Registry["C15"] = Check{Level: "exploration", Run: runC15} }

type c15Case struct {
	Kind       string // still-lossy, still-lossy-alpha, still-lossless, anim-lossless, anim-lossy, anim-single
	Subset     int    // bit0 ICC, bit1 EXIF, bit2 XMP
	BlobKind   [3]string
	W, H       int
	Opts       bool // stills: every other EncoderOptions field drawn from its legal values instead of the defaults
}

var c15BlobKinds = []string{"1byte", "odd", "even", "64k-1", "64k", "64k+1", "zeros", "riff-like", "anmf-like", "empty", "big"}

func c15Blob(r *rand.Rand, kind string) []byte {
	mk := func(n int) []byte { b := make([]byte, n); r.Read(b); return b }
	switch kind {
	case "1byte":
		return mk(1)
	case "odd":
		return mk(1 + 2*r.Intn(200))
	case "even":
		return mk(2 + 2*r.Intn(200))
	case "64k-1":
		return mk(65535)
	case "64k":
		return mk(65536)
	case "64k+1":
		return mk(65537)
	case "zeros":
		return make([]byte, 1+r.Intn(64))
	case "riff-like":
		return append([]byte("RIFF\xff\xff\xff\xffWEBPVP8X\x0a\x00\x00\x00\xff\xff\xff\xff\xff\xff\xff\xff\xff\xffVP8 \x00\x00\x00\x80"), mk(r.Intn(9))...)
	case "anmf-like":
		return append([]byte("ANMF\x10\x00\x00\x00\x00\x00\x00\x00\x00\x00\xff\xff\xff\xff\xff\xff\x00\x00\x00\x03ICCP\xff\xff\xff\x7fEXIF"), mk(r.Intn(9))...)
	case "empty":
		return []byte{}
	case "big":
		return mk(300000 + r.Intn(3))
	}
	return mk(5)
}

func runC15(c *ev.Ctx) {
	c.Rule = "Encode / AnimEncoder with every subset of {ICC,EXIF,XMP} x blob classes (1 byte, odd, even, 64KiB±1, zeros, chunk-like content with lying sizes, empty, 300 KB) " +
		"x output kinds (lossy, lossy+alpha, lossless streaming/buffered, animated lossless/lossy, single-frame animation) x (default options | every other option field drawn from its legal values, incl. Exact with coloured transparent pixels); oracles: blobs read back byte-exact via " +
		"Demuxer.GetChunk, animation.DecodeBytes and the independent walker; VP8X flags <=> chunks; image payloads and decoded pixels identical to the metadata-free encode; " +
		"distinct = (kind, subset, blob classes)"
	kinds := []string{"still-lossy", "still-lossy-alpha", "still-lossless", "anim-lossless", "anim-lossy", "anim-single", "still-lossless-alpha"}
	n := c.N(5000, 1000000)
	var cases []ev.Case
	for i := 0; i < n; i++ {
		r := rng(c, i)
		cc := c15Case{Kind: kinds[i%len(kinds)], Subset: 1 + (i/len(kinds))%7, W: 1 + r.Intn(40), H: 1 + r.Intn(40), Opts: (i/(7*len(kinds)))%3 != 0}
		for k := 0; k < 3; k++ {
			cc.BlobKind[k] = c15BlobKinds[r.Intn(len(c15BlobKinds))]
			if cc.BlobKind[k] == "big" && !c.Thorough() && r.Intn(4) != 0 {
				cc.BlobKind[k] = "odd"
			}
		}
		cases = append(cases, ev.Case{Idx: i, Desc: fmt.Sprintf("%+v", cc), Data: cc})
	}
	c.RunCases(cases, 0, func(cs ev.Case) { c15One(c, cs) })
	if c.Thorough() && c.Only < 0 {
		c15Cap(c, len(cases))
	}
}

type c15Out struct {
	data []byte
	err  error
}

func c15Encode(cc c15Case, or *rand.Rand, frames []*image.NRGBA, icc, exif, xmp []byte) c15Out {
	switch cc.Kind {
	case "still-lossy", "still-lossy-alpha", "still-lossless", "still-lossless-alpha":
		o := webp.DefaultOptions()
		o.Lossless = cc.Kind == "still-lossless" || cc.Kind == "still-lossless-alpha"
		if cc.Opts {
			o = legalOpts(or, o.Lossless)
		}
		o.ICC, o.EXIF, o.XMP = icc, exif, xmp
		d, err := encode(frames[0], o)
		return c15Out{d, err}
	default:
		var buf bytes.Buffer
		ao := &animation.EncodeOptions{Lossless: cc.Kind != "anim-lossy", Quality: 75, LoopCount: 3}
		if cc.Opts { // animation options drawn as well: mixed codecs, quality, key-frame distance
			ao.AllowMixed = or.Intn(2) == 0
			ao.Lossless = or.Intn(2) == 0
			ao.Quality = pickI(or, 0, 30, 75, 100)
			ao.Kmin, ao.Kmax = pickI(or, 0, 1, 3), pickI(or, 0, 1, 2, 5)
		}
		e := animation.NewEncoder(&buf, cc.W, cc.H, ao)
		if icc != nil {
			e.SetICCProfile(icc)
		}
		if exif != nil {
			e.SetEXIF(exif)
		}
		if xmp != nil {
			e.SetXMP(xmp)
		}
		for _, f := range frames {
			if err := e.AddFrame(f, 40*time.Millisecond); err != nil {
				return c15Out{nil, err}
			}
		}
		err := e.Close()
		return c15Out{buf.Bytes(), err}
	}
}

func c15One(c *ev.Ctx, cs ev.Case) {
	cc := cs.Data.(c15Case)
	r := rng(c, cs.Idx+1<<20)
	alpha := "opaque"
	if cc.Kind == "still-lossy-alpha" || cc.Kind == "still-lossless-alpha" || (cc.Kind[:4] == "anim" && r.Intn(2) == 0) {
		alpha = pickS(r, "binary", "gradient", "levels3")
		if cc.Opts {
			alpha = pickS(r, "binary", "gradient", "levels3", "transparentrgb", "noise", "blocks", "alltransparent", "onepix")
		}
	}
	nf := 1
	if cc.Kind == "anim-lossless" || cc.Kind == "anim-lossy" {
		nf = 2 + r.Intn(3)
	}
	var frames []*image.NRGBA
	for i := 0; i < nf; i++ {
		frames = append(frames, img.Gen(r, img.Pick(r, img.Classes), alpha, cc.W, cc.H))
	}
	var blobs [3][]byte
	for k := 0; k < 3; k++ {
		if cc.Subset&(1<<k) != 0 {
			blobs[k] = c15Blob(r, cc.BlobKind[k])
		}
	}
	with := c15Encode(cc, rng(c, cs.Idx+5<<20), frames, blobs[0], blobs[1], blobs[2])
	plain := c15Encode(cc, rng(c, cs.Idx+5<<20), frames, nil, nil, nil)
	c.Eval(1)
	c.Distinct(fmt.Sprintf("%s|%d|%v|%v", cc.Kind, cc.Subset, cc.BlobKind, cc.Opts))
	rep := func() any {
		return map[string]string{"file": b64(with.data), "icc": b64(blobs[0]), "exif": b64(blobs[1]), "xmp": b64(blobs[2])}
	}
	if with.err != nil || plain.err != nil {
		c.Violate(cs, "encode-error", map[string]string{"kind": cc.Kind}, fmt.Sprintf("with metadata: %v; without: %v", with.err, plain.err), nil)
		return
	}
	info, issues := riffwalk.Walk(with.data)
	for _, is := range issues {
		c.Violate(cs, "structure/"+is.Rule, map[string]string{"kind": cc.Kind}, is.Msg, rep())
	}
	if info == nil {
		return
	}
	names := []string{"ICC", "EXIF", "XMP"}
	ids := []mux.ChunkID{mux.FourCCICCP, mux.FourCCEXIF, mux.FourCCXMP}
	walked := [][]byte{info.ICC, info.EXIF, info.XMP}
	present := []bool{info.HasICC, info.HasEXIF, info.HasXMP}
	dm, derr := mux.NewDemuxer(with.data)
	if derr != nil {
		c.Violate(cs, "demux-error", map[string]string{"kind": cc.Kind}, derr.Error(), rep())
		return
	}
	an, aerr := animation.DecodeBytes(with.data)
	for k := 0; k < 3; k++ {
		attrs := map[string]string{"kind": cc.Kind, "blob": names[k], "class": cc.BlobKind[k]}
		got, gerr := dm.GetChunk(ids[k])
		if present[k] != (gerr == nil) { // a chunk that is in the file (walker) is one the demuxer finds, empty ones at the very end included
			c.Violate(cs, "metadata-not-readable", map[string]string{"kind": cc.Kind, "blob": names[k], "class": cc.BlobKind[k], "what": "presence"}, fmt.Sprintf("%s: chunk in the file=%v (walker), Demuxer.GetChunk err=%v", names[k], present[k], gerr), rep())
			continue
		}
		if len(blobs[k]) > 0 {
			if !present[k] || !bytes.Equal(walked[k], blobs[k]) {
				c.Violate(cs, "metadata-not-stored", attrs, fmt.Sprintf("%s (%d bytes, %s): chunk present=%v, stored %d bytes (walker)", names[k], len(blobs[k]), cc.BlobKind[k], present[k], len(walked[k])), rep())
				continue
			}
			if gerr != nil || !bytes.Equal(got, blobs[k]) {
				c.Violate(cs, "metadata-not-readable", attrs, fmt.Sprintf("%s: Demuxer.GetChunk err=%v, %s", names[k], gerr, firstByteDiff(blobs[k], got)), rep())
			}
			if aerr == nil {
				ab := [][]byte{an.ICC, an.EXIF, an.XMP}[k]
				if !bytes.Equal(ab, blobs[k]) {
					c.Violate(cs, "metadata-not-readable", map[string]string{"kind": cc.Kind, "blob": names[k], "via": "animation.DecodeBytes"}, fmt.Sprintf("%s via animation.DecodeBytes: %s", names[k], firstByteDiff(blobs[k], ab)), rep())
				}
			}
		} else if blobs[k] == nil {
			if present[k] || gerr == nil {
				c.Violate(cs, "metadata-spurious", attrs, fmt.Sprintf("%s not supplied but chunk present=%v GetChunk err=%v", names[k], present[k], gerr), rep())
			}
		} else { // empty non-nil blob: either absent, or present and empty
			if present[k] && len(walked[k]) != 0 {
				c.Violate(cs, "metadata-spurious", attrs, fmt.Sprintf("%s empty blob stored as %d bytes", names[k], len(walked[k])), rep())
			}
		}
	}
	if aerr != nil && info.Animated {
		c.Violate(cs, "anim-read-error", map[string]string{"kind": cc.Kind}, aerr.Error(), rep())
	}
	// the picture must not depend on metadata
	pinfo, pissues := riffwalk.Walk(plain.data)
	if pinfo == nil || len(pissues) > 0 {
		for _, is := range pissues {
			c.Violate(cs, "structure/"+is.Rule, map[string]string{"kind": cc.Kind, "plain": "1"}, is.Msg, nil)
		}
		return
	}
	// A one-picture animation may legitimately be stored as a still (C08): the container kind may
	// then differ with/without metadata, but frame count, payloads and pixels may not.
	if len(pinfo.Frames) != len(info.Frames) || (pinfo.Animated != info.Animated && len(info.Frames) != 1) {
		c.Violate(cs, "picture-changed", map[string]string{"kind": cc.Kind, "what": "frame-count"}, fmt.Sprintf("frames %d (animated=%v) with metadata vs %d (animated=%v) without", len(info.Frames), info.Animated, len(pinfo.Frames), pinfo.Animated), rep())
		return
	}
	for i := range info.Frames {
		a, b := info.Frames[i], pinfo.Frames[i]
		if a.BS == nil || b.BS == nil {
			continue
		}
		if !bytes.Equal(a.BS.Data, b.BS.Data) || !bytes.Equal(a.Alpha, b.Alpha) || a.BS.Codec != b.BS.Codec {
			c.Violate(cs, "picture-changed", map[string]string{"kind": cc.Kind, "what": "bitstream"}, fmt.Sprintf("frame %d: image/alpha payload differs from the metadata-free encode (%s)", i, firstByteDiff(b.BS.Data, a.BS.Data)), rep())
		}
		if info.Animated == pinfo.Animated && (a.X != b.X || a.Y != b.Y || a.Duration != b.Duration || a.Blend != b.Blend || a.Dispose != b.Dispose) {
			c.Violate(cs, "picture-changed", map[string]string{"kind": cc.Kind, "what": "frame-params"}, fmt.Sprintf("frame %d parameters differ", i), rep())
		}
	}
	if info.Animated != pinfo.Animated {
		// One picture stored as a still on one side and as a one-frame animation on the other: the two are read by
		// different pipelines (a lossy still comes back as YCbCr, an animation frame as NRGBA through the library's own
		// upsampler), so their pixels are not comparable; the payload comparison above already covers this pair.
		c.Count("container_kind_differs_payloads_compared_only", 1)
		return
	}
	p1, e1 := c15Pixels(with.data, info.Animated)
	p2, e2 := c15Pixels(plain.data, pinfo.Animated)
	if e1 != nil || e2 != nil {
		c.Violate(cs, "decode-error", map[string]string{"kind": cc.Kind}, fmt.Sprintf("%v / %v", e1, e2), rep())
	} else if !bytes.Equal(p1, p2) {
		c.Violate(cs, "picture-changed", map[string]string{"kind": cc.Kind, "what": "pixels"}, "decoded pixels differ from the metadata-free encode", rep())
	}
	if cs.Idx%200 == 0 {
		c.Sample(map[string]any{"case": cs.Desc, "bytes": len(with.data), "flags": info.Flags, "animated": info.Animated})
	}
}

// c15Cap checks the documented 100 MB cap: exactly at the cap accepted, one byte more rejected.
func c15Cap(c *ev.Ctx, idx int) {
	m := img.Gen(rng(c, idx), "photo", "opaque", 8, 8)
	const cap = 100 * 1024 * 1024
	for k, n := range []int{cap, cap + 1} {
		cs := ev.Case{Idx: idx + k, Desc: fmt.Sprintf("EXIF blob of %d bytes", n)}
		blob := make([]byte, n)
		for i := 0; i < n; i += 4099 {
			blob[i] = byte(i)
		}
		o := webp.DefaultOptions()
		o.EXIF = blob
		data, err := encode(m, o)
		c.Eval(1)
		c.Distinct(fmt.Sprintf("cap|%d", n))
		if n == cap {
			if err != nil {
				c.Violate(cs, "cap-rejected", nil, "100 MiB blob rejected: "+err.Error(), nil)
				continue
			}
			info, issues := riffwalk.Walk(data)
			for _, is := range issues {
				c.Violate(cs, "structure/"+is.Rule, map[string]string{"cap": "1"}, is.Msg, nil)
			}
			if info == nil || !bytes.Equal(info.EXIF, blob) {
				c.Violate(cs, "metadata-not-stored", map[string]string{"cap": "1"}, "100 MiB EXIF not stored byte-exact", nil)
			}
		} else if err == nil {
			c.Violate(cs, "cap-exceeded-accepted", nil, fmt.Sprintf("blob of cap+1 bytes accepted, %d bytes written", len(data)), nil)
		}
	}
}

// c15Pixels returns the concatenated NRGBA pixels of the still image or of every played-back canvas.
func c15Pixels(data []byte, animated bool) ([]byte, error) {
	if !animated {
		d, err := decode(data)
		if err != nil {
			return nil, err
		}
		return img.Tight(img.ToNRGBA(d)), nil
	}
	an, err := animation.DecodeBytes(data)
	if err != nil {
		return nil, err
	}
	if err := an.DecodeFrames(); err != nil {
		return nil, err
	}
	dec, err := animation.NewAnimDecoder(an)
	if err != nil {
		return nil, err
	}
	var out []byte
	for dec.HasNext() {
		f, _, err := dec.NextFrame()
		if err != nil {
			return nil, err
		}
		out = append(out, img.Tight(f)...)
	}
	return out, nil
}
