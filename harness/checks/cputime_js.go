//go:build js

package checks

import "time"

// The js/wasm build only serves C13's digest worker; the scaling probe of C05 never runs there.
func cpuSeconds() float64 { return float64(time.Now().UnixNano()) / 1e9 }
