package checks

import (
	"strings"
	"testing"

	"verif/ev"
)

// Harness self-test: a catalogue entry that is meant to succeed but returns an error observes
// nothing (its digest is the same error before and after any history).
func TestC11CatalogueEntriesRun(t *testing.T) {
	c := ev.New("C11", "quick", "exploration")
	es, _ := c11Catalogue(c)
	for _, e := range es {
		d, _ := e.Run()
		meantToFail := strings.Contains(e.Name, "truncated") || strings.Contains(e.Name, "corrupt") || strings.Contains(e.Name, "cut-in")
		if strings.HasPrefix(d, "ERR") && !meantToFail {
			t.Errorf("%s -> %s", e.Name, d)
		}
		if strings.HasPrefix(d, c11SelfViol) {
			t.Errorf("%s -> %s", e.Name, d)
		}
	}
}
