package checks

import (
	"bytes"
	"fmt"
	"image"
	"runtime"
	"strconv"
	"sync"

	webp "github.com/deepteams/webp"

	"verif/ev"
	"verif/img"
	"verif/lw"
	"verif/riffwalk"
	"verif/ximage"
)

func init() { Registry["C06"] = Check{Level: "exploration", Run: runC06} }

// goroutine id (hooks run on the goroutine that called Encode)
func gid() int64 {
	var buf [64]byte
	n := runtime.Stack(buf[:], false)
	s := buf[len("goroutine "):n]
	for i, ch := range s {
		if ch == ' ' {
			v, _ := strconv.ParseInt(string(s[:i]), 10, 64)
			return v
		}
	}
	return -1
}

type reconCapture struct {
	passes  int
	w, h    int
	y, u, v []byte // tight visible planes of the last pass
	fy, fu, fv []byte // planes when EncodeFrame returned (pass -1)
	calls   int
}

var c06Captures sync.Map // gid -> *reconCapture

func tightPlane(p []byte, stride, w, h int) []byte {
	out := make([]byte, 0, w*h)
	for y := 0; y < h; y++ {
		out = append(out, p[y*stride:y*stride+w]...)
	}
	return out
}

func c06Hook(pass, width, height int, y, u, v []byte, yStride, uvStride int) {
	c, ok := c06Captures.Load(gid())
	if !ok {
		return
	}
	rc := c.(*reconCapture)
	cw, ch := (width+1)/2, (height+1)/2
	if pass >= 0 {
		rc.passes = pass + 1
		rc.w, rc.h = width, height
		rc.y, rc.u, rc.v = tightPlane(y, yStride, width, height), tightPlane(u, uvStride, cw, ch), tightPlane(v, uvStride, cw, ch)
	} else {
		rc.fy, rc.fu, rc.fv = tightPlane(y, yStride, width, height), tightPlane(u, uvStride, cw, ch), tightPlane(v, uvStride, cw, ch)
		rc.calls++
	}
}

type c06Case struct {
	Class, Alpha string
	W, H         int
	Workers      int // 0 = default, else forced worker count for the row-parallel encoder
	Sparse       bool // flat content + forced size/PSNR search
}

func runC06(c *ev.Ctx) {
	c.Rule = "lossy Encode with the per-pass reconstruction hook (planes of the pass whose tokens are emitted, and again at return) vs three decoders' pre-deblocking reconstruction of the " +
		"emitted bytes: libwebp with bypass_filtering, x/image with its filter switched off, and webp.Decode itself whenever the stream's filter level is 0; bit-exact inside the visible " +
		"w x h (Y) and ceil(w/2) x ceil(h/2) (U,V); options from the legal generator emphasising Method, Segments, Partitions, Pass, SNS, filters, presets, QMin/QMax, TargetSize/TargetPSNR " +
		"(reachable and unreachable), sharp YUV, dithering, alpha; sizes with < 4 and >= 4 macroblock rows; forced worker counts 1/2/6 for the row-parallel path; " +
		"distinct = (method, segments, partitions, multi-pass?, filter off?, parallel path?, size bucket, alpha, skip/segment-map features of the emitted stream)"
	if err := lw.SelfTest(); err != nil {
		c.Fatal("libwebp oracle unavailable: %v", err)
		return
	}
	webp.VerifSetFramePass(c06Hook)
	defer webp.VerifSetFramePass(nil)
	var forced sync.Map // gid -> workers
	webp.VerifSetWorkers(func(site string, n int) int {
		if site == "lossy.encodeFrameParallel" {
			if v, ok := forced.Load(gid()); ok && v.(int) > 0 {
				return v.(int)
			}
		}
		return n
	})
	defer webp.VerifSetWorkers(nil)
	pc := newPairCover()
	n := c.N(4000, 250000)
	var cases []ev.Case
	for i := 0; i < n; i++ {
		r := rng(c, i)
		cc := c06Case{Class: img.Classes[i%len(img.Classes)], Alpha: pickS(r, "opaque", "opaque", "opaque", "binary", "gradient", "blocks"), Workers: pickI(r, 0, 0, 1, 2, 6)}
		switch r.Intn(4) {
		case 0:
			cc.W, cc.H = img.Pick(r, img.SmallSizes), img.Pick(r, img.SmallSizes)
		case 1:
			cc.W, cc.H = 1+r.Intn(160), 1+r.Intn(60) // < 4 MB rows
		default:
			cc.W, cc.H = 1+r.Intn(160), 49+r.Intn(110) // >= 4 MB rows
		}
		if c.Thorough() && i%25 == 0 {
			cc.W, cc.H = 200+r.Intn(800), 200+r.Intn(560)
		}
		if i%40 == 7 { // >= 510 macroblocks (segment-probability rounding corner), busy content with a tiny flat minority
			cc.W, cc.H = 370+r.Intn(200), 370+r.Intn(120)
			cc.Class = pickS(r, "flatblock", "flatblock", "noise", "pillarbox")
			cc.Alpha = "opaque"
		}
		cases = append(cases, ev.Case{Idx: i, Desc: fmt.Sprintf("%+v", cc), Data: cc})
	}
	// Very few coded macroblocks (flat content) under a size search on the serial path: token statistics so
	// sparse that the probability updates decided in mid-frame are withdrawn at the end of the frame. Measured
	// on the tree before repo commit 64d432f (D23): about 0.2% of these draws decode to other pixels than the
	// encoder reconstructed.
	for k := 0; k < c.N(2500, 60000); k++ {
		i := len(cases)
		r := rng(c, i)
		cc := c06Case{Class: pickS(r, "pal1", "flat", "flat", "sparsemb", "pal2"), Alpha: "opaque", W: 150 + r.Intn(280), H: 130 + r.Intn(140), Workers: pickI(r, 0, 1, 2), Sparse: true}
		cases = append(cases, ev.Case{Idx: i, Desc: fmt.Sprintf("%+v", cc), Data: cc})
	}
	c.RunCases(cases, 0, func(cs ev.Case) {
		g := gid()
		cc := cs.Data.(c06Case)
		forced.Store(g, cc.Workers)
		defer forced.Delete(g)
		c06One(c, cs, pc)
	})
	c.Extra("pairwise", pc.report())
}

func c06One(c *ev.Ctx, cs ev.Case, pc *pairCover) {
	cc := cs.Data.(c06Case)
	r := rng(c, cs.Idx+1<<20)
	m := img.Gen(r, cc.Class, cc.Alpha, cc.W, cc.H)
	o := legalOpts(r, false)
	o.ICC, o.EXIF, o.XMP = nil, nil, nil
	if r.Intn(3) == 0 {
		o.FilterStrength = 0
	}
	if o.Pass > 4 && cc.W*cc.H > 6000 {
		o.Pass = 3
	}
	if r.Intn(5) < 3 { // single-pass quality mode (the row-parallel path is only taken here)
		o.TargetSize, o.TargetPSNR = 0, 0
	} else if r.Intn(3) == 0 { // unreachable / hard-to-reach targets
		o.TargetSize = pickI(r, 1, 40, 300, 5000000)
	}
	if cc.Sparse {
		if r.Intn(8) != 0 { // else: whatever the generator drew
			o.TargetSize = pickI(r, 150, 1000, 1000000)
		}
		o.Pass = min(o.Pass, 4)
	} else if cc.W*cc.H > 100000 {
		o.Pass = min(o.Pass, 2)
		if r.Intn(4) != 0 {
			o.TargetSize, o.TargetPSNR = 0, 0
			o.Segments = pickI(r, -1, 4, 4, 3, 2)
			o.SNSStrength = pickI(r, -1, 50, 80, 100)
		}
	}
	pc.add(o, "alpha="+cc.Alpha)
	g := gid()
	rc := &reconCapture{}
	c06Captures.Store(g, rc)
	data, err := encode(m, o)
	c06Captures.Delete(g)
	c.Eval(1)
	cs.Desc += " " + optString(o)
	rep := func() any { return map[string]string{"opts": optString(o), "file": b64(data)} }
	if err != nil {
		c.Violate(cs, "encode-error", nil, err.Error(), nil)
		return
	}
	if rc.calls != 1 || rc.y == nil || rc.fy == nil {
		c.Fatal("reconstruction hook did not fire exactly once per Encode (calls=%d): hooks not compiled in?", rc.calls)
		return
	}
	info, _ := riffwalk.Walk(data)
	if info == nil || len(info.Frames) != 1 || info.Frames[0].BS == nil || info.Frames[0].BS.Codec != "VP8 " {
		c.Violate(cs, "no-vp8-frame", nil, "walker finds no VP8 frame in a lossy encode", rep())
		return
	}
	bs := info.Frames[0].BS
	if bs.W != cc.W || bs.H != cc.H {
		c.Violate(cs, "size-mismatch", nil, fmt.Sprintf("stream %dx%d source %dx%d", bs.W, bs.H, cc.W, cc.H), rep())
		return
	}
	multi := rc.passes > 1
	par := cc.H > 48 && o.Method >= 3 && o.TargetSize == 0 && o.TargetPSNR == 0
	c.Distinct(fmt.Sprintf("m%d|s%d|p%d|multi=%v|f0=%v|par=%v/%d|%s|a=%v|seg=%v", o.Method, o.Segments, bs.Partitions, multi, bs.FilterLevel == 0, par, cc.Workers, sizeBucket(cc.W, cc.H), cc.Alpha != "opaque", bs.Segmentation))
	c.Count(fmt.Sprintf("passes_%d", rc.passes), 1)
	if par {
		c.Count(fmt.Sprintf("row_parallel_workers_%d", cc.Workers), 1)
	}
	// the planes at return must be those of the emitted pass
	if !bytes.Equal(rc.y, rc.fy) || !bytes.Equal(rc.u, rc.fu) || !bytes.Equal(rc.v, rc.fv) {
		c.Violate(cs, "planes-changed-after-last-pass", map[string]string{"passes": fmt.Sprint(rc.passes)}, "the encoder's reference planes at return differ from those of the last encode pass", rep())
	}
	cw, ch := (cc.W+1)/2, (cc.H+1)/2
	cmp := func(who string, y, u, v []byte) string {
		if len(y) != cc.W*cc.H || len(u) != cw*ch {
			return fmt.Sprintf("%s: plane sizes %d/%d", who, len(y), len(u))
		}
		for i := range y {
			if y[i] != rc.y[i] {
				return fmt.Sprintf("%s: Y differs at (%d,%d): decoder %d, encoder reconstruction %d", who, i%cc.W, i/cc.W, y[i], rc.y[i])
			}
		}
		for i := range u {
			if u[i] != rc.u[i] {
				return fmt.Sprintf("%s: U differs at (%d,%d): decoder %d, encoder %d", who, i%cw, i/cw, u[i], rc.u[i])
			}
			if v[i] != rc.v[i] {
				return fmt.Sprintf("%s: V differs at (%d,%d): decoder %d, encoder %d", who, i%cw, i/cw, v[i], rc.v[i])
			}
		}
		return ""
	}
	// the VP8 payload alone in a simple container (so that ALPH does not change the output type)
	plain := riffWrap(chunk("VP8 ", bs.Data))
	ly, lerr := lw.DecodeYUV(plain, true)
	xm, xerr := ximage.DecodeVP8(bs.Data, true)
	if lerr != nil {
		c.Violate(cs, "undecodable", map[string]string{"who": "libwebp"}, lerr.Error(), rep())
		return
	}
	attrs := map[string]string{"passes": fmt.Sprint(rc.passes), "method": fmt.Sprint(o.Method), "parallel": fmt.Sprint(par), "partitions": fmt.Sprint(bs.Partitions)}
	refsAgree := true
	var xy, xu, xv []byte
	if xerr == nil {
		xy = tightPlane(xm.Y, xm.YStride, cc.W, cc.H)
		xu = tightPlane(xm.Cb, xm.CStride, cw, ch)
		xv = tightPlane(xm.Cr, xm.CStride, cw, ch)
		if !bytes.Equal(xy, ly.Y) || !bytes.Equal(xu, ly.U) || !bytes.Equal(xv, ly.V) {
			refsAgree = false
			c.Inconclusive("libwebp-and-ximage-disagree-unfiltered")
		}
	}
	if msg := cmp("libwebp(bypass_filtering)", ly.Y, ly.U, ly.V); msg != "" && refsAgree {
		c.Violate(cs, "drift", attrs, msg, rep())
		return
	}
	if xerr == nil && refsAgree {
		if msg := cmp("x/image(no filter)", xy, xu, xv); msg != "" {
			c.Violate(cs, "drift", attrs, msg, rep())
			return
		}
	}
	c.Eval(1)
	// with the loop filter off the package's own decoder must return exactly the reconstruction
	if bs.FilterLevel == 0 {
		d, err := decode(plain)
		if err != nil {
			c.Violate(cs, "undecodable", map[string]string{"who": "webp.Decode"}, err.Error(), rep())
			return
		}
		yc, ok := d.(*image.YCbCr)
		if !ok || yc.Rect.Dx() != cc.W || yc.Rect.Dy() != cc.H {
			c.Violate(cs, "size-mismatch", map[string]string{"who": "webp.Decode"}, fmt.Sprintf("decoded %T %v", d, d.Bounds()), rep())
			return
		}
		c.Count("filter_off_streams_checked_against_webp.Decode", 1)
		if msg := cmp("webp.Decode(filter off)", tightPlane(yc.Y, yc.YStride, cc.W, cc.H), tightPlane(yc.Cb, yc.CStride, cw, ch), tightPlane(yc.Cr, yc.CStride, cw, ch)); msg != "" {
			c.Violate(cs, "drift", attrs, msg, rep())
		}
	}
	// the complete file must have the source's size too
	if d, err := decode(data); err != nil {
		c.Violate(cs, "undecodable", map[string]string{"who": "webp.Decode(full file)"}, err.Error(), rep())
	} else if d.Bounds().Dx() != cc.W || d.Bounds().Dy() != cc.H {
		c.Violate(cs, "size-mismatch", map[string]string{"who": "webp.Decode(full file)"}, fmt.Sprint(d.Bounds()), rep())
	}
	if cs.Idx%200 == 0 {
		c.Sample(map[string]any{"case": cs.Desc, "passes": rc.passes, "partitions": bs.Partitions, "filter_level": bs.FilterLevel, "bytes": len(data)})
	}
}
