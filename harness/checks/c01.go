package checks

import (
	"strings"
	"fmt"
	"image"
	"os"

	webp "github.com/deepteams/webp"

	"verif/ev"
	"verif/img"
	"verif/lw"
)

func init() { Registry["C01"] = Check{Level: "exploration", Run: runC01} }

type c01Case struct {
	Class, Alpha, Type string
	W, H               int
	Method             int
	Quality            float32
	Exact              bool
	Meta               int // 0 none, 1 ICC, 2 EXIF+XMP
}

var c01Qualities = []float32{0, 10, 24, 25, 49, 50, 74, 75, 90, 100}

func runC01(c *ev.Ctx) {
	c.Rule = "lossless Encode->Decode round trips over a mixed-radix grid: content class x Method x Quality band fully enumerated, " +
		"alpha pattern / Go image type / size / Exact / metadata drawn from the case PRNG; a case is distinct and non-trivial by " +
		"(class, alpha, type, size bucket, method, quality, exact, meta, leading VP8L transform signature read back from the emitted bitstream)"
	c.Assume("source pixels are read through Go's color.NRGBAModel (the canonical non-premultiplied 8-bit reading)")
	lwOK := lw.SelfTest() == nil
	if lwOK {
		c.Assume("libwebp 1.2.4 (system libwebp.so.7) decodes the same bytes for attribution (encoder vs decoder side)")
	} else {
		c.Inconclusive("libwebp-unavailable")
	}
	n := c.N(10400, 2400000)
	var cases []ev.Case
	for i := 0; i < n; i++ {
		r := rng(c, i)
		cc := c01Case{
			Class:   img.Classes[i%len(img.Classes)],
			Method:  (i / len(img.Classes)) % 7,
			Quality: c01Qualities[(i/(len(img.Classes)*7))%len(c01Qualities)],
			Alpha:   img.Pick(r, img.Alphas),
			Exact:   r.Intn(2) == 0,
			Meta:    []int{0, 0, 0, 1, 2}[r.Intn(5)],
			Type:    []string{"NRGBA", "NRGBA", "NRGBA", "Wrapper"}[r.Intn(4)],
		}
		if r.Intn(4) == 0 {
			cc.Type = img.Pick(r, img.GoTypes)
		}
		maxSide := 96
		if c.Thorough() && i%40 == 0 {
			maxSide = 600
		}
		switch r.Intn(4) {
		case 0:
			cc.W, cc.H = img.Pick(r, img.SmallSizes), img.Pick(r, img.SmallSizes)
		case 1:
			cc.W, cc.H = 1+r.Intn(maxSide), 1+r.Intn(maxSide)
		case 2:
			cc.W, cc.H = 1+r.Intn(20), 1+r.Intn(20)
		default:
			cc.W, cc.H = 1+r.Intn(maxSide), 1+r.Intn(12)
			if r.Intn(2) == 0 {
				cc.W, cc.H = cc.H, cc.W
			}
		}
		if cc.W > 96 || cc.H > 96 {
			if cc.Quality > 90 && cc.Method >= 5 {
				cc.W, cc.H = min(cc.W, 200), min(cc.H, 200)
			}
		}
		cases = append(cases, ev.Case{Idx: i, Desc: fmt.Sprintf("%+v", cc), Data: cc})
	}
	// backward references at the far end of the distance range need > 2^20 pixels
	for k := 0; k < c.N(8, 48); k++ {
		e := c01Case{Class: "farrepeat", Alpha: "opaque", Type: "NRGBA", W: 1024, H: 1040 + 20*k, Method: []int{4, 2, 6, 3, 5, 0, 1}[k%7], Quality: []float32{80, 100, 90, 76}[k%4]}
		cases = append(cases, ev.Case{Idx: len(cases), Desc: fmt.Sprintf("%+v", e), Data: e})
	}
	// Quality >= 90 takes the encoder's full remap pass, which may leave histogram clusters without any
	// tile; measured on the tree before repo commit a6194c6, busy pictures with a flat band and noise alpha
	// of 4000..6000 pixels at Method 5/6 empty the last cluster in about 0.4% of draws (D22).
	for k := 0; k < c.N(2000, 100000); k++ {
		r := rng(c, len(cases)+3<<20)
		e := c01Case{Class: []string{"bands", "bands", "bands", "pillarbox", "multiband"}[k%5], Alpha: "noise", Type: "NRGBA", W: 56 + r.Intn(48), H: 44 + r.Intn(24),
			Method: 5 + k%2, Quality: []float32{90, 92, 95, 99}[r.Intn(4)], Exact: r.Intn(2) == 0}
		cases = append(cases, ev.Case{Idx: len(cases), Desc: fmt.Sprintf("%+v", e), Data: e})
	}
	// more than 100000 pixels in fewer rows (columns) than a host has cores: degenerate row partitions
	for _, e := range []c01Case{
		{Class: "pal4", Alpha: "binary", Type: "NRGBA", W: 16000, H: 9, Method: 1, Quality: 50},
		{Class: "flat", Alpha: "opaque", Type: "NRGBA", W: 8192, H: 15, Method: 0, Quality: 75},
		{Class: "tiles", Alpha: "gradient", Type: "NRGBA", W: 7, H: 15000, Method: 2, Quality: 30, Exact: true},
	} {
		cases = append(cases, ev.Case{Idx: len(cases), Desc: fmt.Sprintf("%+v", e), Data: e})
	}
	if c.Thorough() {
		// thin strips at the dimension limit and a few large pictures
		extra := []c01Case{
			{Class: "tiles", Alpha: "opaque", Type: "NRGBA", W: 16383, H: 1, Method: 4, Quality: 75},
			{Class: "pal4", Alpha: "binary", Type: "NRGBA", W: 1, H: 16383, Method: 6, Quality: 100},
			{Class: "photo", Alpha: "gradient", Type: "NRGBA", W: 16383, H: 2, Method: 2, Quality: 50},
			{Class: "pal16", Alpha: "opaque", Type: "NRGBA", W: 3, H: 16383, Method: 5, Quality: 90},
			{Class: "photo", Alpha: "opaque", Type: "NRGBA", W: 1024, H: 1024, Method: 4, Quality: 75},
			{Class: "tiles", Alpha: "binary", Type: "NRGBA", W: 1000, H: 700, Method: 6, Quality: 100},
			{Class: "noise", Alpha: "noise", Type: "NRGBA", W: 777, H: 513, Method: 3, Quality: 60, Exact: true},
			{Class: "pal256", Alpha: "levels3", Type: "NRGBA", W: 900, H: 900, Method: 5, Quality: 80},
			// incompressible RGBA of 8300x8300: the lossless output exceeds the 256 MiB the decoding entry points accept;
			// Encode has to refuse (counted) rather than write a file Decode refuses (about 2 minutes, 6 GB)
			{Class: "noise", Alpha: "noise", Type: "NRGBA", W: 8300, H: 8300, Method: 0, Quality: 0, Exact: true},
		}
		for _, e := range extra {
			cases = append(cases, ev.Case{Idx: len(cases), Desc: fmt.Sprintf("%+v", e), Data: e})
		}
	}
	c.RunCases(cases, 0, func(cs ev.Case) { c01One(c, cs, lwOK) })
}

func c01One(c *ev.Ctx, cs ev.Case, lwOK bool) {
	cc := cs.Data.(c01Case)
	r := rng(c, cs.Idx+1<<20)
	base := img.Gen(r, cc.Class, cc.Alpha, cc.W, cc.H)
	if cc.Class == "farrepeat" {
		// > 2^20 pixels with a run repeated just below 2^20 pixels later (distance-code range end)
		base = img.FarRepeat(r, cc.W, cc.H, 1<<20-1-r.Intn(18), 150+r.Intn(100))
	}
	if r.Intn(4) == 0 {
		base = img.Shift(base, r.Intn(30)-8, r.Intn(30)-8)
	}
	src := img.AsType(r, base, cc.Type)
	want := img.ToNRGBA(src)
	o := webp.DefaultOptions()
	o.Lossless = true
	o.Method = cc.Method
	o.Quality = cc.Quality
	o.Exact = cc.Exact
	switch cc.Meta {
	case 1:
		o.ICC = []byte("icc-profile-bytes-odd")
	case 2:
		o.EXIF = []byte("exif!")
		o.XMP = []byte("<x:xmpmeta/>")
	}
	data, err := encode(src, o)
	c.Eval(1)
	if err != nil && cc.W*cc.H > 60000000 && strings.Contains(err.Error(), "too large") {
		// more than 256 MiB of output: refusing is the only right answer (Decode would refuse the file)
		c.Count("huge_output_refused_by_encode", 1)
		c.Eval(1)
		c.Distinct("huge-output-refused")
		return
	}
	if err != nil {
		c.Violate(cs, "encode-error", map[string]string{"type": cc.Type}, "lossless Encode of a legal image/options returned: "+err.Error(), nil)
		return
	}
	sig := "?"
	if p, ok := riffChunks(data)["VP8L"]; ok {
		sig = vp8lSig(p)
	}
	c.Distinct(fmt.Sprintf("%s|%s|%s|%s|%d|%g|%v|%d|%s", cc.Class, cc.Alpha, cc.Type, sizeBucket(cc.W, cc.H), cc.Method, cc.Quality, cc.Exact, cc.Meta, sig))
	c.Count("sig_"+sig, 1)
	if cs.Idx%400 == 0 {
		c.Sample(map[string]any{"case": cs.Desc, "bytes": len(data), "transform_sig": sig})
	}
	dec, err := decode(data)
	if err != nil {
		c.Violate(cs, "decode-error", map[string]string{"sig": sig}, "Decode of Encode's output failed: "+err.Error(), map[string]string{"file": b64(data)})
		return
	}
	if dec.Bounds().Dx() != cc.W || dec.Bounds().Dy() != cc.H {
		c.Violate(cs, "size-mismatch", nil, fmt.Sprintf("decoded %v, source %dx%d", dec.Bounds(), cc.W, cc.H), map[string]string{"file": b64(data)})
		return
	}
	got := toNRGBA(dec)
	bad, where := c01Compare(want, got, cc.Exact)
	if bad == 0 {
		return
	}
	// attribution through the independent decoder
	side := "unknown"
	if lwOK {
		if p, w2, h2, e := lw.DecodeRGBA(data); e == nil && w2 == cc.W && h2 == cc.H {
			lwImg := &image.NRGBA{Pix: p, Stride: w2 * 4, Rect: image.Rect(0, 0, w2, h2)}
			if b2, _ := c01Compare(want, lwImg, cc.Exact); b2 == 0 {
				side = "decoder"
			} else {
				side = "encoder"
			}
		}
	}
	class := "pixel-mismatch"
	attrs := map[string]string{"side": side, "sig": sig, "type": cc.Type}
	if dir := os.Getenv("VERIF_DUMP_DIR"); dir != "" { // debugging aid: the source picture of a failing case
		os.MkdirAll(dir, 0o755)
		os.WriteFile(fmt.Sprintf("%s/c01-%d-%dx%d.nrgba", dir, cs.Idx, cc.W, cc.H), img.Tight(want), 0o644)
	}
	if side == "encoder" && (cc.Type == "RGBA" || cc.Type == "RGBA64") && c01OnlyPremulRounding(src, want, got) {
		class = "premultiplied-source-rounding"
	}
	c.Violate(cs, class, attrs, fmt.Sprintf("%d pixels differ (%s); side=%s sig=%s", bad, where, side, sig), map[string]string{"file": b64(data)})
}

// c01Compare counts pixels violating the round-trip rule.
func c01Compare(want, got *image.NRGBA, exact bool) (int, string) {
	w, h := want.Rect.Dx(), want.Rect.Dy()
	bad := 0
	where := ""
	for y := 0; y < h; y++ {
		for x := 0; x < w; x++ {
			a := nrgbaAt(want, x, y)
			b := nrgbaAt(got, x, y)
			if a == b {
				continue
			}
			if !exact && a.A == 0 && b.A == 0 && b.R == 0 && b.G == 0 && b.B == 0 {
				continue
			}
			if bad == 0 {
				where = fmt.Sprintf("first at (%d,%d): source %v decoded %v", x, y, a, b)
			}
			bad++
		}
	}
	return bad, where
}

// c01OnlyPremulRounding: every differing pixel is partially transparent, has equal alpha, and
// each channel differs by at most 1 (the un-premultiplication rounding question S1).
func c01OnlyPremulRounding(src image.Image, want, got *image.NRGBA) bool {
	w, h := want.Rect.Dx(), want.Rect.Dy()
	d := func(a, b uint8) bool { return a == b || a == b+1 || b == a+1 }
	for y := 0; y < h; y++ {
		for x := 0; x < w; x++ {
			a, b := nrgbaAt(want, x, y), nrgbaAt(got, x, y)
			if a == b {
				continue
			}
			if a.A != b.A || a.A == 0 || a.A == 255 || !d(a.R, b.R) || !d(a.G, b.G) || !d(a.B, b.B) {
				return false
			}
		}
	}
	return true
}
