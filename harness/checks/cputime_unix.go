//go:build !js

package checks

import "syscall"

func cpuSeconds() float64 {
	var ru syscall.Rusage
	syscall.Getrusage(syscall.RUSAGE_SELF, &ru)
	return float64(ru.Utime.Sec+ru.Stime.Sec) + float64(ru.Utime.Usec+ru.Stime.Usec)/1e6
}
