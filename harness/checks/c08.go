package checks

import (
	"bytes"
	"fmt"
	webp "github.com/deepteams/webp"
	"image"
	"image/color"
	"math/rand"
	"time"

	"github.com/deepteams/webp/animation"

	"verif/ev"
	"verif/img"
	"verif/refanim"
	"verif/riffwalk"
)

func init() {
	Registry["C08"] = Check{Level: "exploration", Run: func(c *ev.Ctx) { runAnimRoundTrip(c, false) }}
	Registry["C18"] = Check{Level: "exploration", Run: func(c *ev.Ctx) { runAnimRoundTrip(c, true) }}
}

type animHist struct {
	CW, CH    int
	Canvases  []*image.NRGBA // what the picture should look like after each AddFrame (canvas-sized)
	Inputs    []image.Image  // what is handed to AddFrame (may be smaller / a sub-image view)
	Durations []int          // ms
	Steps     []string
	Opts      animation.EncodeOptions
}

// genHistory draws a frame history from the mutation grammar.
func genHistory(r *rand.Rand, maxSide, maxLen int, alphaOnly bool) animHist {
	h := animHist{CW: 1 + r.Intn(maxSide), CH: 1 + r.Intn(maxSide)}
	if r.Intn(12) == 0 {
		h.CW, h.CH = 1, 1
	}
	if r.Intn(5) == 0 { // elongated canvases
		h.CW, h.CH = 8+r.Intn(3*maxSide), 2+r.Intn(max(2, maxSide/3))
		if r.Intn(2) == 0 {
			h.CW, h.CH = h.CH, h.CW
		}
	}
	alpha := pickS(r, "opaque", "opaque", "binary", "gradient", "levels3", "blocks", "noise", "transparentrgb")
	if alphaOnly {
		alpha = pickS(r, "binary", "gradient", "levels3", "blocks", "noise", "transparentrgb", "levels16", "onepix")
	}
	cur := img.Gen(r, img.Pick(r, img.Classes), alpha, h.CW, h.CH)
	n := 1 + r.Intn(maxLen)
	durs := []int{0, 1, 40, 100, 1000, 0xFFFFFF, 0xFFFFFE, 0x800000, 0x7FFFFF, 0x1000000}
	// scripted flavour: forced key frames every kmaxScript frames, and the picture right after a
	// (non-first) key frame erases most of the canvas: the dispose-to-background candidate matters there
	kmaxScript := 0
	if r.Intn(6) == 0 {
		kmaxScript = 2 + r.Intn(2)
		n = max(n, 2*kmaxScript+2)
	}
	// scripted flavour: the second picture repeats the first with durations that overflow one frame (a 1x1 filler frame
	// becomes the previous frame), and the third erases most of the canvas (dispose-to-background candidate)
	overflowScript := kmaxScript == 0 && r.Intn(10) == 0
	if overflowScript {
		n = max(n, 3)
	}
	for i := 0; i < n; i++ {
		step := "initial"
		forceClearMost := kmaxScript > 0 && i > kmaxScript && i%kmaxScript == 1%kmaxScript && r.Intn(3) != 0
		if kmaxScript == 2 {
			forceClearMost = i >= 3 && i%2 == 1 && r.Intn(3) != 0
		}
		if i > 0 {
			nxt := image.NewNRGBA(cur.Rect)
			copy(nxt.Pix, cur.Pix)
			x0, y0 := r.Intn(h.CW), r.Intn(h.CH)
			x1, y1 := x0+1+r.Intn(h.CW-x0), y0+1+r.Intn(h.CH-y0)
			set := func(x, y int, c [4]byte) { o := nxt.PixOffset(x, y); copy(nxt.Pix[o:o+4], c[:]) }
			k := r.Intn(14)
			if forceClearMost {
				k = 12
			}
			if overflowScript { // identical picture (its duration overflows the frame before it), then most of the canvas goes transparent
				switch i {
				case 1:
					k = 0
				case 2:
					k = 12
				}
			}
			switch k {
			case 12, 13: // most of the picture (anchored at a corner) becomes transparent, the rest is untouched
				fw, fh := h.CW*(60+r.Intn(36))/100, h.CH*(60+r.Intn(41))/100
				if r.Intn(2) == 0 {
					fw, fh = min(h.CW, h.CH), min(h.CW, h.CH) // the largest origin-anchored square
				}
				ox, oy := 0, 0
				if r.Intn(4) == 0 {
					ox, oy = h.CW-fw, h.CH-fh
				}
				if overflowScript && i == 2 && r.Intn(2) == 0 { // everything goes, only a sprite (if any) stays
					fw, fh, ox, oy = h.CW, h.CH, 0, 0
				}
				step = fmt.Sprintf("clear-most[%d,%d,%d,%d]", ox, oy, ox+fw, oy+fh)
				// optionally a small sprite inside the cleared area survives
				sx0, sy0, sx1, sy1 := -1, -1, -1, -1
				if r.Intn(2) == 0 && fw > 2 && fh > 2 {
					sx0, sy0 = ox+r.Intn(fw-1), oy+r.Intn(fh-1)
					sx1, sy1 = min(ox+fw, sx0+1+r.Intn(4)), min(oy+fh, sy0+1+r.Intn(4))
					step += "+sprite"
				}
				for y := oy; y < oy+fh; y++ {
					for x := ox; x < ox+fw; x++ {
						if x >= sx0 && x < sx1 && y >= sy0 && y < sy1 {
							continue
						}
						nxt.Pix[nxt.PixOffset(x, y)+3] = 0
						if overflowScript && i == 2 { // transparent black, the value disposal leaves behind
							o := nxt.PixOffset(x, y)
							nxt.Pix[o], nxt.Pix[o+1], nxt.Pix[o+2] = 0, 0, 0
						}
					}
				}
			case 0:
				step = "repeat"
			case 1: // change k pixels inside a rectangle
				step = fmt.Sprintf("speckle[%d,%d,%d,%d]", x0, y0, x1, y1)
				for j := 0; j < 1+r.Intn(6); j++ {
					x, y := x0+r.Intn(x1-x0), y0+r.Intn(y1-y0)
					set(x, y, [4]byte{byte(r.Intn(256)), byte(r.Intn(256)), byte(r.Intn(256)), []byte{0, 128, 255, byte(r.Intn(256))}[r.Intn(4)]})
				}
			case 2: // set alpha of a region
				a := []byte{0, 128, 255}[r.Intn(3)]
				step = fmt.Sprintf("alpha=%d[%d,%d,%d,%d]", a, x0, y0, x1, y1)
				for y := y0; y < y1; y++ {
					for x := x0; x < x1; x++ {
						nxt.Pix[nxt.PixOffset(x, y)+3] = a
					}
				}
			case 3: // change colours inside a rect but leave semi-transparent pixels untouched
				step = fmt.Sprintf("recolour-opaque-only[%d,%d,%d,%d]", x0, y0, x1, y1)
				for y := y0; y < y1; y++ {
					for x := x0; x < x1; x++ {
						o := nxt.PixOffset(x, y)
						if nxt.Pix[o+3] == 255 || nxt.Pix[o+3] == 0 {
							nxt.Pix[o] ^= 0x3c
							nxt.Pix[o+1] += 17
						}
					}
				}
			case 4: // make a region semi-transparent, corners changed
				step = fmt.Sprintf("semi[%d,%d,%d,%d]", x0, y0, x1, y1)
				for y := y0; y < y1; y++ {
					for x := x0; x < x1; x++ {
						nxt.Pix[nxt.PixOffset(x, y)+3] = byte(64 + r.Intn(128))
					}
				}
			case 5: // full-canvas change
				step = "full"
				nxt = img.Gen(r, img.Pick(r, img.Classes), alpha, h.CW, h.CH)
			case 6: // diagonal / staircase stroke (ragged right edge)
				step = "diagonal"
				for t := 0; t < max(h.CW, h.CH); t++ {
					x, y := x0+t, y0+t
					if x < h.CW && y < h.CH {
						set(x, y, [4]byte{byte(r.Intn(256)), 7, 200, 255})
					}
				}
			case 7: // a single column / row (left edge, top edge)
				step = "edge-line"
				if r.Intn(2) == 0 {
					xx := []int{0, h.CW - 1}[r.Intn(2)]
					for y := y0; y < y1; y++ {
						set(xx, y, [4]byte{1, byte(r.Intn(256)), 3, []byte{255, 200}[r.Intn(2)]})
					}
				} else {
					yy := []int{0, h.CH - 1}[r.Intn(2)]
					for x := x0; x < x1; x++ {
						set(x, yy, [4]byte{byte(r.Intn(256)), 2, 3, 255})
					}
				}
			case 8: // region becomes transparent again (with colour kept underneath)
				step = fmt.Sprintf("clear[%d,%d,%d,%d]", x0, y0, x1, y1)
				for y := y0; y < y1; y++ {
					for x := x0; x < x1; x++ {
						nxt.Pix[nxt.PixOffset(x, y)+3] = 0
					}
				}
			case 9: // one pixel only
				step = "onepixel"
				set(r.Intn(h.CW), r.Intn(h.CH), [4]byte{byte(r.Intn(256)), byte(r.Intn(256)), 9, []byte{255, 255, 77, 0}[r.Intn(4)]})
			case 10: // slow fade of the translucent pixels (alpha moves by 1..3)
				step = "fade"
				d := 1 + r.Intn(3)
				for o := 3; o < len(nxt.Pix); o += 4 {
					if nxt.Pix[o] > 3 && nxt.Pix[o] < 255 {
						nxt.Pix[o] -= byte(d)
					} else if nxt.Pix[o] == 255 && r.Intn(4) == 0 {
						nxt.Pix[o] -= byte(d)
					}
				}
			default: // rectangle replaced by new content
				step = fmt.Sprintf("rect[%d,%d,%d,%d]", x0, y0, x1, y1)
				src := img.Gen(r, img.Pick(r, img.Classes), alpha, h.CW, h.CH)
				for y := y0; y < y1; y++ {
					copy(nxt.Pix[nxt.PixOffset(x0, y):nxt.PixOffset(x0, y)+4*(x1-x0)], src.Pix[src.PixOffset(x0, y):])
				}
			}
			cur = nxt
		}
		var in image.Image = cur
		want := cur
		switch r.Intn(10) {
		case 0: // frame smaller than the canvas (anywhere in the history, footprints vary): sits at (0,0), rest transparent
			if h.CW > 1 && h.CH > 1 {
				sw, sh := 1+r.Intn(h.CW), 1+r.Intn(h.CH)
				small := image.NewNRGBA(image.Rect(0, 0, sw, sh))
				full := image.NewNRGBA(cur.Rect)
				for y := 0; y < sh; y++ {
					copy(small.Pix[y*small.Stride:y*small.Stride+sw*4], cur.Pix[y*cur.Stride:])
					copy(full.Pix[y*full.Stride:y*full.Stride+sw*4], cur.Pix[y*cur.Stride:])
				}
				in, want = small, full
				cur = full
				step += "+smaller-than-canvas"
			}
		case 1: // sub-image view with foreign stride and non-zero origin
			in = img.Place(r, cur, "subimage", 0x5a)
			step += "+subimage-view"
		case 2:
			in = img.Place(r, cur, pickS(r, "stridepad", "offset", "wrapper"), 0xa5)
			step += "+placement"
		}
		h.Canvases = append(h.Canvases, want)
		h.Inputs = append(h.Inputs, in)
		h.Durations = append(h.Durations, durs[r.Intn(len(durs))])
		if r.Intn(3) != 0 {
			h.Durations[i] = []int{0, 20, 40, 100}[r.Intn(4)]
		}
		if overflowScript && i < 2 {
			h.Durations[i] = []int{0xFFFFFF, 0xFFFFFE, 0x800000}[r.Intn(3)]
		}
		h.Steps = append(h.Steps, fmt.Sprintf("%s/%dms", step, h.Durations[i]))
	}
	h.Opts = animation.EncodeOptions{Lossless: true, Quality: pickI(r, 0, 50, 75, 100), LoopCount: pickI(r, 0, 1, 7, 65535)}
	switch r.Intn(6) {
	case 0:
		h.Opts.Kmin, h.Opts.Kmax = 0, 0
	case 1:
		h.Opts.Kmin, h.Opts.Kmax = 1, 1
	case 2:
		h.Opts.Kmin, h.Opts.Kmax = 1, 2
	case 3:
		h.Opts.Kmin, h.Opts.Kmax = 3, 5
	case 4:
		h.Opts.Kmin, h.Opts.Kmax = 1000, 100000
	}
	if kmaxScript > 0 {
		h.Opts.Kmin, h.Opts.Kmax = 1, kmaxScript
	}
	// The ANIM background colour is a hint that players ignore (disposal clears to transparent); it must not
	// influence what plays back. A colour that actually occurs in the pictures is the interesting choice.
	switch r.Intn(4) {
	case 0:
		p := h.Canvases[r.Intn(len(h.Canvases))]
		o := p.PixOffset(r.Intn(h.CW), r.Intn(h.CH))
		h.Opts.BackgroundColor = color.NRGBA{p.Pix[o], p.Pix[o+1], p.Pix[o+2], 255}
	case 1:
		h.Opts.BackgroundColor = []color.NRGBA{{255, 255, 255, 255}, {0, 0, 0, 255}, {255, 255, 255, 128}, {10, 200, 30, 1}}[r.Intn(4)]
	}
	return h
}

// normCanvas returns the tight pixels with colour under alpha 0 zeroed (transparent pixels compare equal).
func normCanvas(m *image.NRGBA, alphaOnly bool) []byte {
	p := img.Tight(m)
	for o := 0; o < len(p); o += 4 {
		if alphaOnly || p[o+3] == 0 {
			p[o], p[o+1], p[o+2] = 0, 0, 0
		}
	}
	return p
}

type pic struct {
	pix []byte
	dur int64
}

func mergePics(ps []pic) []pic {
	var out []pic
	for _, p := range ps {
		if n := len(out); n > 0 && bytes.Equal(out[n-1].pix, p.pix) {
			out[n-1].dur += p.dur
		} else {
			out = append(out, p)
		}
	}
	return out
}

func runAnimRoundTrip(c *ev.Ctx, lossyAlpha bool) {
	if !lossyAlpha {
		c.Rule = "lossless AnimEncoder -> bytes -> DecodeBytes -> DecodeFrames -> AnimDecoder playback over frame histories from a mutation grammar (speckles, alpha toggles, untouched " +
			"translucent pixels inside changed rectangles, regions becoming transparent again, repeats, single edge lines, diagonal strokes, fades, full changes, 1x1 canvases, frames smaller " +
			"than the canvas, sub-image views) x durations (0..2^24 incl. the per-frame maximum 2^24-1, one above it, and merge overflow) x Kmin/Kmax x loop count; both sides normalised by merging consecutive identical canvases " +
			"(transparent pixels equal whatever their colour); with >= 2 distinct pictures also per-picture display time, total duration, loop count; playback is done twice (AnimDecoder and " +
			"an independent compositor) for attribution; distinct = (grammar steps multiset, canvas bucket, options)"
	} else {
		c.Rule = "lossy and mixed-codec AnimEncoder over alpha-bearing frame histories (same grammar) x Lossless{false,true} x AllowMixed{false,true} x Quality x Kmin/Kmax; the played-back " +
			"alpha plane must equal the source alpha plane frame by frame (after merging consecutive frames with identical alpha); codec actually used per frame read back from the file; " +
			"distinct = (grammar steps multiset, options, codecs used)"
	}
	n := c.N(8000, 600000)
	if lossyAlpha {
		n = c.N(5000, 250000)
	}
	var cases []ev.Case
	for i := 0; i < n; i++ {
		cases = append(cases, ev.Case{Idx: i, Desc: "history"})
	}
	c.RunCases(cases, 0, func(cs ev.Case) { animOne(c, cs, lossyAlpha) })
}

func animOne(c *ev.Ctx, cs ev.Case, lossyAlpha bool) {
	r := rng(c, cs.Idx)
	maxSide, maxLen := 24, 12
	if c.Thorough() && cs.Idx%10 == 0 {
		maxSide, maxLen = 96, 40
	}
	h := genHistory(r, maxSide, maxLen, lossyAlpha)
	if lossyAlpha {
		switch cs.Idx % 3 {
		case 0:
			h.Opts.Lossless, h.Opts.AllowMixed = false, false
		case 1:
			h.Opts.Lossless, h.Opts.AllowMixed = false, true
		default:
			h.Opts.Lossless, h.Opts.AllowMixed = true, true
		}
	}
	// Pre-encoded frames (AddRawFrame, AddFrame(NewBitstreamFrame)) in 1/8 of the lossless histories: alone, after one
	// optimised picture, or in the middle of a history. What a raw frame must look like on the canvas follows from
	// the container's compositing rules (reference compositor over the canvas shown before it); a picture added with
	// AddFrame after raw frames must again play back as exactly that picture.
	rawMode := ""
	if !lossyAlpha && cs.Idx%8 == 5 {
		rawMode = []string{"tail", "only", "mid", "mid"}[(cs.Idx/8)%4]
	}
	switch rawMode {
	case "tail":
		h.Inputs, h.Canvases, h.Durations, h.Steps = h.Inputs[:1], h.Canvases[:1], h.Durations[:1], h.Steps[:1]
	case "only":
		h.Inputs, h.Canvases, h.Durations, h.Steps = nil, nil, nil, nil
	}
	var buf bytes.Buffer
	opts := h.Opts
	e := animation.NewEncoder(&buf, h.CW, h.CH, &opts)
	var outCanv []*image.NRGBA
	var outDur []int
	var outSteps []string
	addRaws := func(prev *image.NRGBA, n int) bool {
		var model []refanim.Frame
		if prev != nil {
			model = append(model, refanim.Frame{X: 0, Y: 0, W: h.CW, H: h.CH, Pix: img.Tight(prev)})
		}
		for k := 0; k < n; k++ {
			fw, fh := 1+r.Intn(h.CW), 1+r.Intn(h.CH)
			ox, oy := 2*r.Intn((h.CW-fw)/2+1), 2*r.Intn((h.CH-fh)/2+1)
			viaAddFrame := r.Intn(3) == 0 // AddFrame(NewBitstreamFrame(..)): at the origin, alpha-blended, not disposed
			if viaAddFrame {
				ox, oy = 0, 0
			}
			m := img.Gen(r, img.Pick(r, img.Classes), pickS(r, "opaque", "binary", "gradient", "blocks"), fw, fh)
			lo := webp.DefaultOptions()
			lo.Lossless, lo.Exact = true, true
			file, err := encode(m, lo)
			bs := riffChunks(file)["VP8L"]
			if err != nil || bs == nil {
				c.Fatal("cannot build a raw frame: %v", err)
				return false
			}
			blend, dispose := r.Intn(2) == 0, r.Intn(3) == 0
			if viaAddFrame {
				blend, dispose = true, false
			}
			bm, dm := animation.BlendNone, animation.DisposeNone
			if blend {
				bm = animation.BlendAlpha
			}
			if dispose {
				dm = animation.DisposeBackground
			}
			dur := 1 + r.Intn(500)
			if r.Intn(6) == 0 {
				dur = pickI(r, 0xFFFFFF, 0x1000000, 0x1000001) // at and above what one frame can hold
			} else if r.Intn(5) == 0 {
				dur = 0 // a lone frame without a display time is no animation by the muxer's rule: canvas and offset must survive all the same
			}
			if viaAddFrame {
				err = e.AddFrame(animation.NewBitstreamFrame(bs, fw, fh), time.Duration(dur)*time.Millisecond)
			} else {
				err = e.AddRawFrame(bs, time.Duration(dur)*time.Millisecond, ox, oy, bm, dm)
			}
			if err != nil && dur > 0xFFFFFF {
				// a pre-encoded frame cannot be split into picture + filler frames: refusing a duration the format
				// cannot store is the honest answer (storing another one silently is not)
				c.Count("raw_frame_duration_above_maximum_refused", 1)
				continue
			}
			if err != nil {
				c.Violate(cs, "addrawframe-error", nil, fmt.Sprintf("raw frame %d (%dx%d at %d,%d, via AddFrame=%v): %v", k, fw, fh, ox, oy, viaAddFrame, err), nil)
				return false
			}
			model = append(model, refanim.Frame{X: ox, Y: oy, W: fw, H: fh, Pix: img.Tight(m), Blend: blend, Dispose: dispose})
			outSteps = append(outSteps, fmt.Sprintf("raw[%dx%d@%d,%d blend=%v dispose=%v bitstreamframe=%v]/%dms", fw, fh, ox, oy, blend, dispose, viaAddFrame, dur))
			outDur = append(outDur, dur)
		}
		played := refanim.Play(h.CW, h.CH, model)
		if prev != nil {
			played = played[1:]
		}
		for _, cv := range played {
			outCanv = append(outCanv, &image.NRGBA{Pix: cv, Stride: h.CW * 4, Rect: image.Rect(0, 0, h.CW, h.CH)})
		}
		return true
	}
	if rawMode == "only" && !addRaws(nil, 1+r.Intn(3)) {
		return
	}
	rawPos := -1
	if rawMode == "tail" {
		rawPos = 0
	} else if rawMode == "mid" {
		rawPos = r.Intn(len(h.Inputs))
	}
	for i, in := range h.Inputs {
		if err := e.AddFrame(in, time.Duration(h.Durations[i])*time.Millisecond); err != nil {
			cs.Desc = fmt.Sprintf("canvas %dx%d %v opts=%+v", h.CW, h.CH, append(outSteps, h.Steps[i:]...), h.Opts)
			c.Violate(cs, "addframe-error", nil, fmt.Sprintf("frame %d: %v", i, err), nil)
			return
		}
		outCanv, outDur, outSteps = append(outCanv, h.Canvases[i]), append(outDur, h.Durations[i]), append(outSteps, h.Steps[i])
		if i == rawPos && !addRaws(h.Canvases[i], 1+r.Intn(3)) {
			return
		}
	}
	h.Canvases, h.Durations, h.Steps = outCanv, outDur, outSteps
	cs.Desc = fmt.Sprintf("canvas %dx%d %v opts=%+v", h.CW, h.CH, h.Steps, h.Opts)
	if len(outCanv) == 0 { // every pre-encoded frame of a raw-only history was refused (durations above the maximum)
		c.Count("histories_without_any_accepted_frame", 1)
		return
	}
	if err := e.Close(); err != nil {
		c.Violate(cs, "close-error", nil, err.Error(), nil)
		return
	}
	c.Eval(1)
	data := buf.Bytes()
	rep := func() any { return map[string]any{"history": cs.Desc, "seed_case": cs.Idx, "file": b64(data)} }

	// expected sequence
	var exp []pic
	for i, cv := range h.Canvases {
		exp = append(exp, pic{normCanvas(cv, lossyAlpha), int64(h.Durations[i])})
	}
	exp = mergePics(exp)

	// structure + codecs used
	info, issues := riffwalk.Walk(data)
	for _, is := range issues {
		c.Violate(cs, "structure/"+is.Rule, map[string]string{"rule": is.Rule}, is.Msg, rep())
	}
	codecs := ""
	if info != nil {
		seen := map[string]bool{}
		for i, f := range info.Frames {
			if i > 0 && f.X == 0 && f.Y == 0 && f.W == h.CW && f.H == h.CH {
				c.Count("nonfirst_full_canvas_frames", 1)
				if f.Dispose && i+1 < len(info.Frames) {
					c.Count("nonfirst_full_canvas_frames_disposed_to_background", 1)
					if h.CW != h.CH {
						c.Count("nonfirst_full_canvas_frames_disposed_to_background_nonsquare", 1)
					}
				}
			}
			if f.Dispose {
				c.Count("frames_disposed_to_background", 1)
			}
			if f.BS != nil {
				k := f.BS.Codec
				if f.HasALPH {
					k += "+ALPH"
				}
				if !seen[k] {
					seen[k] = true
					codecs += k + ","
				}
				c.Count("frames_"+k, 1)
			}
		}
	}
	an, err := animation.DecodeBytes(data)
	if err != nil {
		c.Violate(cs, "unreadable", nil, "animation.DecodeBytes: "+err.Error(), rep())
		return
	}
	if an.CanvasWidth != h.CW || an.CanvasHeight != h.CH {
		c.Violate(cs, "canvas-size", nil, fmt.Sprintf("canvas %dx%d, want %dx%d", an.CanvasWidth, an.CanvasHeight, h.CW, h.CH), rep())
		return
	}
	if err := an.DecodeFrames(); err != nil {
		c.Violate(cs, "frame-decode-error", nil, err.Error(), rep())
		return
	}
	var sumDur time.Duration
	for i := range an.Frames {
		sumDur += an.Frames[i].Duration
	}
	if td := an.TotalDuration(); td != sumDur {
		c.Violate(cs, "total-duration", map[string]string{"via": "Animation.TotalDuration"}, fmt.Sprintf("TotalDuration() = %v, frames add up to %v", td, sumDur), rep())
	}
	dec, err := animation.NewAnimDecoder(an)
	if err != nil {
		c.Violate(cs, "unplayable", nil, err.Error(), rep())
		return
	}
	var got []pic
	var rawPlay [][]byte
	for dec.HasNext() {
		f, d, err := dec.NextFrame()
		if err != nil {
			c.Violate(cs, "playback-error", nil, err.Error(), rep())
			return
		}
		rawPlay = append(rawPlay, img.Tight(f))
		got = append(got, pic{normCanvas(f, lossyAlpha), int64(d / time.Millisecond)})
	}
	// independent compositor on the decoded frames (attribution: playback vs encoder)
	var rf []refanim.Frame
	for i := range an.Frames {
		f := &an.Frames[i]
		m, ok := f.Image.(*image.NRGBA)
		if !ok {
			m = img.ToNRGBA(f.Image)
		}
		rf = append(rf, refanim.Frame{X: f.OffsetX, Y: f.OffsetY, W: m.Rect.Dx(), H: m.Rect.Dy(), Pix: img.Tight(m), Blend: f.Blend == animation.BlendAlpha, Dispose: f.Dispose == animation.DisposeBackground})
	}
	refPlay := refanim.Play(h.CW, h.CH, rf)
	side := "encoder"
	for i := range refPlay {
		if i < len(rawPlay) && !bytes.Equal(refPlay[i], rawPlay[i]) {
			side = "playback"
		}
	}
	got = mergePics(got)
	stepKinds := map[string]bool{}
	for _, s := range h.Steps {
		k := s
		for j, ch := range s {
			if ch == '[' || ch == '/' || ch == '=' {
				k = s[:j]
				break
			}
		}
		stepKinds[k] = true
	}
	ks := ""
	for _, k := range []string{"raw", "initial", "repeat", "speckle", "alpha", "recolour-opaque-only", "semi", "full", "diagonal", "edge-line", "clear", "clear-most", "onepixel", "fade", "rect"} {
		if stepKinds[k] {
			ks += k[:2] + k[len(k)-1:]
		}
	}
	c.Distinct(fmt.Sprintf("%s|%s|L=%v M=%v Q=%d k=%d/%d|%s", ks, sizeBucket(h.CW, h.CH), h.Opts.Lossless, h.Opts.AllowMixed, h.Opts.Quality, h.Opts.Kmin, h.Opts.Kmax, codecs))
	if len(got) != len(exp) {
		c.Violate(cs, "picture-sequence-length", map[string]string{"side": side}, fmt.Sprintf("played back %d distinct pictures, %d were added (file frames: %d)", len(got), len(exp), len(an.Frames)), rep())
		return
	}
	for i := range exp {
		if !bytes.Equal(exp[i].pix, got[i].pix) {
			cls := "picture-differs"
			if lossyAlpha {
				cls = "alpha-differs"
			}
			c.Violate(cs, cls, map[string]string{"side": side, "codecs": codecs}, fmt.Sprintf("picture %d of %d: %s (played vs source)", i, len(exp), firstPixelDiff(got[i].pix, exp[i].pix, h.CW)), rep())
			return
		}
	}
	if len(exp) >= 2 && !lossyAlpha {
		var te, tg int64
		for i := range exp {
			te += exp[i].dur
			tg += got[i].dur
			if exp[i].dur != got[i].dur {
				c.Violate(cs, "display-time", nil, fmt.Sprintf("picture %d shown %d ms, expected %d ms", i, got[i].dur, exp[i].dur), rep())
				break
			}
		}
		if te != tg {
			c.Violate(cs, "total-duration", nil, fmt.Sprintf("total %d ms, expected %d ms", tg, te), rep())
		}
		if an.LoopCount != h.Opts.LoopCount {
			c.Violate(cs, "loop-count", nil, fmt.Sprintf("loop count %d, expected %d", an.LoopCount, h.Opts.LoopCount), rep())
		}
	}
	if cs.Idx%400 == 0 {
		c.Sample(map[string]any{"history": cs.Desc, "file_frames": len(an.Frames), "distinct_pictures": len(exp), "codecs": codecs, "bytes": len(data)})
	}
}
