package checks

import (
	"bytes"
	"fmt"
	"github.com/deepteams/webp/animation"
	"image"
	"image/color"
	"image/draw"
	"math/rand"

	webp "github.com/deepteams/webp"

	"verif/ev"
	"verif/img"
	"verif/lw"
	"verif/riffwalk"
	"verif/ximage"
)

func init() { Registry["C02"] = Check{Level: "exploration", Run: runC02} }

type c02Case struct {
	Class, Alpha, Type string
	W, H               int
	Lossless           bool
	View               bool // the source is handed over as a sub-image view of a larger parent (stride > width)
}

// viewOf places a concrete image inside a larger parent of its own type and returns the sub-image view: same bounds,
// same colours, another stride and a Pix slice that goes on beyond the picture. The parent's other pixels are opaque.
func viewOf(r *rand.Rand, src image.Image) image.Image {
	b := src.Bounds()
	pr := image.Rect(b.Min.X-r.Intn(4), b.Min.Y-r.Intn(3), b.Max.X+1+r.Intn(2*b.Dx()+2), b.Max.Y+r.Intn(3))
	type sub interface {
		draw.Image
		SubImage(image.Rectangle) image.Image
	}
	var parent sub
	switch t := src.(type) {
	case *image.Paletted:
		p := image.NewPaletted(pr, t.Palette)
		for i, pc := range t.Palette {
			if _, _, _, a := pc.RGBA(); a == 0xffff {
				for k := range p.Pix {
					p.Pix[k] = uint8(i)
				}
				break
			}
		}
		for y := b.Min.Y; y < b.Max.Y; y++ { // indices copied as they are (a palette may hold the same colour twice)
			copy(p.Pix[p.PixOffset(b.Min.X, y):p.PixOffset(b.Min.X, y)+b.Dx()], t.Pix[t.PixOffset(b.Min.X, y):])
		}
		return p.SubImage(b)
	case *image.NRGBA:
		parent = image.NewNRGBA(pr)
	case *image.RGBA:
		parent = image.NewRGBA(pr)
	case *image.NRGBA64:
		parent = image.NewNRGBA64(pr)
	case *image.Gray:
		parent = image.NewGray(pr)
	default:
		return src
	}
	draw.Draw(parent, pr, image.NewUniform(color.NRGBA{90, 160, 20, 255}), image.Point{}, draw.Src)
	for y := b.Min.Y; y < b.Max.Y; y++ {
		for x := b.Min.X; x < b.Max.X; x++ {
			parent.Set(x, y, src.At(x, y))
		}
	}
	return parent.SubImage(b)
}

func runC02(c *ev.Ctx) {
	c.Rule = "Encode over legal EncoderOptions drawn field-by-field from boundary/sentinel sets (pairwise coverage measured) x image classes; " +
		"oracles: strict RIFF/VP8/VP8L/ALPH walker, declared dims/alpha vs source, webp.Decode, libwebp and x/image decoders, cross-decoder pixel equality; " +
		"distinct = (codec, alpha-bearing, extended?, ALPH header byte, partitions, filter type, segmentation, VP8L transform signature, size bucket, method)"
	lwOK := lw.SelfTest() == nil
	if !lwOK {
		c.Fatal("libwebp oracle unavailable: C02's independent-decoder clause cannot be decided")
	}
	c.Assume("libwebp 1.2.4 and golang.org/x/image (2019) are the independent implementations")
	c.Assume("the VP8L alpha_is_used bit is a hint: set-on-opaque is not flagged")
	pc := newPairCover()
	n := c.N(6000, 300000)
	if getenvInt("VERIF_C02_ONLYBIG", 0) == 1 { // drill switch: (almost) only the size-driven corner
		n = 16
	}
	var cases []ev.Case
	for i := 0; i < n; i++ {
		r := rng(c, i)
		cc := c02Case{Class: img.Classes[i%len(img.Classes)], Alpha: img.Pick(r, img.Alphas), Lossless: i%10 < 3,
			Type: pickS(r, "NRGBA", "NRGBA", "NRGBA", "RGBA", "Wrapper", "Gray", "YCbCr", "Paletted", "NRGBA64")}
		if r.Intn(3) == 0 {
			cc.Alpha = "opaque"
		}
		switch r.Intn(3) {
		case 0:
			cc.W, cc.H = img.Pick(r, img.SmallSizes), img.Pick(r, img.SmallSizes)
		case 1:
			cc.W, cc.H = 1+r.Intn(80), 1+r.Intn(80)
		default:
			cc.W, cc.H = 1+r.Intn(24), 1+r.Intn(24)
		}
		if i%20 == 7 {
			// >= 51 macroblocks of which one or two quantise to nothing: header-level decisions that depend
			// on frame-wide statistics (skip probability, segment map, partition balance)
			cc.Class, cc.Lossless = pickS(r, "flatpatch", "flatpatch", "flatpatch", "flatblock", "pillarbox"), false
			cc.W, cc.H = 113+r.Intn(96), 113+r.Intn(96)
		}
		if c.Thorough() && i%50 == 0 {
			cc.W, cc.H = 100+r.Intn(300), 100+r.Intn(300)
		}
		if i%15 == 11 {
			// views: a sub-image of a larger parent, with the transparency somewhere the first w*h bytes of Pix need not
			// reach (one pixel, or the bottom rows only)
			cc.View = true
			cc.Type = []string{"Paletted", "NRGBA", "RGBA", "NRGBA64", "Paletted", "Gray"}[(i/15)%6]
			cc.Alpha = pickS(r, "onepix", "onepix", "binary", "opaque", "gradient")
			cc.W, cc.H = max(cc.W, 2), max(cc.H, 4)
			cc.Lossless = (i/90)%3 == 0
			if cc.Type == "Paletted" { // few colours, so that the translucent one gets its own palette entry
				cc.Class = pickS(r, "pal16", "pal4", "pal64", "checker", "flat")
			}
		}
		cases = append(cases, ev.Case{Idx: i, Desc: fmt.Sprintf("%+v", cc), Data: cc})
	}
	c.RunCases(cases, 0, func(cs ev.Case) { c02One(c, cs, pc) })
	c.Extra("pairwise", pc.report())
	if c.Only < 0 && getenvInt("VERIF_C02_BIG", 1) == 1 {
		c02BigPartition(c, len(cases))
	}
	if c.Only < 0 && (c.Thorough() || getenvInt("VERIF_C02_BIGMETA", 0) == 1) {
		c02BigMeta(c, len(cases)+8)
	}
}

func c02One(c *ev.Ctx, cs ev.Case, pc *pairCover) {
	cc := cs.Data.(c02Case)
	r := rng(c, cs.Idx+1<<20)
	base := img.Gen(r, cc.Class, cc.Alpha, cc.W, cc.H)
	if r.Intn(4) == 0 {
		base = img.Shift(base, r.Intn(30)-8, r.Intn(30)-8)
	}
	if cc.View && cc.Alpha == "onepix" { // the one translucent pixel sits in the lower half
		for k := 3; k < len(base.Pix); k += 4 {
			base.Pix[k] = 255
		}
		base.Pix[base.PixOffset(base.Rect.Min.X+r.Intn(cc.W), base.Rect.Min.Y+cc.H/2+r.Intn(cc.H-cc.H/2))+3] = uint8(r.Intn(255))
	}
	src := img.AsType(r, base, cc.Type)
	if cc.View {
		src = viewOf(r, src)
	}
	o := legalOpts(r, cc.Lossless)
	if o.Pass > 3 && cc.W*cc.H > 4000 {
		o.Pass = 3
	}
	pc.add(o, "alpha="+cc.Alpha, "class="+cc.Class)
	want := img.ToNRGBA(src)
	srcAlpha := img.HasAlpha(want)
	data, err := encode(src, o)
	c.Eval(1)
	desc := cs.Desc + " " + optString(o)
	cs.Desc = desc
	rep := func() any { return map[string]string{"opts": optString(o), "file": b64(data)} }
	if err != nil {
		c.Violate(cs, "encode-error", nil, "Encode rejected legal options/image: "+err.Error(), rep())
		return
	}
	checkEncodedFile(c, cs, data, want, srcAlpha, o.Lossless, true, rep)
}

// checkEncodedFile applies every C02 oracle to one emitted file.
func checkEncodedFile(c *ev.Ctx, cs ev.Case, data []byte, want *image.NRGBA, srcAlpha, lossless, countDistinct bool, rep func() any) {
	W, H := want.Rect.Dx(), want.Rect.Dy()
	info, issues := riffwalk.Walk(data)
	for _, is := range issues {
		c.Violate(cs, "structure/"+is.Rule, map[string]string{"rule": is.Rule}, is.Msg, rep())
	}
	if info == nil || len(info.Frames) != 1 || info.Frames[0].BS == nil {
		if len(issues) == 0 {
			c.Violate(cs, "structure/no-image", nil, "walker found no image", rep())
		}
		return
	}
	f := info.Frames[0]
	bs := f.BS
	if info.Animated {
		c.Violate(cs, "structure/animated-still", nil, "Encode produced an animated file", rep())
	}
	if bs.W != W || bs.H != H || info.CanvasW != W || info.CanvasH != H {
		c.Violate(cs, "declared-dims", nil, fmt.Sprintf("source %dx%d, bitstream %dx%d, canvas %dx%d", W, H, bs.W, bs.H, info.CanvasW, info.CanvasH), rep())
	}
	if lossless != (bs.Codec == "VP8L") {
		c.Violate(cs, "wrong-codec", nil, fmt.Sprintf("Lossless=%v but codec %q", lossless, bs.Codec), rep())
	}
	declAlpha := f.HasALPH || (bs.Codec == "VP8L" && bs.AlphaBit)
	if srcAlpha && !declAlpha {
		c.Violate(cs, "alpha-not-declared", map[string]string{"codec": bs.Codec}, "source has non-opaque pixels but the file declares no alpha (no ALPH chunk / VP8L alpha bit)", rep())
	}
	if srcAlpha && info.Extended && info.Flags&riffwalk.FlagAlpha == 0 {
		c.Violate(cs, "alpha-not-declared", map[string]string{"codec": bs.Codec, "where": "vp8x"}, "source has alpha but VP8X alpha flag clear", rep())
	}
	if !srcAlpha && f.HasALPH {
		c.Violate(cs, "alpha-spurious", nil, "opaque source but an ALPH chunk was written", rep())
	}
	if f.HasALPH {
		m, _, _, _ := riffwalk.ALPHHeader(f.Alpha)
		if m == 0 && len(f.Alpha) != 1+W*H {
			c.Violate(cs, "structure/alph-raw-length", nil, fmt.Sprintf("raw ALPH payload %d bytes, want %d", len(f.Alpha), 1+W*H), rep())
		}
	}
	if countDistinct {
		alphHdr := -1
		if f.HasALPH && len(f.Alpha) > 0 {
			alphHdr = int(f.Alpha[0])
		}
		sig := ""
		if bs.Codec == "VP8L" {
			sig = vp8lSig(bs.Data)
		}
		c.Distinct(fmt.Sprintf("%s|a=%v|x=%v|alph=%d|p=%d|ft=%d|seg=%v|%s|%s", bs.Codec, srcAlpha, info.Extended, alphHdr, bs.Partitions, bs.FilterType, bs.Segmentation, sig, sizeBucket(W, H)))
		c.Count("codec_"+bs.Codec, 1)
		if f.HasALPH {
			c.Count(fmt.Sprintf("alph_hdr_%#02x", f.Alpha[0]), 1)
		}
		if bs.Codec == "VP8 " {
			c.Count(fmt.Sprintf("vp8_partitions_%d", bs.Partitions), 1)
		}
		if cs.Idx%300 == 0 {
			c.Sample(map[string]any{"case": cs.Desc, "bytes": len(data), "codec": bs.Codec, "extended": info.Extended, "alph": f.HasALPH})
		}
	}

	// 1. this package's decoder
	dec, err := decode(data)
	if err != nil {
		c.Violate(cs, "undecodable-by-package", map[string]string{"codec": bs.Codec}, "webp.Decode rejects Encode's output: "+err.Error(), rep())
		return
	}
	if dec.Bounds().Dx() != W || dec.Bounds().Dy() != H {
		c.Violate(cs, "decoded-size", nil, fmt.Sprintf("decoded %v source %dx%d", dec.Bounds(), W, H), rep())
		return
	}
	// 2. libwebp
	lp, lwW, lwH, lerr := lw.DecodeRGBA(data)
	if lerr != nil {
		c.Violate(cs, "undecodable-by-libwebp", map[string]string{"codec": bs.Codec}, "libwebp rejects Encode's output", rep())
		return
	}
	if lwW != W || lwH != H {
		c.Violate(cs, "decoded-size", map[string]string{"who": "libwebp"}, fmt.Sprintf("libwebp decoded %dx%d", lwW, lwH), rep())
		return
	}
	if fe, st := lw.GetFeatures(data); st == 0 {
		if srcAlpha && !fe.HasAlpha {
			c.Violate(cs, "alpha-not-declared", map[string]string{"who": "libwebp"}, "libwebp reports has_alpha=0 for a source with transparency", rep())
		}
	}
	c.Eval(1)
	switch d := dec.(type) {
	case *image.YCbCr:
		// opaque lossy: compare planes with libwebp's planes
		ly, e := lw.DecodeYUV(data, false)
		if e != nil {
			c.Violate(cs, "undecodable-by-libwebp", map[string]string{"api": "yuv"}, e.Error(), rep())
			return
		}
		if msg := cmpYCbCr(d, ly); msg != "" {
			c.Violate(cs, "decoders-disagree", map[string]string{"codec": "VP8 ", "what": "planes"}, "webp.Decode vs libwebp: "+msg, rep())
		}
		if f.HasALPH {
			c.Violate(cs, "alpha-dropped-by-decoder", nil, "file has ALPH but Decode returned *image.YCbCr", rep())
		}
		// "both yield the same pixels": the picture a caller sees is what the returned image reports through At().
		// The planes are the format's samples (compared above); how the returned image type turns them into colours
		// is part of what Decode returns.
		if got := img.Tight(toNRGBA(dec)); !bytes.Equal(got, lp) {
			c.Violate(cs, "decoded-colours-differ", map[string]string{"result_type": "ycbcr"},
				"the *image.YCbCr returned by Decode reports other colours than libwebp decodes: "+firstPixelDiff(got, lp, W), rep())
		}
		// the same file through the package's other decoding route: the animation reader hands every frame out as
		// *image.NRGBA, i.e. it converts the colours itself
		if an, e := animation.DecodeBytes(data); e == nil && an.DecodeFrames() == nil && len(an.Frames) == 1 {
			if fr, ok := an.Frames[0].Image.(*image.NRGBA); ok && fr.Rect.Dx() == W && fr.Rect.Dy() == H {
				if got := img.Tight(fr); !bytes.Equal(got, lp) {
					c.Violate(cs, "decoded-colours-differ", map[string]string{"result_type": "animation-frame-nrgba"},
						"the *image.NRGBA that animation.DecodeFrames returns for this lossy picture has other colours than libwebp decodes: "+firstPixelDiff(got, lp, W), rep())
				}
			}
		}
		// x/image on the bare payload
		if xm, e := ximage.DecodeVP8(bs.Data, false); e != nil {
			c.Violate(cs, "undecodable-by-ximage", map[string]string{"codec": "VP8 "}, e.Error(), rep())
		} else if msg := cmpYCbCrGo(d, xm); msg != "" {
			c.Violate(cs, "decoders-disagree", map[string]string{"codec": "VP8 ", "what": "planes", "who": "ximage"}, "webp.Decode vs x/image: "+msg, rep())
		}
	default:
		got := toNRGBA(dec)
		if !bytes.Equal(img.Tight(got), lp) {
			c.Violate(cs, "decoders-disagree", map[string]string{"codec": bs.Codec, "what": "rgba"}, "webp.Decode vs libwebp: "+firstPixelDiff(img.Tight(got), lp, W), rep())
		}
		if bs.Codec == "VP8L" {
			if xm, e := ximage.DecodeVP8L(bs.Data); e != nil {
				c.Inconclusive("ximage-rejects-vp8l")
			} else if xn := img.ToNRGBA(xm); !bytes.Equal(img.Tight(xn), lp) {
				c.Inconclusive("ximage-disagrees-with-libwebp-vp8l")
			}
		}
		if !srcAlpha {
			for i := 3; i < len(lp); i += 4 {
				if lp[i] != 255 {
					c.Violate(cs, "opaque-source-decodes-transparent", nil, "opaque source decodes with alpha != 255", rep())
					break
				}
			}
		}
	}
}

// cmpYCbCr compares a Go YCbCr image (4:2:0) against libwebp's tight planes.
func cmpYCbCr(d *image.YCbCr, l *lw.YUV) string {
	w, h := d.Rect.Dx(), d.Rect.Dy()
	if w != l.W || h != l.H {
		return fmt.Sprintf("size %dx%d vs %dx%d", w, h, l.W, l.H)
	}
	if d.SubsampleRatio != image.YCbCrSubsampleRatio420 {
		return "subsample ratio is not 4:2:0"
	}
	for y := 0; y < h; y++ {
		for x := 0; x < w; x++ {
			if d.Y[d.YOffset(d.Rect.Min.X+x, d.Rect.Min.Y+y)] != l.Y[y*w+x] {
				return fmt.Sprintf("Y differs at (%d,%d): %d vs %d", x, y, d.Y[d.YOffset(d.Rect.Min.X+x, d.Rect.Min.Y+y)], l.Y[y*w+x])
			}
		}
	}
	cw, ch := (w+1)/2, (h+1)/2
	for y := 0; y < ch; y++ {
		for x := 0; x < cw; x++ {
			o := d.COffset(d.Rect.Min.X+2*x, d.Rect.Min.Y+2*y)
			if d.Cb[o] != l.U[y*cw+x] {
				return fmt.Sprintf("Cb differs at (%d,%d): %d vs %d", x, y, d.Cb[o], l.U[y*cw+x])
			}
			if d.Cr[o] != l.V[y*cw+x] {
				return fmt.Sprintf("Cr differs at (%d,%d): %d vs %d", x, y, d.Cr[o], l.V[y*cw+x])
			}
		}
	}
	return ""
}

// cmpYCbCrGo compares two Go YCbCr images inside a's rectangle.
func cmpYCbCrGo(a, b *image.YCbCr) string {
	w, h := a.Rect.Dx(), a.Rect.Dy()
	if b.Rect.Dx() < w || b.Rect.Dy() < h {
		return fmt.Sprintf("size %v vs %v", a.Rect, b.Rect)
	}
	for y := 0; y < h; y++ {
		for x := 0; x < w; x++ {
			av := a.Y[a.YOffset(a.Rect.Min.X+x, a.Rect.Min.Y+y)]
			bv := b.Y[b.YOffset(b.Rect.Min.X+x, b.Rect.Min.Y+y)]
			if av != bv {
				return fmt.Sprintf("Y differs at (%d,%d): %d vs %d", x, y, av, bv)
			}
		}
	}
	for y := 0; y < h; y += 2 {
		for x := 0; x < w; x += 2 {
			ao := a.COffset(a.Rect.Min.X+x, a.Rect.Min.Y+y)
			bo := b.COffset(b.Rect.Min.X+x, b.Rect.Min.Y+y)
			if a.Cb[ao] != b.Cb[bo] || a.Cr[ao] != b.Cr[bo] {
				return fmt.Sprintf("chroma differs at (%d,%d)", x/2, y/2)
			}
		}
	}
	return ""
}

// c02BigPartition drives the size-driven corner: a picture whose first partition (mode data) comes close
// to / passes the 19-bit length field of the VP8 frame tag (photo-like content at Method 4 costs ~5.4 bytes of
// mode data per macroblock, so ~5000x5000 pixels). Encode must either fail or emit a file that is
// structurally valid, decodable by every decoder, with decoders agreeing.
// c02BigMeta (thorough tier): three metadata blobs, each below the per-blob limit, that add up to more than the
// 256 MiB the decoding entry points accept. Encode may refuse; a success must be a file Decode reads.
func c02BigMeta(c *ev.Ctx, idx int) {
	cs := ev.Case{Idx: idx, Desc: "8x8 picture with ICC + EXIF + XMP of 90 MiB each (270 MiB in total)"}
	mk := func(seed byte) []byte {
		b := make([]byte, 90<<20)
		for i := 0; i < len(b); i += 4099 {
			b[i] = seed + byte(i>>12)
		}
		return b
	}
	o := webp.DefaultOptions()
	o.ICC, o.EXIF, o.XMP = mk(1), mk(2), mk(3)
	data, err := encode(img.Gen(rng(c, idx), "photo", "opaque", 8, 8), o)
	c.Eval(1)
	c.Distinct("bigmeta")
	if err != nil {
		c.Extra("big_metadata_case", "Encode refused: "+err.Error())
		return
	}
	c.Extra("big_metadata_case", fmt.Sprintf("Encode wrote %d bytes", len(data)))
	if _, derr := decode(data); derr != nil {
		c.Violate(cs, "undecodable-by-package", map[string]string{"bigmeta": "1"}, fmt.Sprintf("Encode returned nil for a %d-byte file that Decode refuses: %v", len(data), derr), map[string]string{"generator": cs.Desc})
	}
	if _, ferr := webp.GetFeatures(bytes.NewReader(data)); ferr != nil {
		c.Violate(cs, "undecodable-by-package", map[string]string{"bigmeta": "1", "entry": "GetFeatures"}, fmt.Sprintf("GetFeatures refuses the %d-byte file Encode wrote: %v", len(data), ferr), map[string]string{"generator": cs.Desc})
	}
}

func c02BigPartition(c *ev.Ctx, idx int) {
	for k, side := range []int{4800, 5800} {
		cs := ev.Case{Idx: idx + k, Desc: fmt.Sprintf("photo %dx%d lossy Q100 M4 (first partition near/over 2^19 bytes)", side, side)}
		m := img.Gen(rng(c, 0), "photo", "opaque", side, side)
		o := webp.DefaultOptions()
		o.Quality = 100
		o.Method = 4
		data, err := encode(m, o)
		c.Eval(1)
		c.Count("big_partition_cases", 1)
		c.Distinct(fmt.Sprintf("bigpart|%d", side))
		if err != nil {
			c.Count("big_partition_encode_refused", 1)
			c.Extra(fmt.Sprintf("big_partition_case_%d", side), map[string]any{"case": cs.Desc, "result": "Encode returned error: " + err.Error()})
			continue
		}
		rep := func() any { return map[string]string{"generator": cs.Desc} }
		info, issues := riffwalk.Walk(data)
		for _, is := range issues {
			c.Violate(cs, "structure/"+is.Rule, map[string]string{"rule": is.Rule, "big": "1"}, is.Msg, rep())
		}
		if info == nil || len(info.Frames) != 1 || info.Frames[0].BS == nil {
			continue
		}
		bs := info.Frames[0].BS
		c.Extra(fmt.Sprintf("big_partition_case_%d", side), map[string]any{"case": cs.Desc, "bytes": len(data), "part0_field": bs.Part0Len})
		// the 19-bit field cannot say more than 2^19-1; a truncated value shows as a first partition that
		// is far too small for the number of macroblocks (every macroblock costs at least one bit of mode data)
		if mbs := ((side + 15) / 16) * ((side + 15) / 16); bs.Part0Len*8 < mbs {
			c.Violate(cs, "structure/vp8-part0", map[string]string{"big": "1"}, fmt.Sprintf("first partition field %d bytes for %d macroblocks: length field wrapped", bs.Part0Len, mbs), rep())
		}
		d, err := decode(data)
		if err != nil {
			c.Violate(cs, "undecodable-by-package", map[string]string{"big": "1"}, "webp.Decode rejects Encode's output: "+err.Error(), rep())
			continue
		}
		ly, e := lw.DecodeYUV(data, false)
		if e != nil {
			c.Violate(cs, "undecodable-by-libwebp", map[string]string{"big": "1"}, e.Error(), rep())
			continue
		}
		if yc, ok := d.(*image.YCbCr); !ok {
			c.Violate(cs, "wrong-image-type", map[string]string{"big": "1"}, fmt.Sprintf("%T", d), rep())
		} else if msg := cmpYCbCr(yc, ly); msg != "" {
			c.Violate(cs, "decoders-disagree", map[string]string{"big": "1", "what": "planes"}, msg, rep())
		} else {
			// sanity of the picture itself: Q100 must be close to the source (a wrapped length field decodes to noise)
			var se, n float64
			for y := 0; y < side; y += 7 {
				for x := 0; x < side; x += 5 {
					r0, g0, b0, _ := m.At(x, y).RGBA()
					yy := float64(19595*(r0>>8)+38470*(g0>>8)+7471*(b0>>8)) / 65536
					dv := float64(yc.Y[yc.YOffset(x, y)]) - (16 + yy*219/255)
					se += dv * dv
					n++
				}
			}
			if mse := se / n; mse > 400 {
				c.Violate(cs, "decoded-picture-unrelated-to-source", map[string]string{"big": "1"}, fmt.Sprintf("luma MSE %.0f against the source at Quality 100", mse), rep())
			}
		}
	}
}
