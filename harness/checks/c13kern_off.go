//go:build !verifkern

package checks

// kernelDigests is only available in the overlay builds (tags verifkern).
func kernelDigests(seed int64, n int) []string { return nil }
