package checks

import (
	"bytes"
	"fmt"
	"image"
	"io"
	"reflect"

	webp "github.com/deepteams/webp"

	"verif/ev"
	"verif/img"
)

func init() { Registry["C17"] = Check{Level: "fault_enumeration", Run: runC17} }

func imgDigest(m image.Image) string {
	switch t := m.(type) {
	case *image.YCbCr:
		return fmt.Sprintf("ycc %v %s", t.Rect, ev.Sum(t.Y, t.Cb, t.Cr))
	case *image.NRGBA:
		return fmt.Sprintf("nrgba %v %s", t.Rect, ev.Sum(img.Tight(t)))
	}
	return fmt.Sprintf("%T %v %s", m, m.Bounds(), ev.Sum(img.Tight(img.ToNRGBA(m))))
}

func runC17(c *ev.Ctx) {
	c.Rule = "for each valid still file F (lossy 1/2/4/8 partitions, lossless, lossy+compressed/raw alpha, extended with ICC before and EXIF/XMP after the image, odd payloads, " +
		"mux-assembled, hand-assembled with unknown chunks, libwebp-written, synthesized VP8/VP8L/ALPH) EVERY prefix length 0..len-1 is fed to Decode (from a bytes.Reader and, rotating, from a reader without Len(), from short reads of 1..7 bytes and through image.Decode), DecodeConfig and GetFeatures; " +
		"a prefix result must be an error or equal the complete file's result; distinct = distinct files (by content) whose complete decode succeeds; evaluations = prefixes"
	r := rng(c, 0)
	files := stillCorpus(r, c.N(600, 40000), c.N(48, 64))
	if c.Thorough() {
		// a few larger files: all cuts in the last 4 KiB + every 97th elsewhere
		big := stillCorpus(rng(c, 1), 24, 400)
		for i := range big {
			big[i].Name = "big/" + big[i].Name
		}
		files = append(files, big...)
	}
	var cases []ev.Case
	for i, f := range files {
		cases = append(cases, ev.Case{Idx: i, Desc: fmt.Sprintf("%s len=%d", f.Name, len(f.Data)), Data: f})
	}
	c.SetExhaustive(true)
	c.RunCases(cases, 0, func(cs ev.Case) { c17One(c, cs) })
}

func c17One(c *ev.Ctx, cs ev.Case) {
	f := cs.Data.(namedFile)
	full, err := decode(f.Data)
	if err != nil {
		c.Inconclusive("seed-not-decodable:" + f.Name)
		return
	}
	fullD := imgDigest(full)
	cfgFull, cerr := webp.DecodeConfig(bytes.NewReader(f.Data))
	ftFull, ferr := webp.GetFeatures(bytes.NewReader(f.Data))
	rep := func(n int) any { return map[string]any{"file": b64(f.Data), "prefix_len": n} }
	if cerr != nil || ferr != nil {
		c.Violate(cs, "header-query-fails-on-complete-file", map[string]string{"kind": f.Name}, fmt.Sprintf("DecodeConfig err=%v GetFeatures err=%v on a file Decode accepts", cerr, ferr), rep(len(f.Data)))
		return
	}
	c.Distinct(ev.Sum(f.Data))
	c.Count("files_"+f.Name, 1)
	okDecode, okCfg, okFeat, okVia := 0, 0, 0, 0
	sparse := len(f.Data) > 24000
	for n := 0; n < len(f.Data); n++ {
		if sparse && n < len(f.Data)-4096 && n%97 != 0 && n > 64 {
			continue
		}
		p := f.Data[:n]
		c.Eval(1)
		var m image.Image
		var e error
		if pn := ev.Guard(func() { m, e = decode(p) }); pn != "" {
			c.Violate(cs, "panic", map[string]string{"kind": f.Name, "entry": "Decode"}, fmt.Sprintf("prefix %d: %s", n, pn), rep(n))
			continue
		}
		if e == nil {
			okDecode++
			if d := imgDigest(m); d != fullD {
				c.Violate(cs, "truncated-decodes-differently", map[string]string{"kind": f.Name, "tail": fmt.Sprint(len(f.Data) - n)},
					fmt.Sprintf("Decode(F[:%d]) of a %d-byte file succeeded with %s, complete file gives %s", n, len(f.Data), d, fullD), rep(n))
			}
		}
		// the same prefix delivered the way files and network bodies arrive: a reader without Len()
		// (whole-buffer reads, short reads of 1..7 bytes) and through image.Decode's sniffing wrapper
		via := []string{"plain-reader", "short-reads", "image.Decode"}[n%3]
		var m2 image.Image
		var e2 error
		if pn := ev.Guard(func() {
			switch via {
			case "plain-reader":
				m2, e2 = webp.Decode(plainReader{bytes.NewReader(p)})
			case "short-reads":
				m2, e2 = webp.Decode(&shortReader{r: bytes.NewReader(p), k: 1 + n%7})
			default:
				m2, _, e2 = image.Decode(plainReader{bytes.NewReader(p)})
			}
		}); pn != "" {
			c.Violate(cs, "panic", map[string]string{"kind": f.Name, "entry": "Decode", "via": via}, fmt.Sprintf("prefix %d via %s: %s", n, via, pn), rep(n))
		} else if e2 == nil {
			okVia++
			if d := imgDigest(m2); d != fullD {
				c.Violate(cs, "truncated-decodes-differently", map[string]string{"kind": f.Name, "tail": fmt.Sprint(len(f.Data) - n), "via": via},
					fmt.Sprintf("Decode(F[:%d]) via %s of a %d-byte file succeeded with %s, complete file gives %s", n, via, len(f.Data), d, fullD), rep(n))
			}
		}
		var cfg image.Config
		if pn := ev.Guard(func() { cfg, e = webp.DecodeConfig(plainOrBytes(p, n)) }); pn != "" {
			c.Violate(cs, "panic", map[string]string{"kind": f.Name, "entry": "DecodeConfig"}, fmt.Sprintf("prefix %d: %s", n, pn), rep(n))
		} else if e == nil {
			okCfg++
			if cfg.Width != cfgFull.Width || cfg.Height != cfgFull.Height || cfg.ColorModel != cfgFull.ColorModel {
				c.Violate(cs, "truncated-config-differs", map[string]string{"kind": f.Name}, fmt.Sprintf("DecodeConfig(F[:%d]) = %dx%d model-equal=%v, complete file %dx%d", n, cfg.Width, cfg.Height, cfg.ColorModel == cfgFull.ColorModel, cfgFull.Width, cfgFull.Height), rep(n))
			}
		}
		var ft *webp.Features
		if pn := ev.Guard(func() { ft, e = webp.GetFeatures(plainOrBytes(p, n+1)) }); pn != "" {
			c.Violate(cs, "panic", map[string]string{"kind": f.Name, "entry": "GetFeatures"}, fmt.Sprintf("prefix %d: %s", n, pn), rep(n))
		} else if e == nil {
			okFeat++
			if ft == nil || !reflect.DeepEqual(*ft, *ftFull) {
				c.Violate(cs, "truncated-features-differ", map[string]string{"kind": f.Name}, fmt.Sprintf("GetFeatures(F[:%d]) = %+v, complete file %+v", n, ft, *ftFull), rep(n))
			}
		}
	}
	c.Count("prefixes_where_Decode_succeeds", int64(okDecode))
	c.Count("prefixes_where_Decode_succeeds_via_plain_readers", int64(okVia))
	c.Count("prefixes_where_DecodeConfig_succeeds", int64(okCfg))
	c.Count("prefixes_where_GetFeatures_succeeds", int64(okFeat))
	if cs.Idx%25 == 0 {
		c.Sample(map[string]any{"file": cs.Desc, "prefixes": len(f.Data), "decode_ok_prefixes": okDecode, "config_ok_prefixes": okCfg, "features_ok_prefixes": okFeat})
	}
}

// plainReader hides every method of the underlying reader except Read (no Len, no Seek).
type plainReader struct{ r io.Reader }

func (p plainReader) Read(b []byte) (int, error) { return p.r.Read(b) }

// shortReader returns at most k bytes per Read.
type shortReader struct {
	r io.Reader
	k int
}

func (s *shortReader) Read(b []byte) (int, error) {
	if len(b) > s.k {
		b = b[:s.k]
	}
	return s.r.Read(b)
}

func plainOrBytes(p []byte, n int) io.Reader {
	if n%2 == 0 {
		return bytes.NewReader(p)
	}
	return plainReader{bytes.NewReader(p)}
}
