package checks

import (
	"github.com/deepteams/webp/animation"
	"bytes"
	"encoding/binary"
	"fmt"
	"image"
	"math/rand"

	"verif/ev"
	"verif/gen/vp8"
	"verif/gen/vp8l"
	"verif/img"
	"verif/lw"
	"verif/ximage"
)

func init() { Registry["C04"] = Check{Level: "exploration", Run: runC04} }

type c04Case struct {
	Kind string // synth, synthbig, alph, lwenc, lwenc-alpha
	P    vp8.Params
	Sub  int
}

func runC04(c *ev.Ctx) {
	c.Rule = "webp.Decode vs libwebp 1.2.4 (Y/U/V planes incl. loop filter; RGBA incl. alpha plane and fancy upsampling for ALPH files) on (1) VP8 key frames from an " +
		"independent syntax-level synthesizer (segmentation map/data abs/delta, simple/normal filter x level x sharpness x lf deltas, 1/2/4/8 partitions, quantiser deltas, " +
		"probability updates, skip, all 16x16/4x4/chroma modes, all token categories inside the encoder-realisable coefficient envelope), (2) VP8X+ALPH+VP8 files with " +
		"synthesized ALPH payloads (method 0/1 x filter 0..3 x pre-processing bit), (3) files written by libwebp's lossy encoder over its option space; " +
		"x/image is a second opinion; distinct = feature signature (partitions, segmentation mode, filter type/level bucket/sharpness, lf-delta, skip, proba updates bucket, size mod 16)"
	if err := lw.SelfTest(); err != nil {
		c.Fatal("libwebp oracle unavailable: %v", err)
		return
	}
	c.Assume("libwebp 1.2.4 defines the RFC 6386 samples and the ALPH/upsampling results (it is the format's reference decoder); validity = libwebp accepts")
	c.Assume("synthesized coefficients stay inside the envelope where libwebp and x/image (int32 arithmetic) agree bit-exactly")
	var cases []ev.Case
	add := func(cc c04Case) {
		cases = append(cases, ev.Case{Idx: len(cases), Desc: fmt.Sprintf("%s sub=%d %+v", cc.Kind, cc.Sub, cc.P), Data: cc})
	}
	n := c.N(16000, 3000000)
	for i := 0; i < n; i++ {
		p := vp8.Params{}
		switch i % 8 {
		case 1:
			p.FilterType = 1
		case 2:
			p.FilterType = 2
		case 3:
			p.Segmentation = 2
		case 4:
			p.Partitions = []int{1, 2, 4, 8}[(i/8)%4]
		case 5:
			p.NoCoeffs = true
		case 6:
			p.CoeffScale = 3
		case 7:
			// constructs on which libwebp (= RFC 6386: clamp once) and libvpx differ: out-of-range segment
			// quantiser / filter values combined with deltas. libwebp stays the reference.
			p.AllowAmbiguous = true
		}
		add(c04Case{Kind: "synth", P: p, Sub: i})
	}
	// coefficients far beyond what an encoder produces (legal syntax): second-level (Y2) sums and IDCT inputs that
	// leave the 16-bit range. libwebp stays the reference for what such a stream decodes to.
	for i := 0; i < c.N(1500, 150000); i++ {
		add(c04Case{Kind: "synth", P: vp8.Params{MaxSide: 48, CoeffScale: []float64{8, 20, 40}[i%3]}, Sub: 5000000 + i})
	}
	nb := c.N(200, 40000)
	for i := 0; i < nb; i++ {
		p := vp8.Params{MaxSide: 160}
		if c.Thorough() && i%6 == 0 {
			p.MaxSide = 320
		}
		add(c04Case{Kind: "synthbig", P: p, Sub: i})
	}
	na := c.N(3000, 400000)
	for i := 0; i < na; i++ {
		add(c04Case{Kind: "alph", Sub: i})
	}
	nl := c.N(1000, 100000)
	for i := 0; i < nl; i++ {
		k := "lwenc"
		if i%3 == 0 {
			k = "lwenc-alpha"
		}
		add(c04Case{Kind: k, Sub: i})
	}
	feat := &featAgg{m: map[string]int64{}}
	c.RunCases(cases, 0, func(cs ev.Case) { c04One(c, cs, feat) })
	c.Extra("feature_counts", feat.snapshot())
}

func riffWrap(chunks ...[]byte) []byte {
	var body []byte
	for _, ch := range chunks {
		body = append(body, ch...)
	}
	out := append([]byte("RIFF\x00\x00\x00\x00WEBP"), body...)
	binary.LittleEndian.PutUint32(out[4:], uint32(len(out)-8))
	return out
}

func chunk(id string, payload []byte) []byte {
	b := make([]byte, 8, 8+len(payload)+1)
	copy(b, id)
	binary.LittleEndian.PutUint32(b[4:], uint32(len(payload)))
	b = append(b, payload...)
	if len(payload)%2 == 1 {
		b = append(b, 0)
	}
	return b
}

func vp8xChunk(flags byte, w, h int) []byte {
	p := make([]byte, 10)
	p[0] = flags
	p[4], p[5], p[6] = byte(w-1), byte((w-1)>>8), byte((w-1)>>16)
	p[7], p[8], p[9] = byte(h-1), byte((h-1)>>8), byte((h-1)>>16)
	return chunk("VP8X", p)
}

// c04ALPH builds an ALPH payload from syntax choices only.
func c04ALPH(r *rand.Rand, w, h int) ([]byte, string) {
	method := r.Intn(2)
	filter := r.Intn(4)
	pre := r.Intn(2)
	hdr := byte(method | filter<<2 | pre<<4)
	if method == 0 {
		p := make([]byte, 1+w*h)
		p[0] = hdr
		switch r.Intn(3) {
		case 0:
			r.Read(p[1:])
		case 1:
			for i := 1; i < len(p); i++ {
				p[i] = byte(r.Intn(3))
			}
		default:
			for i := 1; i < len(p); i++ {
				p[i] = byte(i * 7)
			}
		}
		return p, fmt.Sprintf("raw/f%d/p%d", filter, pre)
	}
	prm := vp8l.DefaultParams()
	if r.Intn(3) == 0 { // aim at the 8-bit (palette-only) alpha fast path
		prm.Transforms = []int{3}
		prm.CacheBits = 0
	}
	st, f := vp8l.SynthesizeAlphaStream(r, w, h, prm)
	return append([]byte{hdr}, st...), fmt.Sprintf("vp8l/f%d/p%d/t%v/pack%d/cb%d", filter, pre, f.TransformIDs, f.PackBits, f.CacheBits)
}

func c04One(c *ev.Ctx, cs ev.Case, feat *featAgg) {
	cc := cs.Data.(c04Case)
	r := rng(c, cs.Idx)
	var file, payload []byte
	sig := ""
	hasAlpha := false
	switch cc.Kind {
	case "synth", "synthbig":
		var f vp8.Features
		payload, f = vp8.Synthesize(r, cc.P)
		if cs.Idx%16 == 5 && len(payload) >= 10 { // upscaling hints in the frame header: decoders ignore them, dimensions stay 14-bit
			payload[7] |= byte(1+r.Intn(3)) << 6
			payload[9] |= byte(r.Intn(4)) << 6
			feat.add("frames_with_scale_hint_bits", 1)
		}
		file = vp8.WrapRIFF(payload)
		lvl := "0"
		switch {
		case f.FilterLevel > 32:
			lvl = "hi"
		case f.FilterLevel > 0:
			lvl = "lo"
		}
		pu := "0"
		switch {
		case f.ProbaUpdates > 100:
			pu = "many"
		case f.ProbaUpdates > 0:
			pu = "some"
		}
		sig = fmt.Sprintf("p%d|seg%v/%v/%v/%v|f%v/%s/s%d|lfd%v/%v|skip%v|pu%s|%d,%d", f.Partitions, f.Segmentation, f.UpdateMap, f.UpdateData, f.SegAbs,
			f.FilterSimple, lvl, f.Sharpness, f.LFDelta, f.LFDeltaUpdate, f.UseSkipProba, pu, f.W%16, f.H%16)
		c.Distinct(fmt.Sprintf("p%d|seg%v/%v/%v/%v|f%v/%s|lfd%v|skip%v|pu%s", f.Partitions, f.Segmentation, f.UpdateMap, f.UpdateData, f.SegAbs, f.FilterSimple, lvl, f.LFDelta, f.UseSkipProba, pu))
		feat.add(fmt.Sprintf("partitions_%d", f.Partitions), 1)
		feat.add(fmt.Sprintf("filter_simple_%v_level_%s", f.FilterSimple, lvl), 1)
		feat.add(fmt.Sprintf("sharpness_%d", f.Sharpness), 1)
		feat.add(fmt.Sprintf("segmentation_%v_map%v_data%v_abs%v", f.Segmentation, f.UpdateMap, f.UpdateData, f.SegAbs), 1)
		feat.add(fmt.Sprintf("lfdelta_%v_update_%v", f.LFDelta, f.LFDeltaUpdate), 1)
		for m, n := range f.I16Modes {
			feat.add(fmt.Sprintf("i16mode_%d", m), n)
		}
		for m, n := range f.I4Modes {
			feat.add(fmt.Sprintf("i4mode_%d", m), n)
		}
		for m, n := range f.UVModes {
			feat.add(fmt.Sprintf("uvmode_%d", m), n)
		}
		for t, n := range f.Tokens {
			feat.add("token_"+t, n)
		}
		feat.add("skipped_mbs", f.SkippedMBs)
	case "alph":
		w, h := 1+r.Intn(40), 1+r.Intn(40)
		if r.Intn(3) == 0 {
			w, h = img.Pick(r, img.SmallSizes), img.Pick(r, img.SmallSizes)
		}
		var f vp8.Features
		payload, f = vp8.Synthesize(r, vp8.Params{W: w, H: h})
		_ = f
		alph, asig := c04ALPH(r, w, h)
		file = riffWrap(vp8xChunk(0x10, w, h), chunk("ALPH", alph), chunk("VP8 ", payload))
		sig = "alph|" + asig
		c.Distinct(sig)
		feat.add(fmt.Sprintf("alph_hdr_%#02x", alph[0]), 1)
		hasAlpha = true
	case "lwenc", "lwenc-alpha":
		w, h := 1+r.Intn(90), 1+r.Intn(90)
		alpha := "opaque"
		if cc.Kind == "lwenc-alpha" {
			alpha = pickS(r, "binary", "gradient", "noise", "levels3", "blocks")
			hasAlpha = true
		}
		m := img.Gen(r, img.Pick(r, img.Classes), alpha, w, h)
		cfg := lw.DefaultConfig()
		cfg.Method = r.Intn(7)
		cfg.Quality = pickF(r, 0, 20, 50, 75, 90, 100)
		cfg.Segments = 1 + r.Intn(4)
		cfg.SNSStrength = pickI(r, 0, 50, 100)
		cfg.FilterStrength = pickI(r, 0, 20, 60, 100)
		cfg.FilterSharpness = r.Intn(8)
		cfg.FilterType = r.Intn(2)
		cfg.Autofilter = r.Intn(2)
		cfg.Partitions = r.Intn(4)
		cfg.Pass = 1 + r.Intn(3)
		cfg.Preprocessing = r.Intn(3)
		cfg.AlphaCompression = r.Intn(2)
		cfg.AlphaFiltering = r.Intn(3)
		cfg.AlphaQuality = pickI(r, 100, 100, 50, 0)
		cfg.UseSharpYUV = r.Intn(4) / 3
		var err error
		file, err = lw.Encode(img.Tight(m), w, h, cfg)
		if err != nil {
			c.Inconclusive("libwebp-encode-failed")
			return
		}
		payload = riffChunks(file)["VP8 "]
		_, hasAlpha = riffChunks(file)["ALPH"] // an "alpha" pattern can come out fully opaque: then libwebp writes no ALPH
		sig = fmt.Sprintf("lwenc|m%d|seg%d|ft%d|fs%d|p%d|ac%d|af%d|a=%v", cfg.Method, cfg.Segments, cfg.FilterType, cfg.FilterStrength, cfg.Partitions, cfg.AlphaCompression, cfg.AlphaFiltering, hasAlpha)
		c.Distinct(sig)
	}
	rep := func() any { return map[string]string{"file": b64(file), "sig": sig} }
	// reference
	ly, err := lw.DecodeYUV(file, false)
	if err != nil {
		c.Inconclusive("libwebp-rejects-" + cc.Kind)
		return
	}
	c.Eval(1)
	dec, derr, hung := decodeTimed(file)
	if hung {
		c.Violate(cs, "hang", map[string]string{"kind": cc.Kind}, "webp.Decode did not return within 60 s and again within 120 s on a stream libwebp decodes ["+sig+"]", rep())
		return
	}
	if derr == errAfterHang {
		c.Inconclusive("skipped-after-confirmed-hang")
		return
	}
	if derr != nil {
		c.Violate(cs, "valid-stream-rejected", map[string]string{"kind": cc.Kind}, fmt.Sprintf("libwebp decodes %dx%d, webp.Decode: %v [%s]", ly.W, ly.H, derr, sig), rep())
		return
	}
	if dec.Bounds().Dx() != ly.W || dec.Bounds().Dy() != ly.H {
		c.Violate(cs, "size-mismatch", map[string]string{"kind": cc.Kind}, fmt.Sprintf("libwebp %dx%d, Decode %v", ly.W, ly.H, dec.Bounds()), rep())
		return
	}
	// x/image second opinion on planes (agreement of the two references = inside the envelope)
	envelope := true
	if xm, e := ximage.DecodeVP8(payload, false); e != nil {
		c.Count("ximage_rejects", 1)
		envelope = false
	} else if msg := cmpYCbCr(cropYCbCr(xm, ly.W, ly.H), ly); msg != "" {
		c.Count("ximage_differs_from_libwebp", 1)
		envelope = false
	} else {
		c.Count("ximage_agrees", 1)
	}
	if !envelope && (cc.Kind == "synth" || cc.Kind == "synthbig" || cc.Kind == "alph") {
		c.Inconclusive("references-disagree(outside-envelope)")
		return
	}
	if !hasAlpha {
		d, ok := dec.(*image.YCbCr)
		if !ok {
			c.Violate(cs, "wrong-image-type", map[string]string{"kind": cc.Kind}, fmt.Sprintf("opaque lossy file decoded to %T", dec), rep())
			return
		}
		if msg := cmpYCbCr(d, ly); msg != "" {
			// attribute: with the filter bypassed?
			stage := "reconstruction"
			if lb, e := lw.DecodeYUV(file, true); e == nil {
				if xb, e2 := ximage.DecodeVP8(payload, true); e2 == nil && cmpYCbCr(cropYCbCr(xb, ly.W, ly.H), lb) == "" {
					stage = "loop-filter-or-later"
				}
			}
			c.Violate(cs, "samples-differ-from-reference", map[string]string{"kind": cc.Kind, "stage": stage}, fmt.Sprintf("%s [%s]", msg, sig), rep())
		}
	} else {
		want, w, h, e := lw.DecodeRGBA(file)
		if e != nil {
			c.Inconclusive("libwebp-rgba-rejects")
			return
		}
		got := img.Tight(toNRGBA(dec))
		if !bytes.Equal(got, want) {
			what := "colour"
			for i := 3; i < len(got) && i < len(want); i += 4 {
				if got[i] != want[i] {
					what = "alpha"
					break
				}
			}
			c.Violate(cs, "rgba-differs-from-reference", map[string]string{"kind": cc.Kind, "what": what}, fmt.Sprintf("%s [%s]", firstPixelDiff(got, want, w), sig), rep())
		}
		_ = h
		// the animation reader decodes the caller's own bytes (no private copy): twice from the same slice, both
		// results are the reference's (an in-place un-filter of the chunk bytes would show in the second)
		for pass := 1; pass <= 2; pass++ {
			an, e := animation.DecodeBytes(file)
			if e != nil {
				c.Violate(cs, "valid-stream-rejected", map[string]string{"kind": cc.Kind, "entry": "animation-reader"}, fmt.Sprintf("pass %d: animation.DecodeBytes: %v [%s]", pass, e, sig), rep())
				break
			}
			if pass == 2 {
				e = an.DecodeFramesParallel()
			} else {
				e = an.DecodeFrames()
			}
			if e != nil || len(an.Frames) != 1 || an.Frames[0].Image == nil {
				c.Violate(cs, "valid-stream-rejected", map[string]string{"kind": cc.Kind, "entry": "animation-reader"}, fmt.Sprintf("pass %d: DecodeFrames: %v, %d frames [%s]", pass, e, len(an.Frames), sig), rep())
				break
			}
			if got := img.Tight(toNRGBA(an.Frames[0].Image)); !bytes.Equal(got, want) {
				c.Violate(cs, "rgba-differs-from-reference", map[string]string{"kind": cc.Kind, "entry": "animation-reader", "pass": fmt.Sprint(pass)}, fmt.Sprintf("frame read through animation.DecodeBytes from the same slice, pass %d: %s [%s]", pass, firstPixelDiff(got, want, w), sig), rep())
				break
			}
		}
	}
	if cs.Idx%1200 == 0 {
		c.Sample(map[string]any{"kind": cc.Kind, "sig": sig, "w": ly.W, "h": ly.H, "bytes": len(file)})
	}
}

func cropYCbCr(m *image.YCbCr, w, h int) *image.YCbCr {
	return m.SubImage(image.Rect(m.Rect.Min.X, m.Rect.Min.Y, m.Rect.Min.X+w, m.Rect.Min.Y+h)).(*image.YCbCr)
}
