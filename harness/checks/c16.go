package checks

import (
	"bytes"
	"fmt"
	"image"
	_ "image/gif"
	"math/rand"

	webp "github.com/deepteams/webp"
	"github.com/deepteams/webp/animation"
	"github.com/deepteams/webp/mux"

	"verif/ev"
	"verif/gen/vp8"
	"verif/gen/vp8l"
	"verif/img"
	"verif/lw"
	"verif/riffwalk"
)

func init() { Registry["C16"] = Check{Level: "exploration", Run: runC16} }

type c16File struct {
	Name      string
	Data      []byte
	OwnWriter bool // written by this package's Encode / AnimEncoder / Muxer
	Limit     bool // well-formed, but sized around an implementation limit: the views may refuse it, all of them or none
}

// c16Hand builds hand-assembled container variants around a real bitstream.
func c16Hand(r *rand.Rand, k int) (c16File, bool) {
	w, h := 1+r.Intn(40), 1+r.Intn(40)
	lossy := k%2 == 0
	var bs []byte
	var id string
	if lossy {
		bs, _ = vp8.Synthesize(r, vp8.Params{W: w, H: h})
		if r.Intn(2) == 0 && lw.SelfTest() == nil {
			if f, err := lw.Encode(img.Tight(img.Gen(r, img.Pick(r, img.Classes), "opaque", w, h)), w, h, lw.DefaultConfig()); err == nil {
				bs = riffChunks(f)["VP8 "]
			}
		}
		id = "VP8 "
	} else {
		p := vp8l.DefaultParams()
		p.W, p.H = w, h
		p.ClearAlphaHint = r.Intn(2) == 0
		bs, _ = vp8l.Synthesize(r, p)
		id = "VP8L"
	}
	rawALPH := func(fill func(i int) byte) []byte {
		p := make([]byte, 1+w*h)
		for i := 1; i < len(p); i++ {
			p[i] = fill(i)
		}
		return p
	}
	unk := func(n int) []byte { b := make([]byte, n); r.Read(b); return chunk(pickS(r, "UNKN", "JUNK", "xyzw"), b) }
	flags := byte(0)
	if !lossy {
		flags = 0x10
	}
	variant := (k / 2) % 17
	name := fmt.Sprintf("hand/%s/v%d", map[bool]string{true: "vp8", false: "vp8l"}[lossy], variant)
	var chunks [][]byte
	switch variant {
	case 0: // plain extended
		chunks = [][]byte{vp8xChunk(flags, w, h), chunk(id, bs)}
	case 1: // raw ALPH with real transparency
		if !lossy {
			return c16File{}, false
		}
		chunks = [][]byte{vp8xChunk(0x10, w, h), chunk("ALPH", rawALPH(func(i int) byte { return byte(i * 37) })), chunk(id, bs)}
	case 2: // zero-length ALPH
		if !lossy {
			return c16File{}, false
		}
		chunks = [][]byte{vp8xChunk(byte(r.Intn(2))<<4, w, h), chunk("ALPH", nil), chunk(id, bs)}
	case 3: // ALPH whose plane is entirely opaque
		if !lossy {
			return c16File{}, false
		}
		chunks = [][]byte{vp8xChunk(0x10, w, h), chunk("ALPH", rawALPH(func(int) byte { return 255 })), chunk(id, bs)}
	case 4: // unknown chunks before, between and after
		chunks = [][]byte{vp8xChunk(flags, w, h), unk(r.Intn(9)), chunk(id, bs), unk(1 + r.Intn(9)), unk(0)}
	case 5: // ICCP before, EXIF and XMP after (canonical order)
		chunks = [][]byte{vp8xChunk(flags|0x20|0x08|0x04, w, h), chunk("ICCP", []byte("icc-odd")), chunk(id, bs), chunk("EXIF", []byte("exif")), chunk("XMP ", []byte("xmp"))}
	case 6: // metadata all before the image
		chunks = [][]byte{vp8xChunk(flags|0x20|0x08|0x04, w, h), chunk("ICCP", []byte("i")), chunk("EXIF", []byte("ex")), chunk("XMP ", []byte("xmp")), chunk(id, bs)}
	case 7: // flags over-stating: ICC/EXIF/XMP/alpha flags without chunks
		chunks = [][]byte{vp8xChunk(0x20|0x08|0x04|0x10, w, h), chunk(id, bs)}
	case 8: // flags under-stating: metadata and ALPH present, flags clear
		if lossy {
			chunks = [][]byte{vp8xChunk(0, w, h), chunk("ICCP", []byte("icc")), chunk("ALPH", rawALPH(func(i int) byte { return byte(255 - i%3) })), chunk(id, bs), chunk("EXIF", []byte("e"))}
		} else {
			chunks = [][]byte{vp8xChunk(0, w, h), chunk("ICCP", []byte("icc")), chunk(id, bs), chunk("XMP ", []byte("x"))}
		}
	case 9: // trailing bytes after the RIFF payload
		f := riffWrap(vp8xChunk(flags, w, h), chunk(id, bs))
		t := make([]byte, 1+r.Intn(20))
		r.Read(t)
		return c16File{Name: name + "/trailing", Data: append(f, t...)}, true
	case 10: // simple container, odd payload gets its pad byte
		return c16File{Name: name + "/simple", Data: riffWrap(chunk(id, bs))}, true
	case 11: // ALPH compressed (VP8L stream) with filter bits
		if !lossy {
			return c16File{}, false
		}
		a, _ := c04ALPH(r, w, h)
		chunks = [][]byte{vp8xChunk(0x10, w, h), chunk("ALPH", a), chunk(id, bs)}
	case 12: // unknown chunk between ALPH and VP8
		if !lossy {
			return c16File{}, false
		}
		chunks = [][]byte{vp8xChunk(0x10, w, h), chunk("ALPH", rawALPH(func(i int) byte { return byte(i) })), unk(3), chunk(id, bs)}
	case 13: // animation flag clear, reserved VP8X bits set
		chunks = [][]byte{vp8xChunk(flags|0x01|0x80, w, h), chunk(id, bs)}
	case 16: // VP8 frame header with non-zero horizontal/vertical scale hints (upper 2 bits of the size fields)
		if !lossy || len(bs) < 10 {
			return c16File{}, false
		}
		bs = append([]byte{}, bs...)
		bs[7] |= byte(1+r.Intn(3)) << 6
		if r.Intn(2) == 0 {
			bs[9] |= byte(1+r.Intn(3)) << 6
		}
		if r.Intn(2) == 0 {
			chunks = [][]byte{chunk(id, bs)}
		} else {
			chunks = [][]byte{vp8xChunk(flags, w, h), chunk(id, bs)}
		}
	case 14: // raw ALPH one byte short / long
		if !lossy {
			return c16File{}, false
		}
		a := rawALPH(func(i int) byte { return byte(i * 11) })
		if r.Intn(2) == 0 && len(a) > 2 {
			a = a[:len(a)-1]
		} else {
			a = append(a, 7)
		}
		chunks = [][]byte{vp8xChunk(0x10, w, h), chunk("ALPH", a), chunk(id, bs)}
	default: // single-frame animation wrapper (ANIM + one ANMF)
		le24 := func(v int) []byte { return []byte{byte(v), byte(v >> 8), byte(v >> 16)} }
		anmf := append(append(append(append(append(le24(0), le24(0)...), le24(w-1)...), le24(h-1)...), le24(r.Intn(500))...), byte(r.Intn(4)))
		anmf = append(anmf, chunk(id, bs)...)
		lc := r.Intn(5)
		chunks = [][]byte{vp8xChunk(flags|0x02, w, h), chunk("ANIM", []byte{1, 2, 3, 4, byte(lc), 0}), chunk("ANMF", anmf)}
	}
	return c16File{Name: name, Data: riffWrap(chunks...)}, true
}

func runC16(c *ev.Ctx) {
	c.Rule = "files from Encode (all kinds), AnimEncoder, Muxer (animations, and lone frames at odd/even offsets with and without explicit canvas and metadata), libwebp, the synthesizers and 16 hand-assembled container variants (VP8X with/without ALPH, empty / opaque / " +
		"short / compressed ALPH, unknown chunks before/between/after, metadata before/after the image, flags over- and under-stating, trailing bytes, reserved bits, " +
		"single-frame animation), 9 animations of 4095..65537 one-pixel frames around any frame-count limit (views accept all or none); oracles: Decode's actual result vs DecodeConfig/GetFeatures/image.DecodeConfig/image.Decode; mutual agreement of GetFeatures, DecodeConfig, " +
		"Demuxer and animation reader on canvas, animation flag, frame count and (animated only) loop count; distinct = (source kind/variant, codec, alpha, accepted-by set)"
	var files []c16File
	r := rng(c, 0)
	for _, f := range stillCorpus(r, c.N(800, 150000), 40) {
		own := false
		switch f.Name[:4] {
		case "loss", "exte", "mux-":
			own = true
		}
		files = append(files, c16File{Name: f.Name, Data: f.Data, OwnWriter: own})
	}
	for _, f := range animCorpus(r, c.N(200, 30000), 28) {
		files = append(files, c16File{Name: f.Name, Data: f.Data, OwnWriter: true})
	}
	for _, f := range muxAnimCorpus(r, c.N(300, 30000)) {
		files = append(files, c16File{Name: f.Name, Data: f.Data, OwnWriter: true})
	}
	for _, f := range muxLoneCorpus(r, c.N(150, 8000)) {
		files = append(files, c16File{Name: f.Name, Data: f.Data, OwnWriter: true})
	}
	nh := c.N(6000, 1000000)
	for k := 0; k < nh; k++ {
		if f, ok := c16Hand(r, k); ok {
			files = append(files, f)
		}
	}
	{ // one well-formed still whose trailing EXIF chunk is one byte above the 100 MiB metadata limit (layout of Encode's own output)
		o := webp.DefaultOptions()
		o.Lossless = true
		small, _ := encode(img.Gen(r, "photo", "opaque", 8, 8), o)
		big := make([]byte, 100*1024*1024+1)
		for i := 0; i < len(big); i += 4097 {
			big[i] = byte(i >> 9)
		}
		files = append(files, c16File{Name: "hand/metadata-above-limit-after-image", Data: riffWrap(vp8xChunk(0x18, 8, 8), chunk("VP8L", riffChunks(small)["VP8L"]), chunk("EXIF", big))})
	}
	{ // animations of very many 1x1 frames: a frame-count limit is an implementation's choice, but all views make the same one
		p := vp8l.DefaultParams()
		p.W, p.H = 1, 1
		bs, _ := vp8l.Synthesize(r, p)
		anmf := chunk("ANMF", append([]byte{0, 0, 0, 0, 0, 0, 0, 0, 0, 0, 0, 0, 10, 0, 0, 0}, chunk("VP8L", bs)...))
		for _, n := range []int{4095, 4096, 9999, 10000, 10001, 16384, 65535, 65536, 65537} {
			parts := [][]byte{vp8xChunk(0x12, 3, 2), chunk("ANIM", []byte{0, 0, 0, 0, 2, 0})}
			for k := 0; k < n; k++ {
				parts = append(parts, anmf)
			}
			files = append(files, c16File{Name: fmt.Sprintf("hand/many-frames/%d", n), Data: riffWrap(parts...), Limit: true})
		}
	}
	var cases []ev.Case
	for i, f := range files {
		cases = append(cases, ev.Case{Idx: i, Desc: fmt.Sprintf("%s len=%d", f.Name, len(f.Data)), Data: f})
	}
	c.RunCases(cases, 0, func(cs ev.Case) { c16One(c, cs) })
}

func c16One(c *ev.Ctx, cs ev.Case) {
	f := cs.Data.(c16File)
	rep := func() any { return map[string]string{"file": b64(f.Data)} }
	attrs := func(extra ...string) map[string]string {
		m := map[string]string{"source": f.Name}
		for i := 0; i+1 < len(extra); i += 2 {
			m[extra[i]] = extra[i+1]
		}
		return m
	}
	info, issues := riffwalk.Walk(f.Data)
	strict := info != nil && len(issues) == 0
	animated := info != nil && info.Animated
	c.Eval(1)

	// ---- views
	ft, ferr := webp.GetFeatures(bytes.NewReader(f.Data))
	cfg, cerr := webp.DecodeConfig(bytes.NewReader(f.Data))
	dm, derr := mux.NewDemuxer(f.Data)
	an, aerr := animation.DecodeBytes(f.Data)
	accepted := ""
	for _, e := range []error{ferr, cerr, derr, aerr} {
		if e == nil {
			accepted += "1"
		} else {
			accepted += "0"
		}
	}

	// ---- clause 1: still files that Decode accepts
	if !animated {
		dec, err := decode(f.Data)
		if err != nil {
			c.Count("decode_rejects:"+f.Name, 1)
			if strict && (f.OwnWriter || f.Name[:4] == "libw" || f.Name[:4] == "synt") {
				c.Violate(cs, "valid-file-rejected", attrs("by", "Decode"), err.Error(), rep())
			}
		} else {
			codec := "?"
			if info != nil && len(info.Frames) > 0 && info.Frames[0].BS != nil {
				codec = info.Frames[0].BS.Codec
			}
			_, isY := dec.(*image.YCbCr)
			c.Distinct(fmt.Sprintf("%s|%s|ycbcr=%v|%s|%s", f.Name, codec, isY, accepted, sizeBucket(dec.Bounds().Dx(), dec.Bounds().Dy())))
			b := dec.Bounds()
			if cerr != nil {
				c.Violate(cs, "decodeconfig-fails-where-decode-succeeds", attrs(), cerr.Error(), rep())
			} else {
				if cfg.Width != b.Dx() || cfg.Height != b.Dy() {
					c.Violate(cs, "config-size-differs", attrs(), fmt.Sprintf("DecodeConfig %dx%d, decoded %v", cfg.Width, cfg.Height, b), rep())
				}
				if cfg.ColorModel != dec.ColorModel() {
					c.Violate(cs, "config-colormodel-differs", attrs(), fmt.Sprintf("DecodeConfig model != decoded image model (decoded %T)", dec), rep())
				}
			}
			if ferr != nil {
				c.Violate(cs, "getfeatures-fails-where-decode-succeeds", attrs(), ferr.Error(), rep())
			} else {
				if ft.Width != b.Dx() || ft.Height != b.Dy() {
					c.Violate(cs, "features-size-differs", attrs(), fmt.Sprintf("GetFeatures %dx%d, decoded %v", ft.Width, ft.Height, b), rep())
				}
				if ft.FrameCount != 1 || ft.HasAnimation {
					c.Violate(cs, "features-still-miscounted", attrs(), fmt.Sprintf("still file: %+v", *ft), rep())
				}
				if f.OwnWriter && !ft.HasAlpha && img.HasAlpha(img.ToNRGBA(dec)) {
					c.Violate(cs, "alpha-flag-clear-but-pixels-transparent", attrs(), "file written by this package: HasAlpha=false but a decoded pixel is not opaque", rep())
				}
			}
			// image package dispatch
			ic, name, ierr := image.DecodeConfig(bytes.NewReader(f.Data))
			if ierr != nil || name != "webp" {
				c.Violate(cs, "image-dispatch", attrs("what", "DecodeConfig"), fmt.Sprintf("image.DecodeConfig: format %q err %v", name, ierr), rep())
			} else if cerr == nil && (ic.Width != cfg.Width || ic.Height != cfg.Height || ic.ColorModel != cfg.ColorModel) {
				c.Violate(cs, "image-dispatch", attrs("what", "DecodeConfig-value"), "image.DecodeConfig differs from webp.DecodeConfig", rep())
			}
			im, name2, ierr2 := image.Decode(bytes.NewReader(f.Data))
			if ierr2 != nil || name2 != "webp" {
				c.Violate(cs, "image-dispatch", attrs("what", "Decode"), fmt.Sprintf("image.Decode: format %q err %v", name2, ierr2), rep())
			} else if imgDigest(im) != imgDigest(dec) {
				c.Violate(cs, "image-dispatch", attrs("what", "Decode-value"), "image.Decode result differs from webp.Decode", rep())
			}
		}
	} else {
		c.Distinct(fmt.Sprintf("%s|anim|%s", f.Name, accepted))
	}

	// ---- clause 2: container-level views agree
	type view struct {
		who           string
		w, h, n, loop int
		anim          bool
	}
	var views []view
	if ferr == nil {
		views = append(views, view{"GetFeatures", ft.Width, ft.Height, ft.FrameCount, ft.LoopCount, ft.HasAnimation})
	}
	if derr == nil {
		df := dm.GetFeatures()
		views = append(views, view{"Demuxer", df.Width, df.Height, dm.NumFrames(), dm.LoopCount(), df.HasAnimation})
	}
	if aerr == nil {
		views = append(views, view{"animation", an.CanvasWidth, an.CanvasHeight, len(an.Frames), an.LoopCount, animated})
	}
	if strict && f.Limit {
		if accepted != "0000" && accepted != "1111" {
			c.Violate(cs, "views-disagree", attrs("on", "acceptance"), fmt.Sprintf("accepted by [GetFeatures,DecodeConfig,Demuxer,animation] = %s: %v | %v | %v | %v", accepted, ferr, cerr, derr, aerr), rep())
		}
		c.Count("limit_file_accepted_by:"+accepted, 1)
	} else if strict {
		for i, e := range []error{ferr, cerr, derr, aerr} {
			if e != nil {
				who := []string{"GetFeatures", "DecodeConfig", "Demuxer", "animation.DecodeBytes"}[i]
				c.Violate(cs, "view-rejects-well-formed-file", attrs("by", who), who+": "+e.Error(), rep())
			}
		}
	}
	for i := 1; i < len(views); i++ {
		a, b := views[0], views[i]
		if a.w != b.w || a.h != b.h {
			c.Violate(cs, "views-disagree", attrs("on", "canvas", "pair", a.who+"/"+b.who), fmt.Sprintf("%s %dx%d vs %s %dx%d", a.who, a.w, a.h, b.who, b.w, b.h), rep())
		}
		if a.n != b.n {
			c.Violate(cs, "views-disagree", attrs("on", "frame-count", "pair", a.who+"/"+b.who), fmt.Sprintf("%s %d vs %s %d", a.who, a.n, b.who, b.n), rep())
		}
		if b.who != "animation" && a.anim != b.anim {
			c.Violate(cs, "views-disagree", attrs("on", "animation-flag", "pair", a.who+"/"+b.who), fmt.Sprintf("%s %v vs %s %v", a.who, a.anim, b.who, b.anim), rep())
		}
		if animated && a.loop != b.loop {
			c.Violate(cs, "views-disagree", attrs("on", "loop-count", "pair", a.who+"/"+b.who), fmt.Sprintf("%s %d vs %s %d", a.who, a.loop, b.who, b.loop), rep())
		}
	}
	if cerr == nil && len(views) > 0 && (cfg.Width != views[0].w || cfg.Height != views[0].h) {
		c.Violate(cs, "views-disagree", attrs("on", "canvas", "pair", "DecodeConfig/"+views[0].who), fmt.Sprintf("DecodeConfig %dx%d vs %s %dx%d", cfg.Width, cfg.Height, views[0].who, views[0].w, views[0].h), rep())
	}
	// the walker is a fifth, independent view for strictly well-formed files
	if strict && len(views) > 0 {
		v := views[0]
		if v.w != info.CanvasW || v.h != info.CanvasH || v.n != len(info.Frames) || v.anim != info.Animated || (animated && v.loop != info.LoopCount) {
			c.Violate(cs, "views-disagree", attrs("on", "walker", "pair", v.who+"/walker"), fmt.Sprintf("%s: %+v; walker: canvas %dx%d frames %d animated %v loop %d", v.who, v, info.CanvasW, info.CanvasH, len(info.Frames), info.Animated, info.LoopCount), rep())
		}
	}
	if cs.Idx%300 == 0 {
		c.Sample(map[string]any{"file": cs.Desc, "strictly_well_formed": strict, "accepted_by[GetFeatures,DecodeConfig,Demuxer,animation]": accepted})
	}
}
