package checks

import (
	"bytes"
	"math/rand"
	"time"

	webp "github.com/deepteams/webp"
	"github.com/deepteams/webp/animation"
	"github.com/deepteams/webp/mux"

	"verif/gen/vp8"
	"verif/gen/vp8l"
	"verif/img"
	"verif/lw"
)

type namedFile struct {
	Name string
	Data []byte
	Anim bool
}

// stillCorpus builds a diverse list of valid still files (size limited so that exhaustive
// per-file work stays cheap). Pure function of r.
func stillCorpus(r *rand.Rand, n int, maxSide int) []namedFile {
	var out []namedFile
	add := func(name string, d []byte, err error) {
		if err == nil && len(d) > 0 {
			out = append(out, namedFile{Name: name, Data: d})
		}
	}
	lwOK := lw.SelfTest() == nil
	for i := 0; len(out) < n && i < 4*n; i++ {
		w, h := 1+r.Intn(maxSide), 1+r.Intn(maxSide)
		class := img.Pick(r, img.Classes)
		switch i % 12 {
		case 0: // lossy, partitions 1..8
			o := webp.DefaultOptions()
			o.Partitions = r.Intn(4)
			o.Method = r.Intn(7)
			o.Quality = pickF(r, 20, 75, 95)
			d, err := encode(img.Gen(r, class, "opaque", w, h), o)
			add("lossy/p"+string(rune('0'+o.Partitions)), d, err)
		case 1: // lossless
			o := webp.DefaultOptions()
			o.Lossless = true
			o.Method = r.Intn(7)
			o.Quality = pickF(r, 20, 75, 100)
			d, err := encode(img.Gen(r, class, img.Pick(r, img.Alphas), w, h), o)
			add("lossless", d, err)
		case 2: // lossy + alpha (compressed)
			o := webp.DefaultOptions()
			o.AlphaFiltering = r.Intn(3)
			d, err := encode(img.Gen(r, class, pickS(r, "binary", "gradient", "noise", "levels3"), w, h), o)
			add("lossy+alpha", d, err)
		case 3: // lossy + raw alpha
			o := webp.DefaultOptions()
			o.AlphaCompression = 0
			d, err := encode(img.Gen(r, class, pickS(r, "binary", "gradient", "noise"), w, h), o)
			add("lossy+rawalpha", d, err)
		case 4: // extended with metadata before and after the image
			o := webp.DefaultOptions()
			o.Lossless = r.Intn(2) == 0
			o.ICC = blob(r)
			o.EXIF = blob(r)
			o.XMP = blob(r)
			if len(o.ICC) == 0 {
				o.ICC = []byte("icc")
			}
			if len(o.XMP) == 0 {
				o.XMP = []byte("xmp!")
			}
			d, err := encode(img.Gen(r, class, pickS(r, "opaque", "binary"), w, h), o)
			add("extended+meta", d, err)
		case 5: // synthesized VP8L
			p := vp8l.DefaultParams()
			p.MaxSide = maxSide
			pl, _ := vp8l.Synthesize(r, p)
			add("synth-vp8l", vp8l.WrapRIFF(pl), nil)
		case 6: // synthesized VP8
			pl, _ := vp8.Synthesize(r, vp8.Params{MaxSide: maxSide})
			add("synth-vp8", vp8.WrapRIFF(pl), nil)
		case 7: // synthesized ALPH + VP8
			pl, _ := vp8.Synthesize(r, vp8.Params{W: w, H: h})
			alph, _ := c04ALPH(r, w, h)
			add("synth-alph", riffWrap(vp8xChunk(0x10, w, h), chunk("ALPH", alph), chunk("VP8 ", pl)), nil)
		case 8: // libwebp lossy
			if lwOK {
				cfg := lw.DefaultConfig()
				cfg.Partitions = r.Intn(4)
				cfg.Segments = 1 + r.Intn(4)
				d, err := lw.Encode(img.Tight(img.Gen(r, class, pickS(r, "opaque", "gradient"), w, h)), w, h, cfg)
				add("libwebp-lossy", d, err)
			}
		case 9: // libwebp lossless
			if lwOK {
				cfg := lw.DefaultConfig()
				cfg.Lossless = 1
				cfg.Method = r.Intn(7)
				d, err := lw.Encode(img.Tight(img.Gen(r, class, img.Pick(r, img.Alphas), w, h)), w, h, cfg)
				add("libwebp-lossless", d, err)
			}
		case 10: // mux-assembled still with metadata and an unknown chunk
			o := webp.DefaultOptions()
			o.Lossless = r.Intn(2) == 0
			d, err := encode(img.Gen(r, class, "opaque", w, h), o)
			if err == nil {
				ch := riffChunks(d)
				bs := ch["VP8 "]
				if bs == nil {
					bs = ch["VP8L"]
				}
				m := mux.NewMuxer()
				if m.AddFrame(bs, nil) == nil {
					m.SetEXIF([]byte("exif-odd"))
					var b bytes.Buffer
					if m.Assemble(&b) == nil {
						add("mux-still", b.Bytes(), nil)
					}
				}
			}
		case 11: // hand-assembled: VP8X + unknown chunk + image + trailing unknown chunk, odd sizes
			pl, _ := vp8l.Synthesize(r, vp8l.Params{W: w, H: h, CacheBits: -1, MetaBits: -1})
			flags := byte(0x10)
			add("hand-extended", riffWrap(vp8xChunk(flags, w, h), chunk("UNKN", []byte("odd")), chunk("VP8L", pl), chunk("ZZZZ", []byte{1, 2, 3, 4, 5})), nil)
		}
	}
	return out
}

// animCorpus builds valid animated files (lossless, lossy, mixed; with metadata).
func animCorpus(r *rand.Rand, n int, maxSide int) []namedFile {
	var out []namedFile
	for i := 0; len(out) < n && i < 4*n; i++ {
		w, h := 2+r.Intn(maxSide), 2+r.Intn(maxSide)
		var buf bytes.Buffer
		opts := &animation.EncodeOptions{Lossless: i%3 != 1, AllowMixed: i%3 == 2, Quality: 60, LoopCount: r.Intn(4), Kmin: r.Intn(4), Kmax: r.Intn(6)}
		e := animation.NewEncoder(&buf, w, h, opts)
		if i%4 == 0 {
			e.SetICCProfile([]byte("icc-profile"))
			e.SetXMP([]byte("<xmp/>"))
		}
		cur := img.Gen(r, img.Pick(r, img.Classes), pickS(r, "opaque", "binary", "gradient"), w, h)
		nf := 2 + r.Intn(5)
		ok := true
		for f := 0; f < nf && ok; f++ {
			ok = e.AddFrame(cur, time.Duration(r.Intn(200))*time.Millisecond) == nil
			nxt := img.Gen(r, img.Pick(r, img.Classes), pickS(r, "opaque", "binary"), w, h)
			// change only a rectangle
			x0, y0 := r.Intn(w), r.Intn(h)
			x1, y1 := x0+1+r.Intn(w-x0), y0+1+r.Intn(h-y0)
			cp := img.Gen(r, "flat", "opaque", w, h)
			copy(cp.Pix, cur.Pix)
			for y := y0; y < y1; y++ {
				copy(cp.Pix[y*cp.Stride+x0*4:y*cp.Stride+x1*4], nxt.Pix[y*nxt.Stride+x0*4:y*nxt.Stride+x1*4])
			}
			cur = cp
		}
		if ok && e.Close() == nil {
			kind := "anim-lossless"
			if i%3 == 1 {
				kind = "anim-lossy"
			} else if i%3 == 2 {
				kind = "anim-mixed"
			}
			out = append(out, namedFile{Name: kind, Data: append([]byte{}, buf.Bytes()...), Anim: true})
		}
	}
	return out
}

// aspectCorpus: valid files of extreme aspect ratio (more than 100000 pixels in fewer rows or columns
// than a host has cores): the row/column partitioning of every parallel section degenerates here.
func aspectCorpus(r *rand.Rand) []namedFile {
	var out []namedFile
	add := func(name, class, alpha string, w, h int, mod func(o *webp.EncoderOptions)) {
		o := webp.DefaultOptions()
		o.Method = 1
		mod(o)
		if d, err := encode(img.Gen(r, class, alpha, w, h), o); err == nil {
			out = append(out, namedFile{Name: "aspect/" + name, Data: d})
		}
	}
	ll := func(o *webp.EncoderOptions) { o.Lossless = true }
	add("lossless-16000x9", "flat", "opaque", 16000, 9, ll)
	add("lossless-8192x15", "pal4", "binary", 8192, 15, ll)
	add("lossless-9x16000", "flat", "opaque", 9, 16000, ll)
	add("lossless-4000x30", "tiles", "gradient", 4000, 30, ll)
	add("lossless-16383x1", "pal16", "opaque", 16383, 1, ll)
	add("lossless-1x16383", "gradient", "opaque", 1, 16383, ll)
	add("lossy-16383x2", "gradient", "opaque", 16383, 2, func(o *webp.EncoderOptions) {})
	add("lossy-3x12000", "flat", "opaque", 3, 12000, func(o *webp.EncoderOptions) {})
	add("lossy+alpha-12000x10", "flat", "gradient", 12000, 10, func(o *webp.EncoderOptions) {})
	return out
}

// muxAnimCorpus: animations assembled with the Muxer from independently encoded small pictures: explicit
// canvas, every frame (the first included) a sub-rectangle at an even offset, mixed codecs, all
// dispose/blend combinations - layouts the animation encoder itself never writes.
func muxAnimCorpus(r *rand.Rand, n int) []namedFile {
	var out []namedFile
	for i := 0; len(out) < n && i < 4*n; i++ {
		cw, ch := 8+r.Intn(60), 8+r.Intn(60)
		if i%7 == 3 { // canvas far beyond 16 bits in one direction (the VP8X fields are 24 bits wide)
			if r.Intn(2) == 0 {
				cw = pickI(r, 65536, 65537, 70000, 66000+r.Intn(3000))
			} else {
				ch = pickI(r, 65536, 65537, 100000, 66000+r.Intn(3000))
			}
		}
		m := mux.NewMuxer()
		m.SetCanvasSize(cw, ch)
		m.SetLoopCount(r.Intn(5))
		nf := 2 + r.Intn(4)
		ok := true
		for f := 0; f < nf && ok; f++ {
			fw, fh := 1+r.Intn(min(cw, 64)), 1+r.Intn(min(ch, 64))
			if f == 0 && i%2 == 0 { // a small first frame away from the origin
				fw, fh = 1+r.Intn(max(1, min(cw, 64)/3)), 1+r.Intn(max(1, min(ch, 64)/3))
			}
			ox, oy := 2*r.Intn((cw-fw)/2+1), 2*r.Intn((ch-fh)/2+1)
			o := webp.DefaultOptions()
			o.Lossless = r.Intn(2) == 0
			d, err := encode(img.Gen(r, img.Pick(r, img.Classes), pickS(r, "opaque", "binary", "gradient"), fw, fh), o)
			if err != nil {
				ok = false
				break
			}
			chs := riffChunks(d)
			var bs []byte
			if p, has := chs["VP8L"]; has {
				bs = p
			} else if p, has := chs["VP8 "]; has {
				if a, hasA := chs["ALPH"]; hasA {
					bs = append(append([]byte{}, chunk("ALPH", a)...), chunk("VP8 ", p)...)
				} else {
					bs = p
				}
			}
			ok = bs != nil && m.AddFrame(bs, &mux.FrameOptions{Duration: 10 + r.Intn(90), OffsetX: ox, OffsetY: oy, BlendMode: mux.BlendMode(r.Intn(2)), DisposeMode: mux.DisposeMode(r.Intn(2))}) == nil
		}
		var b bytes.Buffer
		if ok && m.Assemble(&b) == nil {
			out = append(out, namedFile{Name: "mux-anim", Data: b.Bytes(), Anim: true})
		}
	}
	return out
}

// muxLoneCorpus: Muxer outputs with exactly one frame and no display time - at the origin or at an (odd or even) offset,
// with or without an explicit canvas, with or without metadata. Whatever container layout the muxer picks for them,
// every view of the file reports the same canvas.
func muxLoneCorpus(r *rand.Rand, n int) []namedFile {
	var out []namedFile
	for i := 0; len(out) < n && i < 4*n; i++ {
		fw, fh := 1+r.Intn(40), 1+r.Intn(40)
		o := webp.DefaultOptions()
		o.Lossless = i%2 == 0
		d, err := encode(img.Gen(r, img.Pick(r, img.Classes), pickS(r, "opaque", "binary", "gradient"), fw, fh), o)
		if err != nil {
			continue
		}
		chs := riffChunks(d)
		bs := chs["VP8L"]
		if bs == nil {
			bs = chs["VP8 "]
			if a, hasA := chs["ALPH"]; hasA && bs != nil {
				bs = append(append([]byte{}, chunk("ALPH", a)...), bs...)
			}
		}
		if bs == nil {
			continue
		}
		m := mux.NewMuxer()
		ox, oy := pickI(r, 0, 1, 1, 2, 3, 5, 8), pickI(r, 0, 0, 1, 2, 4)
		if i%5 == 0 {
			ox, oy = 0, 0
		}
		switch i % 3 {
		case 0:
			m.SetCanvasSize(ox+fw+r.Intn(6), oy+fh+r.Intn(6))
		}
		switch (i / 3) % 3 {
		case 0:
			m.SetEXIF([]byte("exif"))
		case 1:
			m.SetICCProfile([]byte("icc-odd"))
		}
		if m.AddFrame(bs, &mux.FrameOptions{OffsetX: ox, OffsetY: oy, BlendMode: mux.BlendMode(r.Intn(2))}) != nil {
			continue
		}
		var b bytes.Buffer
		if m.Assemble(&b) == nil {
			out = append(out, namedFile{Name: "mux-lone", Data: b.Bytes()})
		}
	}
	return out
}

// badFramesAnim: a well-formed animation container several of whose frames do not decode - the first one a large
// lossless picture cut shortly before its end (fails late), a later one a lossy frame without its start code (fails
// at once), the rest fine. Which error a frame-decoding call reports must not depend on who finishes first.
func badFramesAnim(r *rand.Rand) []byte {
	m := mux.NewMuxer()
	m.SetCanvasSize(220, 220)
	lo := webp.DefaultOptions()
	lo.Lossless = true
	big, _ := encode(img.Gen(r, "noise", "opaque", 200+r.Intn(20), 200+r.Intn(20)), lo)
	bigBS := riffChunks(big)["VP8L"]
	small := func(lossless bool) []byte {
		o := webp.DefaultOptions()
		o.Lossless = lossless
		d, _ := encode(img.Gen(r, "photo", "opaque", 16+r.Intn(16), 16+r.Intn(16)), o)
		if lossless {
			return riffChunks(d)["VP8L"]
		}
		return riffChunks(d)["VP8 "]
	}
	add := func(bs []byte) { m.AddFrame(bs, &mux.FrameOptions{Duration: 30}) }
	add(bigBS[:len(bigBS)-len(bigBS)/50-3]) // frame 0: fails late
	add(small(true))
	add(small(false))
	add(small(true))
	broken := append([]byte{}, small(false)...)
	if len(broken) > 6 {
		broken[3], broken[4], broken[5] = 0, 0, 0 // start code gone: fails at once
	}
	add(broken)
	add(small(true))
	cut := small(false)
	add(cut[:len(cut)/2]) // a third bad frame
	var b bytes.Buffer
	if m.Assemble(&b) != nil {
		return nil
	}
	return b.Bytes()
}
