package checks

import (
	"os"
	"testing"
)

// The deadlock verdict depends on recognising parked row waiters in a real SIGQUIT dump.
func TestParkedRE(t *testing.T) {
	if p := os.Getenv("VERIF_C10_DUMP"); p != "" {
		b, err := os.ReadFile(p)
		if err != nil {
			t.Fatal(err)
		}
		if !parkedForMinutes(string(b)) {
			t.Fatal("real dump not recognised")
		}
	}
	sys := "goroutine 297 gp=0xc000103a40 m=nil [sync.Cond.Wait, 3 minutes]:\nruntime.gopark(0x1?)\n\t/x/proc.go:435 +0xce\nsync.(*Cond).Wait(0x3?)\n\t/x/cond.go:71 +0x85\ngithub.com/deepteams/webp/internal/lossy.(*rowSync).waitFor(0x3?, 0x12, 0x2)\n"
	plain := "goroutine 7 [sync.Cond.Wait, 12 minutes]:\nsync.runtime_notifyListWait(0x1, 0x2)\n\t/x/sema.go:597 +0x159\nsync.(*Cond).Wait(0x3?)\n\t/x/cond.go:71 +0x85\ngithub.com/deepteams/webp/internal/lossy.(*rowSync).waitFor(0x3?, 0x12, 0x2)\n"
	fresh := "goroutine 7 [sync.Cond.Wait]:\nsync.(*Cond).Wait(0x3?)\n\t/x/cond.go:71 +0x85\ngithub.com/deepteams/webp/internal/lossy.(*rowSync).waitFor(0x3?, 0x12, 0x2)\n"
	other := "goroutine 7 [sync.Cond.Wait, 3 minutes]:\nsync.(*Cond).Wait(0x3?)\n\t/x/cond.go:71 +0x85\nio.(*pipe).read(0x1)\n\n" + fresh
	if !parkedForMinutes(sys) || !parkedForMinutes(plain) {
		t.Fatal("parked waiter not recognised")
	}
	if parkedForMinutes(fresh) || parkedForMinutes(other) {
		t.Fatal("non-parked dump recognised as deadlock")
	}
}
