package checks

import (
	"bufio"
	"bytes"
	"encoding/json"
	"fmt"
	"image"
	"math/rand"
	"os"
	"os/exec"
	"runtime"
	"runtime/debug"
	"strconv"
	"strings"
	"sync"
	"time"

	webp "github.com/deepteams/webp"
	"github.com/deepteams/webp/animation"
	"github.com/deepteams/webp/mux"
	"github.com/deepteams/webp/sharpyuv"

	"verif/ev"
	"verif/gen/vp8"
	"verif/gen/vp8l"
	"verif/img"
)

func init() {
	Registry["C11"] = Check{Level: "exploration", Run: runC11}
	workers["C11"] = c11Worker
}

// c11Entry is one (operation, input, options) catalogue entry. Run returns a digest of the
// result and the returned buffers (kept by the caller and re-hashed after later calls).
type c11Entry struct {
	Name string
	Run  func() (digest string, keep [][]byte)
}

func keepOf(m image.Image) [][]byte {
	switch t := m.(type) {
	case *image.YCbCr:
		return [][]byte{t.Y, t.Cb, t.Cr}
	case *image.NRGBA:
		return [][]byte{t.Pix}
	}
	return nil
}

func errDigest(err error) string {
	s := err.Error()
	if len(s) > 80 {
		s = s[:80]
	}
	return "ERR:" + s
}

// c11Catalogue is a pure function of the seed. The first `core` entries form the pair core.
func c11Catalogue(c *ev.Ctx) (entries []c11Entry, core int) {
	r := rng(c, 7)
	add := func(name string, f func() (string, [][]byte)) { entries = append(entries, c11Entry{name, f}) }
	enc := func(name string, m image.Image, o *webp.EncoderOptions) {
		add("enc/"+name, func() (string, [][]byte) {
			b, err := encode(m, o)
			if err != nil {
				return errDigest(err), nil
			}
			return ev.Sum(b), [][]byte{b}
		})
	}
	dec := func(name string, file []byte) {
		f := append([]byte{}, file...)
		add("dec/"+name, func() (string, [][]byte) {
			m, err := decode(f)
			if err != nil {
				return errDigest(err), nil
			}
			return imgDigest(m), keepOf(m)
		})
	}
	opt := func(mod func(o *webp.EncoderOptions)) *webp.EncoderOptions {
		o := webp.DefaultOptions()
		mod(o)
		return o
	}
	// --- pair core (40 entries): equal macroblock dimensions, different options / content / alpha
	a64 := img.Gen(r, "photo", "opaque", 64, 64)
	b64 := img.Gen(r, "noise", "opaque", 61, 63) // same 4x4 macroblock grid
	t64 := img.Gen(r, "tiles", "gradient", 64, 64)
	u64 := img.Gen(r, "photo", "binary", 60, 64)
	s32 := img.Gen(r, "pal16", "opaque", 30, 20)
	enc("lossy/default/a64", a64, opt(func(o *webp.EncoderOptions) {}))
	enc("lossy/default/b64", b64, opt(func(o *webp.EncoderOptions) {}))
	enc("lossy/alpha/t64", t64, opt(func(o *webp.EncoderOptions) {}))
	enc("lossy/alpha-binary/u64", u64, opt(func(o *webp.EncoderOptions) {}))
	enc("lossy/sns0/a64", a64, opt(func(o *webp.EncoderOptions) { o.SNSStrength = 0 }))
	enc("lossy/m1/a64", a64, opt(func(o *webp.EncoderOptions) { o.Method = 1 }))
	enc("lossy/m6/b64", b64, opt(func(o *webp.EncoderOptions) { o.Method = 6 }))
	enc("lossy/seg1/a64", a64, opt(func(o *webp.EncoderOptions) { o.Segments = 1 }))
	enc("lossy/part3/b64", b64, opt(func(o *webp.EncoderOptions) { o.Partitions = 3 }))
	enc("lossy/dither/t64", t64, opt(func(o *webp.EncoderOptions) { o.Preprocessing = 2 }))
	enc("lossy/dither/a64", a64, opt(func(o *webp.EncoderOptions) { o.Preprocessing = 2 }))
	enc("lossy/dither+seg/b64", b64, opt(func(o *webp.EncoderOptions) { o.Preprocessing = 3 }))
	enc("lossy/tsize/a64", a64, opt(func(o *webp.EncoderOptions) { o.TargetSize = 900 }))
	enc("lossy/sharp/b64", b64, opt(func(o *webp.EncoderOptions) { o.UseSharpYUV = true }))
	enc("lossy/exact-nrgba64-alpha/t64", img.AsType(r, t64, "NRGBA64"), opt(func(o *webp.EncoderOptions) { o.Exact = true }))
	enc("lossy/gray/a64", img.AsType(r, a64, "Gray"), opt(func(o *webp.EncoderOptions) {}))
	enc("lossy/ycbcr/b64", img.AsType(r, b64, "YCbCr"), opt(func(o *webp.EncoderOptions) {}))
	enc("lossy/paletted-exact-alpha/u64", img.AsType(r, u64, "Paletted"), opt(func(o *webp.EncoderOptions) { o.Exact = true }))
	enc("lossy/filter0-q20/a64", a64, opt(func(o *webp.EncoderOptions) { o.FilterStrength = 0; o.Quality = 20 }))
	enc("lossy/small/s32", s32, opt(func(o *webp.EncoderOptions) {}))
	enc("lossless/default/a64", a64, opt(func(o *webp.EncoderOptions) { o.Lossless = true }))
	enc("lossless/alpha/t64", t64, opt(func(o *webp.EncoderOptions) { o.Lossless = true }))
	enc("lossless/m6q100/t64", t64, opt(func(o *webp.EncoderOptions) { o.Lossless = true; o.Method = 6; o.Quality = 100 }))
	enc("lossless/m0/b64", b64, opt(func(o *webp.EncoderOptions) { o.Lossless = true; o.Method = 0 }))
	enc("lossless/pal/s32", s32, opt(func(o *webp.EncoderOptions) { o.Lossless = true; o.Method = 5; o.Quality = 90 }))
	enc("lossless/exact/u64", u64, opt(func(o *webp.EncoderOptions) { o.Lossless = true; o.Exact = true }))
	// decodes
	mk := func(m image.Image, o *webp.EncoderOptions) []byte { b, _ := encode(m, o); return b }
	fLossy := mk(a64, opt(func(o *webp.EncoderOptions) {}))
	fLossyA := mk(t64, opt(func(o *webp.EncoderOptions) {}))
	fLossless := mk(t64, opt(func(o *webp.EncoderOptions) { o.Lossless = true }))
	fPal := mk(s32, opt(func(o *webp.EncoderOptions) { o.Lossless = true; o.Method = 6; o.Quality = 100 }))
	dec("lossy/a64", fLossy)
	dec("lossy+alpha/t64", fLossyA)
	dec("lossless/t64", fLossless)
	dec("lossless-pal/s32", fPal)
	for k := 0; k < 4; k++ { // synthesized VP8 frames with filter deltas / segments, same grid
		pl, _ := vp8.Synthesize(rng(c, 100+k), vp8.Params{W: 40, H: 40, FilterType: 1 + k%2, Segmentation: 1 + k%2})
		dec(fmt.Sprintf("synth-vp8/%d", k), vp8.WrapRIFF(pl))
	}
	for k := 0; k < 3; k++ {
		p := vp8l.DefaultParams()
		p.W, p.H = 33, 21
		pl, _ := vp8l.Synthesize(rng(c, 200+k), p)
		dec(fmt.Sprintf("synth-vp8l/%d", k), vp8l.WrapRIFF(pl))
	}
	// corrupt inputs: the failed decode must not influence what follows
	bad1 := append([]byte{}, fLossy...)
	for i := 40; i < len(bad1) && i < 90; i += 3 {
		bad1[i] ^= 0x5a
	}
	dec("corrupt-lossy", bad1)
	dec("truncated-lossy", fLossyA[:len(fLossyA)*2/3])
	bad2 := append([]byte{}, fLossless...)
	bad2[len(bad2)/2] ^= 0xff
	dec("corrupt-lossless", bad2)
	// VP8 frames cut inside the (single) token partition with consistent container sizes: the decode
	// fails in the middle of a macroblock row, after that row's intra modes were parsed.
	for k := 0; k < 3; k++ {
		pl, _ := vp8.Synthesize(rng(c, 500+k), vp8.Params{W: 48, H: 48, Partitions: 1})
		cut := len(pl) * (5 + k) / 10
		dec(fmt.Sprintf("vp8-cut-in-tokens/%d", k), vp8.WrapRIFF(pl[:cut]))
	}
	core = len(entries)

	// --- extended catalogue
	big := img.Gen(r, "tiles", "opaque", 330, 180) // > 50 000 px, repetitive (trace-backwards path)
	big2 := img.Gen(r, "bands", "opaque", 300, 200)
	enc("lossless/q100-big/tiles", big, opt(func(o *webp.EncoderOptions) { o.Lossless = true; o.Quality = 100 }))
	enc("lossless/q95-big/bands", big2, opt(func(o *webp.EncoderOptions) { o.Lossless = true; o.Quality = 95; o.Method = 5 }))
	enc("lossless/q75-big/tiles", big, opt(func(o *webp.EncoderOptions) { o.Lossless = true }))
	enc("lossy/big/tiles", big, opt(func(o *webp.EncoderOptions) {}))
	enc("lossy/big-m6/bands", big2, opt(func(o *webp.EncoderOptions) { o.Method = 6; o.Partitions = 2 }))
	for k, sz := range [][2]int{{128, 96}, {16, 16}, {17, 33}, {200, 40}, {1, 1}, {96, 128}} {
		m := img.Gen(r, img.Classes[k%len(img.Classes)], pickS(r, "opaque", "gradient", "binary"), sz[0], sz[1])
		enc(fmt.Sprintf("lossy/size%dx%d", sz[0], sz[1]), m, opt(func(o *webp.EncoderOptions) { o.Method = 2 + k%5 }))
		enc(fmt.Sprintf("lossless/size%dx%d", sz[0], sz[1]), m, opt(func(o *webp.EncoderOptions) { o.Lossless = true; o.Method = k % 7 }))
		dec(fmt.Sprintf("lossless/size%dx%d", sz[0], sz[1]), mk(m, opt(func(o *webp.EncoderOptions) { o.Lossless = true })))
		dec(fmt.Sprintf("lossy/size%dx%d", sz[0], sz[1]), mk(m, opt(func(o *webp.EncoderOptions) { o.AlphaCompression = k % 2 })))
	}
	for k := 0; k < 8; k++ {
		pl, _ := vp8.Synthesize(rng(c, 300+k), vp8.Params{})
		dec(fmt.Sprintf("synth-vp8-any/%d", k), vp8.WrapRIFF(pl))
		pl2, _ := vp8l.Synthesize(rng(c, 400+k), vp8l.DefaultParams())
		dec(fmt.Sprintf("synth-vp8l-any/%d", k), vp8l.WrapRIFF(pl2))
	}
	// header queries
	add("features/lossy+alpha", func() (string, [][]byte) {
		f, err := webp.GetFeatures(bytes.NewReader(fLossyA))
		if err != nil {
			return errDigest(err), nil
		}
		return fmt.Sprintf("%+v", *f), nil
	})
	// animation encode + playback, mux assemble
	frames := []*image.NRGBA{img.Gen(r, "photo", "binary", 40, 30)}
	for k := 0; k < 3; k++ {
		n := image.NewNRGBA(frames[k].Rect)
		copy(n.Pix, frames[k].Pix)
		for j := 0; j < 40; j++ {
			n.Pix[n.PixOffset(5+j%20, 3+k*4)] ^= 0x7f
		}
		frames = append(frames, n)
	}
	for _, lossless := range []bool{true, false} {
		ll := lossless
		add(fmt.Sprintf("anim/encode+play/lossless=%v", ll), func() (string, [][]byte) {
			var buf bytes.Buffer
			e := animation.NewEncoder(&buf, 40, 30, &animation.EncodeOptions{Lossless: ll, Quality: 70})
			for _, f := range frames {
				if err := e.AddFrame(f, 40*time.Millisecond); err != nil {
					return errDigest(err), nil
				}
			}
			if err := e.Close(); err != nil {
				return errDigest(err), nil
			}
			p, err := c15Pixels(buf.Bytes(), true)
			if err != nil {
				return errDigest(err), nil
			}
			return ev.Sum(buf.Bytes()) + "/" + ev.Sum(p), [][]byte{buf.Bytes(), p}
		})
	}
	// stepwise playback: every picture handed out by NextFrame is kept (not copied) and re-hashed after each
	// later NextFrame / Reset / Canvas call on the same decoder; dispose/blend flag orders that make the
	// decoder save, restore and clear its canvas between steps
	small := []*image.NRGBA{img.Gen(r, "tiles", "binary", 16, 12), img.Gen(r, "photo", "gradient", 12, 16), img.Gen(r, "pal4", "opaque", 20, 20), img.Gen(r, "noise", "levels3", 8, 8), img.Gen(r, "flat", "gradient", 14, 10)}
	var smallBS [][]byte
	for _, m := range small {
		smallBS = append(smallBS, riffChunks(mk(m, opt(func(o *webp.EncoderOptions) { o.Lossless = true; o.Exact = true })))["VP8L"])
	}
	for v := 0; v < 6; v++ {
		v := v
		flags := make([][2]int, len(smallBS)) // (dispose, blend) per frame; every variant has a None->Background step
		for k := range flags {
			flags[k] = [2]int{(k + v) % 2, (k/2 + v/2) % 2}
		}
		if v >= 4 {
			for k := range flags {
				flags[k] = [2]int{r.Intn(2), r.Intn(2)}
			}
		}
		offs := make([][2]int, len(smallBS))
		for k := range offs {
			offs[k] = [2]int{2 * r.Intn(6), 2 * r.Intn(6)}
		}
		add(fmt.Sprintf("animdec/stepwise/v%d", v), func() (string, [][]byte) {
			m := mux.NewMuxer()
			m.SetCanvasSize(32, 32)
			for k, bs := range smallBS {
				if err := m.AddFrame(bs, &mux.FrameOptions{Duration: 20 + k, OffsetX: offs[k][0], OffsetY: offs[k][1], DisposeMode: mux.DisposeMode(flags[k][0]), BlendMode: mux.BlendMode(flags[k][1])}); err != nil {
					return errDigest(err), nil
				}
			}
			var b bytes.Buffer
			if err := m.Assemble(&b); err != nil {
				return errDigest(err), nil
			}
			an, err := animation.DecodeBytes(b.Bytes())
			if err != nil {
				return errDigest(err), nil
			}
			if err := an.DecodeFrames(); err != nil {
				return errDigest(err), nil
			}
			d, err := animation.NewAnimDecoder(an)
			if err != nil {
				return errDigest(err), nil
			}
			var keptPix [][]byte
			var keptSum []string
			recheck := func(after string) string {
				for k, p := range keptPix {
					if ev.Sum(p) != keptSum[k] {
						return fmt.Sprintf("%spicture %d returned by NextFrame was modified by %s (flags dispose,blend=%v)", c11SelfViol, k, after, flags)
					}
				}
				return ""
			}
			all := ""
			for round := 0; round < 2; round++ {
				step := 0
				for d.HasNext() {
					f, _, err := d.NextFrame()
					if err != nil {
						return errDigest(err), nil
					}
					if v := recheck(fmt.Sprintf("NextFrame #%d (round %d)", step, round)); v != "" {
						return v, nil
					}
					keptPix = append(keptPix, f.Pix)
					keptSum = append(keptSum, ev.Sum(f.Pix))
					all += ev.Sum(f.Pix)[:8]
					step++
				}
				cv := d.Canvas()
				if cv != nil {
					all += ev.Sum(cv.Pix)[:8]
				}
				d.Reset()
				if v := recheck(fmt.Sprintf("Reset (round %d)", round)); v != "" {
					return v, nil
				}
			}
			return ev.Sum([]byte(all)), keptPix
		})
	}
	add("mux/assemble+demux", func() (string, [][]byte) {
		m := mux.NewMuxer()
		ch := riffChunks(fLossless)
		m.AddFrame(ch["VP8L"], &mux.FrameOptions{Duration: 30})
		m.AddFrame(riffChunks(fPal)["VP8L"], &mux.FrameOptions{Duration: 50, OffsetX: 2})
		m.SetEXIF([]byte("exif"))
		var b bytes.Buffer
		if err := m.Assemble(&b); err != nil {
			return errDigest(err), nil
		}
		d, err := mux.NewDemuxer(b.Bytes())
		if err != nil {
			return errDigest(err), nil
		}
		return ev.Sum(b.Bytes()) + fmt.Sprint(d.NumFrames()), [][]byte{b.Bytes()}
	})
	// the public sharpyuv package: pure functions over package-level tables that are built lazily
	for _, tf := range []sharpyuv.TransferFunc{sharpyuv.TransferSRGB, sharpyuv.TransferBT709, sharpyuv.TransferPQ, sharpyuv.TransferHLG, sharpyuv.TransferLinear} {
		tf := tf
		add(fmt.Sprintf("sharpyuv/LinearToGamma/tf%d", tf), func() (string, [][]byte) {
			var out []byte
			for _, bits := range []int{8, 10, 12} {
				for v := uint32(0); v < 1<<16; v += 251 {
					g := sharpyuv.LinearToGamma(v, bits, tf)
					out = append(out, byte(g), byte(g>>8))
				}
			}
			return ev.Sum(out), nil
		})
		add(fmt.Sprintf("sharpyuv/GammaToLinear/tf%d", tf), func() (string, [][]byte) {
			var out []byte
			for _, bits := range []int{8, 10, 12} {
				for v := 0; v < 1<<bits; v += 7 {
					l := sharpyuv.GammaToLinear(uint16(v), bits, tf)
					out = append(out, byte(l), byte(l>>8), byte(l>>16), byte(l>>24))
				}
			}
			return ev.Sum(out), nil
		})
	}
	rgb := make([]byte, 37*23*3)
	for i, q := 0, img.Gen(r, "tiles", "opaque", 37, 23); i < 37*23; i++ {
		copy(rgb[3*i:3*i+3], q.Pix[4*i:4*i+3])
	}
	for k, mt := range []sharpyuv.MatrixType{sharpyuv.MatrixWebP, sharpyuv.MatrixRec601Full, sharpyuv.MatrixRec709Limited} {
		mt := mt
		for _, sharp := range []bool{true, false} {
			sharp := sharp
			tf := []sharpyuv.TransferFunc{sharpyuv.TransferSRGB, sharpyuv.TransferBT709, sharpyuv.TransferLinear}[k]
			add(fmt.Sprintf("sharpyuv/Convert/matrix%d/sharp=%v", mt, sharp), func() (string, [][]byte) {
				y := image.NewYCbCr(image.Rect(0, 0, 37, 23), image.YCbCrSubsampleRatio420)
				if err := sharpyuv.Convert(rgb, 37, 23, 37*3, y, &sharpyuv.Options{Matrix: sharpyuv.GetConversionMatrix(mt), TransferType: tf, SharpEnabled: sharp}); err != nil {
					return errDigest(err), nil
				}
				return ev.Sum(y.Y) + ev.Sum(y.Cb) + ev.Sum(y.Cr), [][]byte{y.Y, y.Cb, y.Cr}
			})
		}
	}
	// values the library hands out belong to the caller: a matrix from GetConversionMatrix / DefaultOptions is read,
	// then scribbled on; the next hand-out (and every later sharp conversion) must not have seen the scribble
	for k, mt := range []sharpyuv.MatrixType{sharpyuv.MatrixWebP, sharpyuv.MatrixRec709Full} {
		mt, k := mt, k
		add(fmt.Sprintf("sharpyuv/GetConversionMatrix/%d/caller-scribbles", mt), func() (string, [][]byte) {
			m := sharpyuv.GetConversionMatrix(mt)
			if k == 1 {
				m = sharpyuv.DefaultOptions().Matrix
			}
			d := fmt.Sprint(*m)
			for i := range m.RGBToY {
				m.RGBToY[i], m.RGBToU[i], m.RGBToV[i] = 12345, -777, 1<<20
			}
			return d, nil
		})
	}
	// readers that work on the caller's own bytes (no private copy): the same slice is handed over on every call, so a
	// decode that scribbles on its input (in-place un-filtering of an uncompressed ALPH plane, say) changes the next result
	for fl := 1; fl <= 3; fl++ {
		vp, _ := vp8.Synthesize(rng(c, 600+fl), vp8.Params{W: 21, H: 13})
		al := make([]byte, 1+21*13)
		r.Read(al)
		al[0] = byte(fl << 2) // no compression, filter fl
		mm := mux.NewMuxer()
		for k := 0; k < 2; k++ {
			pre := append(chunk("ALPH", al), vp...)
			mm.AddFrame(pre, &mux.FrameOptions{Duration: 30 + k})
		}
		var fb bytes.Buffer
		mm.Assemble(&fb)
		file := fb.Bytes()
		for _, par := range []bool{false, true} {
			par := par
			add(fmt.Sprintf("animdec/callers-bytes/alph-raw-filter%d/parallel=%v", fl, par), func() (string, [][]byte) {
				an, err := animation.DecodeBytes(file)
				if err != nil {
					return errDigest(err), nil
				}
				if par {
					err = an.DecodeFramesParallel()
				} else {
					err = an.DecodeFrames()
				}
				if err != nil {
					return errDigest(err), nil
				}
				var keep [][]byte
				d := ""
				for _, f := range an.Frames {
					d += imgDigest(f.Image)
					keep = append(keep, keepOf(f.Image)...)
				}
				return ev.Sum([]byte(d)), keep
			})
		}
	}
	return entries, core
}

// c11SelfViol prefixes the digest of a stateful entry that saw one of its own earlier results change.
const c11SelfViol = "!returned-value-modified: "

// ---- child side

type c11Msg struct {
	Kind    string   `json:"kind"` // ref, viol, stat
	I       int      `json:"i"`
	Digest  string   `json:"digest,omitempty"`
	Class   string   `json:"class,omitempty"`
	History []string `json:"history,omitempty"`
	Detail  string   `json:"detail,omitempty"`
	Hits    map[string]int64 `json:"hits,omitempty"`
	Gets    map[string]int64 `json:"gets,omitempty"`
	N       int      `json:"n,omitempty"`
	NonTriv int      `json:"nontrivial,omitempty"`
}

// c11Worker: worker C11 <seed> <tier> ref <idx>   |   worker C11 <seed> <tier> hist <shard> <nshards> <reffile>
func c11Worker(args []string) int {
	if len(args) < 4 {
		return 2
	}
	os.Setenv("VERIF_SEED", args[0])
	c := ev.New("C11", args[1], "exploration")
	entries, core := c11Catalogue(c)
	out := json.NewEncoder(os.Stdout)
	if args[2] == "ref" {
		i, _ := strconv.Atoi(args[3])
		d, _ := entries[i].Run()
		out.Encode(c11Msg{Kind: "ref", I: i, Digest: d})
		return 0
	}
	shard, _ := strconv.Atoi(args[3])
	nsh, _ := strconv.Atoi(args[4])
	var refs []string
	b, err := os.ReadFile(args[5])
	if err != nil || json.Unmarshal(b, &refs) != nil || len(refs) != len(entries) {
		fmt.Fprintln(os.Stderr, "bad reference file")
		return 2
	}
	var mu sync.Mutex
	hits, gets := map[string]int64{}, map[string]int64{}
	var histHits int64
	webp.VerifSetPool(func(id string, hit bool) {
		mu.Lock()
		gets[id]++
		if hit {
			hits[id]++
			histHits++
		}
		mu.Unlock()
	})
	// history list: all ordered pairs of the core, then random sequences
	type hist []int
	var hs []hist
	for a := 0; a < core; a++ {
		for b := 0; b < core; b++ {
			hs = append(hs, hist{a, b})
		}
	}
	r := rand.New(rand.NewSource(c.Seed*31 + 5))
	nseq := c.N(240, 20000)
	for k := 0; k < nseq; k++ {
		n := 3 + r.Intn(28)
		h := make(hist, n)
		for j := range h {
			h[j] = r.Intn(len(entries))
			if strings.Contains(entries[h[j]].Name, "-big") && r.Intn(3) != 0 {
				h[j] = r.Intn(core)
			}
		}
		hs = append(hs, h)
	}
	if c.Thorough() { // triples over the core, sampled
		for k := 0; k < 30000; k++ {
			hs = append(hs, hist{r.Intn(core), r.Intn(core), r.Intn(core)})
		}
	}
	n, nontriv := 0, 0
	var sampleHist []string
	for hi, h := range hs {
		if hi%nsh != shard {
			continue
		}
		gcOff := hi%4 != 3 // second pass flavour: GC forced between calls
		if gcOff {
			debug.SetGCPercent(-1)
		} else {
			debug.SetGCPercent(100)
		}
		mu.Lock()
		histHits = 0
		mu.Unlock()
		type kept struct {
			who  string
			bufs [][]byte
			sums []string
		}
		var keeps []kept
		names := make([]string, 0, len(h))
		for step, ei := range h {
			names = append(names, entries[ei].Name)
			var d string
			var kb [][]byte
			if p := ev.Guard(func() { d, kb = entries[ei].Run() }); p != "" {
				out.Encode(c11Msg{Kind: "viol", I: hi, Class: "panic", History: names, Detail: p})
				break
			}
			if strings.HasPrefix(d, c11SelfViol) {
				out.Encode(c11Msg{Kind: "viol", I: hi, Class: "returned-value-modified", History: append([]string{}, names...), Detail: strings.TrimPrefix(d, c11SelfViol)})
			} else if d != refs[ei] {
				out.Encode(c11Msg{Kind: "viol", I: hi, Class: "history-dependent", History: append([]string{}, names...),
					Detail: fmt.Sprintf("step %d (%s): result %q, as the first call of a fresh process %q (gc-disabled=%v)", step, entries[ei].Name, d, refs[ei], gcOff)})
			}
			// earlier results must still be intact
			for _, k := range keeps {
				for j, bf := range k.bufs {
					if ev.Sum(bf) != k.sums[j] {
						out.Encode(c11Msg{Kind: "viol", I: hi, Class: "returned-value-modified", History: append([]string{}, names...),
							Detail: fmt.Sprintf("buffer %d returned by %s changed during %s", j, k.who, entries[ei].Name)})
						k.sums[j] = ev.Sum(bf)
					}
				}
			}
			if len(kb) > 0 {
				k := kept{who: entries[ei].Name, bufs: kb}
				for _, bf := range kb {
					k.sums = append(k.sums, ev.Sum(bf))
				}
				keeps = append(keeps, k)
			}
			if !gcOff {
				runtime.GC()
			}
		}
		n++
		mu.Lock()
		if histHits > 0 {
			nontriv++
			if len(h) >= 3 && sampleHist == nil {
				sampleHist = append([]string{fmt.Sprintf("pool reuses in this history: %d; gc disabled: %v", histHits, gcOff)}, names...)
			}
		}
		mu.Unlock()
		debug.SetGCPercent(100)
		// GC stays off *inside* a history (pooled objects must survive); between histories the heap is
		// bounded: collect every 16 histories or as soon as the live heap passes 768 MiB
		var ms runtime.MemStats
		runtime.ReadMemStats(&ms)
		if hi%16 == 15 || ms.HeapAlloc > 768<<20 {
			runtime.GC()
		}
	}
	out.Encode(c11Msg{Kind: "stat", N: n, NonTriv: nontriv, Hits: hits, Gets: gets, History: sampleHist})
	return 0
}

// ---- parent side

func runC11(c *ev.Ctx) {
	c.Rule = "catalogue of (operation, input, options) entries built to collide in every pool (equal macroblock grids with different options/alpha/dithering/source types, larger-then-smaller " +
		"pictures, palette/predictor/cache lossless streams, synthesized VP8 frames with filter deltas and segments, corrupt and truncated inputs, animations, mux); reference = each entry as the " +
		"FIRST call of a fresh process; histories = all ordered pairs of the core + random sequences (length 3..30) run in long-lived children with GC disabled (3/4) or forced between calls (1/4); " +
		"every result must equal its reference and every buffer returned earlier is re-hashed after each later call; distinct = histories in which at least one pooled object was actually reused (pool hook)"
	c.Assume("children inherit GOMAXPROCS from the parent, so history is the only variable between a reference run and a history run")
	exe := os.Getenv("VERIF_EXE")
	if exe == "" {
		exe, _ = os.Executable()
	}
	entries, core := c11Catalogue(c)
	refs := make([]string, len(entries))
	var wg sync.WaitGroup
	sem := make(chan struct{}, runtime.NumCPU())
	var refErr sync.Map
	for i := range entries {
		wg.Add(1)
		go func(i int) {
			defer wg.Done()
			sem <- struct{}{}
			defer func() { <-sem }()
			out, err := exec.Command(exe, "worker", "C11", strconv.FormatInt(c.Seed, 10), c.Tier, "ref", strconv.Itoa(i)).Output()
			var m c11Msg
			if err != nil || json.Unmarshal(bytes.TrimSpace(out), &m) != nil {
				refErr.Store(i, fmt.Sprintf("%v: %s", err, out))
				return
			}
			refs[i] = m.Digest
			if strings.HasPrefix(m.Digest, c11SelfViol) { // a stateful entry found one of its own results modified, even in a fresh process
				c.Violate(ev.Case{Idx: i, Desc: entries[i].Name}, "returned-value-modified", map[string]string{"entry": entries[i].Name}, strings.TrimPrefix(m.Digest, c11SelfViol), nil)
			}
		}(i)
	}
	wg.Wait()
	bad := false
	refErr.Range(func(k, v any) bool {
		c.Violate(ev.Case{Idx: k.(int), Desc: entries[k.(int)].Name}, "reference-run-died", nil, v.(string), nil)
		bad = true
		return true
	})
	if bad {
		return
	}
	// second reference run: a fresh process must be deterministic to begin with
	for _, i := range []int{0, core / 2, core - 1, len(entries) - 1} {
		out, _ := exec.Command(exe, "worker", "C11", strconv.FormatInt(c.Seed, 10), c.Tier, "ref", strconv.Itoa(i)).Output()
		var m c11Msg
		if json.Unmarshal(bytes.TrimSpace(out), &m) == nil && m.Digest != refs[i] {
			c.Violate(ev.Case{Idx: i, Desc: entries[i].Name}, "fresh-process-nondeterministic", nil, fmt.Sprintf("%q vs %q", m.Digest, refs[i]), nil)
		}
	}
	rf, err := os.CreateTemp("", "verif-c11-refs-*.json")
	if err != nil {
		c.Fatal("tempfile: %v", err)
		return
	}
	defer os.Remove(rf.Name())
	json.NewEncoder(rf).Encode(refs)
	rf.Close()
	nsh := runtime.NumCPU()
	totalHits, totalGets := map[string]int64{}, map[string]int64{}
	var mu sync.Mutex
	nHist, nNonTriv := 0, 0
	for s := 0; s < nsh; s++ {
		wg.Add(1)
		go func(s int) {
			defer wg.Done()
			cmd := exec.Command(exe, "worker", "C11", strconv.FormatInt(c.Seed, 10), c.Tier, "hist", strconv.Itoa(s), strconv.Itoa(nsh), rf.Name())
			var stderr bytes.Buffer
			cmd.Stderr = &stderr
			cmd.Env = append(os.Environ(), "GOMAXPROCS=4")
			stdout, _ := cmd.StdoutPipe()
			if err := cmd.Start(); err != nil {
				c.Fatal("start child: %v", err)
				return
			}
			sc := bufio.NewScanner(stdout)
			sc.Buffer(make([]byte, 1<<20), 1<<24)
			gotStat := false
			for sc.Scan() {
				var m c11Msg
				if json.Unmarshal(sc.Bytes(), &m) != nil {
					continue
				}
				switch m.Kind {
				case "viol":
					last := ""
					if len(m.History) > 0 {
						last = m.History[len(m.History)-1]
					}
					c.Violate(ev.Case{Idx: m.I, Desc: fmt.Sprint(m.History)}, m.Class, map[string]string{"entry": last}, m.Detail, map[string]any{"history": m.History})
				case "stat":
					gotStat = true
					mu.Lock()
					nHist += m.N
					nNonTriv += m.NonTriv
					for k, v := range m.Hits {
						totalHits[k] += v
					}
					for k, v := range m.Gets {
						totalGets[k] += v
					}
					if len(m.History) > 0 {
						c.Sample(map[string]any{"executed_history": m.History})
					}
					mu.Unlock()
				}
			}
			err := cmd.Wait()
			if err != nil && strings.Contains(err.Error(), "signal: killed") {
				// killed from outside (out-of-memory killer): the run cannot conclude, which is not a verdict
				c.Fatal("history child %d was killed (out of memory?): %s", s, trimTail(stderr.String(), 500))
				return
			}
			if err != nil || !gotStat {
				c.Violate(ev.Case{Idx: s, Desc: fmt.Sprintf("history child %d", s)}, "child-died", nil, fmt.Sprintf("%v; stderr tail: %s", err, trimTail(stderr.String(), 2000)), nil)
			}
		}(s)
	}
	wg.Wait()
	c.Eval(nHist)
	for i := 0; i < nNonTriv; i++ {
		c.Distinct(fmt.Sprintf("h%d", i))
	}
	c.Extra("pool_hits", totalHits)
	c.Extra("pool_gets", totalGets)
	c.Extra("catalogue_entries", len(entries))
	c.Extra("pair_core", core)
	c.Extra("histories_with_pool_reuse", nNonTriv)
	var names []string
	for _, e := range entries[:8] {
		names = append(names, e.Name)
	}
	c.Sample(map[string]any{"first_catalogue_entries": names, "example_history": []string{entries[0].Name, entries[9].Name, entries[2].Name}})
	// every pool must actually have been hit, or the run observed nothing for that pool
	for _, p := range []string{"lossy.encoderPool", "lossless.encoderPool", "lossy.decoderPool", "lossless.decoderPool", "webp.argbPool", "lossy.boolWriterPool", "lossy.parallelPool", "lossy.importUVWorkerPool"} {
		if totalHits[p] == 0 {
			c.Fatal("pool %s was never hit: histories did not exercise reuse (observed nothing)", p)
		}
	}
}
