package checks

import (
	"fmt"
	"math/rand"
	"sync"

	webp "github.com/deepteams/webp"
)

// legalOpts draws every EncoderOptions field independently from a small set of *legal*
// values that includes the range ends and the documented sentinels.
func legalOpts(r *rand.Rand, lossless bool) *webp.EncoderOptions {
	o := webp.DefaultOptions()
	o.Lossless = lossless
	o.Quality = pickF(r, 0, 1, 10, 25, 50, 75, 75, 90, 99.5, 100)
	o.Method = r.Intn(7)
	o.Preset = webp.Preset(r.Intn(6))
	o.UseSharpYUV = r.Intn(5) == 0
	o.Exact = r.Intn(3) == 0
	o.TargetSize = pickI(r, 0, 0, 0, 0, 150, 1500, 20000, 1000000)
	o.TargetPSNR = pickF(r, 0, 0, 0, 0, 25, 38, 48, 70)
	o.Preprocessing = r.Intn(4)
	o.SNSStrength = pickI(r, -1, 0, 25, 50, 80, 100)
	o.FilterStrength = pickI(r, -1, 0, 0, 1, 20, 60, 100)
	o.FilterSharpness = r.Intn(8)
	o.FilterType = pickI(r, -1, 0, 1)
	o.Partitions = r.Intn(4)
	o.Segments = pickI(r, -1, 0, 1, 2, 3, 4)
	o.Pass = pickI(r, -1, 0, 1, 1, 2, 3, 6, 10)
	o.EmulateJpegSize = r.Intn(6) == 0
	switch r.Intn(6) {
	case 0:
		o.QMin, o.QMax = 0, 100
	case 1:
		o.QMin, o.QMax = 30, 60
	case 2:
		o.QMin, o.QMax = 50, 50
	case 3:
		o.QMin, o.QMax = 0, 0
	case 4:
		o.QMin, o.QMax = 100, 100
	default:
		o.QMin, o.QMax = 0, -1
	}
	o.AlphaCompression = pickI(r, -1, 0, 1)
	o.AlphaFiltering = pickI(r, -1, 0, 1, 2)
	o.AlphaQuality = pickI(r, -1, -1, 100, 100, 0, 1, 35, 70, 71, 99)
	if r.Intn(3) == 0 {
		o.ICC = blob(r)
	}
	if r.Intn(3) == 0 {
		o.EXIF = blob(r)
	}
	if r.Intn(3) == 0 {
		o.XMP = blob(r)
	}
	return o
}

func blob(r *rand.Rand) []byte {
	n := []int{0, 1, 2, 3, 7, 8, 31, 100, 255, 1000, 4097}[r.Intn(11)]
	b := make([]byte, n)
	r.Read(b)
	if n >= 16 && r.Intn(3) == 0 {
		copy(b, "RIFF\xff\xff\xff\x7fWEBPVP8X")
	}
	return b
}

func pickI(r *rand.Rand, v ...int) int             { return v[r.Intn(len(v))] }
func pickF(r *rand.Rand, v ...float32) float32     { return v[r.Intn(len(v))] }
func pickS(r *rand.Rand, v ...string) string       { return v[r.Intn(len(v))] }

// pairCover measures pairwise coverage of (field=value) combinations actually exercised.
type pairCover struct {
	mu    sync.Mutex
	pairs map[string]struct{}
	vals  map[string]struct{}
}

func newPairCover() *pairCover {
	return &pairCover{pairs: map[string]struct{}{}, vals: map[string]struct{}{}}
}

func optFields(o *webp.EncoderOptions) []string {
	return []string{
		fmt.Sprintf("L=%v", o.Lossless), fmt.Sprintf("Q=%g", o.Quality), fmt.Sprintf("M=%d", o.Method),
		fmt.Sprintf("Preset=%d", o.Preset), fmt.Sprintf("Sharp=%v", o.UseSharpYUV), fmt.Sprintf("Exact=%v", o.Exact),
		fmt.Sprintf("TS=%d", o.TargetSize), fmt.Sprintf("TP=%g", o.TargetPSNR), fmt.Sprintf("Prep=%d", o.Preprocessing),
		fmt.Sprintf("SNS=%d", o.SNSStrength), fmt.Sprintf("FS=%d", o.FilterStrength), fmt.Sprintf("FSh=%d", o.FilterSharpness),
		fmt.Sprintf("FT=%d", o.FilterType), fmt.Sprintf("P=%d", o.Partitions), fmt.Sprintf("S=%d", o.Segments),
		fmt.Sprintf("Pass=%d", o.Pass), fmt.Sprintf("J=%v", o.EmulateJpegSize), fmt.Sprintf("QMM=%d/%d", o.QMin, o.QMax),
		fmt.Sprintf("AC=%d", o.AlphaCompression), fmt.Sprintf("AF=%d", o.AlphaFiltering), fmt.Sprintf("AQ=%d", o.AlphaQuality),
		fmt.Sprintf("ICC=%v", o.ICC != nil), fmt.Sprintf("EXIF=%v", o.EXIF != nil), fmt.Sprintf("XMP=%v", o.XMP != nil),
	}
}

func (p *pairCover) add(o *webp.EncoderOptions, extra ...string) {
	f := append(optFields(o), extra...)
	p.mu.Lock()
	for i := range f {
		p.vals[f[i]] = struct{}{}
		for j := i + 1; j < len(f); j++ {
			p.pairs[f[i]+"&"+f[j]] = struct{}{}
		}
	}
	p.mu.Unlock()
}

func (p *pairCover) report() map[string]int {
	p.mu.Lock()
	defer p.mu.Unlock()
	return map[string]int{"field_values_seen": len(p.vals), "value_pairs_seen": len(p.pairs)}
}
