package main

import (
	"bytes"
	"fmt"

	"verif/ximage/vp8"
)

func xiParams(payload []byte) {
	d := vp8.NewDecoder()
	d.Init(bytes.NewReader(payload), len(payload))
	if _, err := d.DecodeFrameHeader(); err != nil {
		fmt.Println(err)
		return
	}
	if _, err := d.DecodeFrame(); err != nil {
		fmt.Println(err)
		return
	}
	for i, s := range d.DebugFilterParams() {
		fmt.Println("XI", i, s)
	}
}
