package main

import (
	"bytes"
	"encoding/base64"
	"encoding/json"
	"fmt"
	"image"
	"os"

	webp "github.com/deepteams/webp"
	"verif/lw"
	"verif/riffwalk"
)

func main() {
	b, _ := os.ReadFile(os.Args[1])
	if bytes.HasPrefix(b, []byte("{")) {
		var rep struct {
			Desc string
			Data struct{ File, Sig string }
		}
		json.Unmarshal(b, &rep)
		fmt.Println(rep.Desc, rep.Data.Sig)
		b, _ = base64.StdEncoding.DecodeString(rep.Data.File)
	}
	info, iss := riffwalk.Walk(b)
	fmt.Println("walk:", iss)
	if info != nil && len(info.Frames) > 0 && info.Frames[0].BS != nil {
		bs := *info.Frames[0].BS
		bs.Data = nil
		fmt.Printf("%+v\n", bs)
		xiParams(info.Frames[0].BS.Data)
	}
	ly, err := lw.DecodeYUV(b, false)
	fmt.Println("libwebp:", err)
	lb, _ := lw.DecodeYUV(b, true)
	m, err := webp.Decode(bytes.NewReader(b))
	fmt.Println("repo:", err)
	d, ok := m.(*image.YCbCr)
	if !ok {
		fmt.Printf("type %T\n", m)
		n := m.(*image.NRGBA)
		want, w, h, _ := lw.DecodeRGBA(b)
		cnt := 0
		for y := 0; y < h; y++ {
			for x := 0; x < w; x++ {
				g := n.Pix[y*n.Stride+x*4 : y*n.Stride+x*4+4]
				wv := want[(y*w+x)*4 : (y*w+x)*4+4]
				if !bytes.Equal(g, wv) {
					if cnt < 60 {
						fmt.Printf("(%d,%d) repo=%v lw=%v\n", x, y, g, wv)
					}
					cnt++
				}
			}
		}
		fmt.Println("w,h", w, h, "diffs", cnt)
		return
	}
	w, h := ly.W, ly.H
	n := 0
	for y := 0; y < h; y++ {
		for x := 0; x < w; x++ {
			g := d.Y[d.YOffset(x, y)]
			if g != ly.Y[y*w+x] {
				if n < 40 {
					fmt.Printf("Y(%d,%d) repo=%d lw=%d unfiltered=%d\n", x, y, g, ly.Y[y*w+x], lb.Y[y*w+x])
				}
				n++
			}
		}
	}
	fmt.Println("Y diffs:", n)
	cw := (w + 1) / 2
	for y := 0; y < (h+1)/2; y++ {
		for x := 0; x < cw; x++ {
			o := d.COffset(2*x, 2*y)
			if d.Cb[o] != ly.U[y*cw+x] {
				fmt.Printf("U(%d,%d) repo=%d lw=%d unf=%d\n", x, y, d.Cb[o], ly.U[y*cw+x], lb.U[y*cw+x])
			}
			if d.Cr[o] != ly.V[y*cw+x] {
				fmt.Printf("V(%d,%d) repo=%d lw=%d unf=%d\n", x, y, d.Cr[o], ly.V[y*cw+x], lb.V[y*cw+x])
			}
		}
	}
}
