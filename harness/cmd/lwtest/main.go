package main

import (
	"bytes"
	"fmt"
	"os"

	webp "github.com/deepteams/webp"
	"verif/lw"
	"verif/riffwalk"
	"verif/ximage"
)

func main() {
	if len(os.Args) < 2 {
		fmt.Println(lw.SelfTest())
		return
	}
	b, _ := os.ReadFile(os.Args[1])
	_, _, _, e1 := lw.DecodeRGBA(b)
	fmt.Println("libwebp:", e1)
	_, e2 := webp.Decode(bytes.NewReader(b))
	fmt.Println("repo:", e2)
	_, e3 := ximage.Decode(b)
	fmt.Println("ximage:", e3)
	info, iss := riffwalk.Walk(b)
	fmt.Println("walk:", iss)
	if info != nil && len(info.Frames) > 0 && info.Frames[0].BS != nil {
		bs := info.Frames[0].BS
		fmt.Printf("%+v\n", *bs)
		p := bs.Data
		tbl := 10 + bs.Part0Len
		for i := 0; i < bs.Partitions-1; i++ {
			fmt.Print(int(p[tbl+3*i])|int(p[tbl+3*i+1])<<8|int(p[tbl+3*i+2])<<16, " ")
		}
		fmt.Println("payload", len(p), "tbl", tbl)
	}
}
