package main

import (
	"fmt"
	"verif/lw"
)

func main() { fmt.Println(lw.SelfTest()); fmt.Printf("%+v\n", lw.DefaultConfig()) }
