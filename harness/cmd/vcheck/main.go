// vcheck runs one property check: vcheck <Cnn> <quick|thorough> [-only N]
package main

import (
	"encoding/json"
	"fmt"
	"os"
	"strconv"

	"verif/checks"
	"verif/ev"
)

func main() {
	if len(os.Args) < 2 {
		fmt.Fprintln(os.Stderr, "usage: vcheck <Cnn> <quick|thorough> [-only N] | vcheck replay <file> | vcheck worker <Cnn> ...")
		os.Exit(2)
	}
	if os.Args[1] == "worker" {
		os.Exit(checks.Worker(os.Args[2:]))
	}
	if os.Args[1] == "replay" {
		if len(os.Args) < 3 {
			os.Exit(2)
		}
		b, err := os.ReadFile(os.Args[2])
		if err != nil {
			fmt.Fprintln(os.Stderr, err)
			os.Exit(2)
		}
		var rep struct {
			Property string `json:"property"`
			Tier     string `json:"tier"`
			Seed     int64  `json:"seed"`
			Case     int    `json:"case"`
		}
		if err := json.Unmarshal(b, &rep); err != nil {
			fmt.Fprintln(os.Stderr, err)
			os.Exit(2)
		}
		os.Setenv("VERIF_SEED", strconv.FormatInt(rep.Seed, 10))
		os.Exit(run(rep.Property, rep.Tier, rep.Case))
	}
	tier := "quick"
	if len(os.Args) > 2 {
		tier = os.Args[2]
	}
	only := -1
	for i := 3; i+1 < len(os.Args); i++ {
		if os.Args[i] == "-only" {
			only, _ = strconv.Atoi(os.Args[i+1])
		}
	}
	os.Exit(run(os.Args[1], tier, only))
}

func run(prop, tier string, only int) int {
	f, ok := checks.Registry[prop]
	if !ok {
		fmt.Fprintf(os.Stderr, "unknown property %q\n", prop)
		return 2
	}
	c := ev.New(prop, tier, f.Level)
	c.Only = only
	f.Run(c)
	return c.Finish()
}
