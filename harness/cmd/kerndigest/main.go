//go:build verifkern

// kerndigest prints the kernel-level digests of property C13 (see /verif/overlay/*.go). It only builds
// with the overlay produced by tools/mkoverlay.py:
//
//	go build -tags "verif verifkern" -overlay <overlay.json> -o kd ./cmd/kerndigest
//	kd <seed> <n>            (VERIF_NOAVX2=1 selects the SSE2 dispatch in the `ovl` build)
package main

import (
	"fmt"
	"os"
	"strconv"

	webp "github.com/deepteams/webp"
)

func main() {
	seed, n := int64(1), 20000
	if len(os.Args) > 1 {
		v, err := strconv.ParseInt(os.Args[1], 10, 64)
		if err != nil {
			fmt.Fprintln(os.Stderr, "usage: kerndigest <seed> <n>")
			os.Exit(2)
		}
		seed = v
	}
	if len(os.Args) > 2 {
		v, err := strconv.Atoi(os.Args[2])
		if err != nil || v < 0 {
			fmt.Fprintln(os.Stderr, "usage: kerndigest <seed> <n>")
			os.Exit(2)
		}
		n = v
	}
	if os.Getenv("VERIF_KERN_INFO") == "1" {
		fmt.Fprintf(os.Stderr, "avx2=%v\n", webp.VerifKernelHasAVX2())
	}
	for _, l := range webp.VerifKernelDigests(seed, n) {
		fmt.Println(l)
	}
}
