package main

import (
	"bytes"
	"fmt"
	"image"
	"image/color"
	"time"

	webp "github.com/deepteams/webp"
	"github.com/deepteams/webp/animation"
)

func main() {
	m := image.NewNRGBA(image.Rect(0, 0, 32, 32))
	for i := 0; i < 32*32; i++ {
		m.Pix[i*4+3] = 255
		m.Pix[i*4] = byte(i)
	}
	small := image.NewNRGBA(image.Rect(0, 0, 8, 8))
	for y := 0; y < 8; y++ {
		for x := 0; x < 8; x++ {
			small.SetNRGBA(x, y, color.NRGBA{0, 255, 0, 255})
		}
	}
	o := webp.DefaultOptions()
	o.Lossless = true
	var sb bytes.Buffer
	webp.Encode(&sb, small, o)
	raw := sb.Bytes()[20:] // VP8L payload after RIFF(12)+chunk header(8)
	var buf bytes.Buffer
	e := animation.NewEncoder(&buf, 32, 32, &animation.EncodeOptions{Lossless: true, Quality: 75})
	fmt.Println("AddFrame:", e.AddFrame(m, 100*time.Millisecond))
	fmt.Println("AddRawFrame:", e.AddRawFrame(raw, 100*time.Millisecond, 4, 4, animation.BlendNone, animation.DisposeNone))
	fmt.Println("Close:", e.Close())
	an, err := animation.DecodeBytes(buf.Bytes())
	if err != nil {
		fmt.Println("DecodeBytes:", err)
		return
	}
	fmt.Println("frames in file:", len(an.Frames), "bytes", buf.Len())
}
