package main

import (
	"bytes"
	"encoding/base64"
	"encoding/json"
	"fmt"
	"os"

	webp "github.com/deepteams/webp"
	"github.com/deepteams/webp/animation"
)

func main() {
	b, _ := os.ReadFile(os.Args[1])
	var rep struct {
		Desc string
		Data struct{ File string }
	}
	json.Unmarshal(b, &rep)
	data, _ := base64.StdEncoding.DecodeString(rep.Data.File)
	fmt.Println(rep.Desc, len(data))
	seq := "AAFFAFAFFFAA"
	if len(os.Args) > 2 {
		seq = os.Args[2]
	}
	for _, ch := range seq {
		if ch == 'A' {
			_, err := webp.Decode(bytes.NewReader(data))
			fmt.Println("Decode:", err)
		} else {
			an, err := animation.DecodeBytes(data)
			if err == nil {
				fmt.Println("DecodeFrames:", an.DecodeFrames())
			} else {
				fmt.Println("DecodeBytes:", err)
			}
		}
	}
}
