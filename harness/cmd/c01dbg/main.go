package main

import (
	"bytes"
	"fmt"
	"image"
	"os"

	webp "github.com/deepteams/webp"
	"verif/lw"
)

func main() {
	pix, _ := os.ReadFile(os.Args[1])
	w, h := 95, 36
	m := &image.NRGBA{Pix: pix, Stride: w * 4, Rect: image.Rect(0, 0, w, h)}
	for _, meth := range []int{0, 1, 2, 3, 4, 5, 6} {
		for _, q := range []float32{25, 50, 75, 80, 90, 95, 100} {
			for _, exact := range []bool{true, false} {
				o := webp.DefaultOptions()
				o.Lossless, o.Method, o.Quality, o.Exact = true, meth, q, exact
				var b bytes.Buffer
				if err := webp.Encode(&b, m, o); err != nil {
					fmt.Println("err", err)
					continue
				}
				p, _, _, err := lw.DecodeRGBA(b.Bytes())
				bad := 0
				if err != nil {
					bad = -1
				} else {
					for i := 0; i < len(p); i += 4 {
						if !bytes.Equal(p[i:i+4], pix[i:i+4]) && !(pix[i+3] == 0 && !exact) {
							bad++
						}
					}
				}
				if bad != 0 {
					fmt.Printf("M%d Q%g exact=%v: bad=%d bytes=%d\n", meth, q, exact, bad, b.Len())
				}
			}
		}
	}
	fmt.Println("done")
}
