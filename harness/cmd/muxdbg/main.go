package main

import (
	"bytes"
	"fmt"
	"image"

	webp "github.com/deepteams/webp"
	"github.com/deepteams/webp/mux"
)

func main() {
	m := image.NewNRGBA(image.Rect(0, 0, 8, 2))
	o := webp.DefaultOptions()
	o.Lossless = true
	var b bytes.Buffer
	webp.Encode(&b, m, o)
	bs := b.Bytes()[20:]
	mx := mux.NewMuxer()
	fmt.Println(mx.AddFrame(bs, &mux.FrameOptions{Duration: 10}))
	fmt.Println(mx.AddFrame(bs, &mux.FrameOptions{Duration: 10, OffsetY: 16777214}))
	mx.SetCanvasSize(20, 16777224)
	var out bytes.Buffer
	fmt.Println("assemble:", mx.Assemble(&out), out.Len())
}
