package main

import (
	"math/rand"
	"verif/img"
	"bytes"
	"fmt"
	"image"
	"os"
	"strconv"
	"time"

	webp "github.com/deepteams/webp"
	"verif/riffwalk"
)

func main() {
	side, _ := strconv.Atoi(os.Args[1])
	method, _ := strconv.Atoi(os.Args[2])
	m := image.NewNRGBA(image.Rect(0, 0, side, side))
	if len(os.Args) > 3 {
		m = img.Gen(rand.New(rand.NewSource(1)), os.Args[3], "opaque", side, side)
	}
	s := uint64(12345)
	if len(os.Args) > 3 {
		s = 0
	}
	for i := 0; i < len(m.Pix) && s != 0; i += 8 {
		s = s*6364136223846793005 + 1442695040888963407
		v := s
		for k := 0; k < 8; k++ {
			m.Pix[i+k] = byte(v)
			v >>= 8
		}
		m.Pix[i+3], m.Pix[i+7] = 255, 255
	}
	o := webp.DefaultOptions()
	o.Quality = 100
	o.Method = method
	var b bytes.Buffer
	t := time.Now()
	err := webp.Encode(&b, m, o)
	fmt.Println("err:", err, "bytes:", b.Len(), time.Since(t))
	if err == nil {
		info, iss := riffwalk.Walk(b.Bytes())
		fmt.Println(iss, info.Frames[0].BS.Part0Len, info.Frames[0].BS.Partitions)
	}
}
