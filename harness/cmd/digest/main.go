// digest prints digests of a fixed set of encodes (ad-hoc regression aid for fix commits).
package main

import (
	"bytes"
	"crypto/sha256"
	"fmt"
	"math/rand"

	webp "github.com/deepteams/webp"
	"verif/img"
)

func main() {
	h := sha256.New()
	for i := 0; i < 60; i++ {
		r := rand.New(rand.NewSource(int64(i)))
		m := img.Gen(r, img.Classes[i%len(img.Classes)], "opaque", 20+r.Intn(60), 20+r.Intn(60))
		o := webp.DefaultOptions()
		o.Preprocessing = 2 + i%2
		o.Quality = float32(10 + (i*7)%90)
		o.Method = i % 7
		var b bytes.Buffer
		if err := webp.Encode(&b, m, o); err != nil {
			panic(err)
		}
		h.Write(b.Bytes())
	}
	fmt.Printf("%x\n", h.Sum(nil)[:8])
}
