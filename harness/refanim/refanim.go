// Package refanim is a reference model of WebP animation canvas reconstruction, written from the
// container specification: start from a transparent canvas; before rendering frame i, if frame
// i-1 asked for disposal, clear its rectangle (clipped to the canvas) to transparent; then
// overwrite (no-blend) or alpha-blend frame i's rectangle. There is no key-frame reasoning.
package refanim

import "image"

// Frame is one frame to composite. Pix is tight non-premultiplied RGBA of size W*H.
type Frame struct {
	X, Y, W, H int
	Pix        []byte
	Blend      bool // true: alpha-blend; false: overwrite
	Dispose    bool // true: dispose to background (transparent) after display
}

// Blend is "src over dst" on non-premultiplied 8-bit RGBA: exact where the specification's
// real-valued formula is exact (src a=0 -> dst, src a=255 -> src, dst a=0 -> src), and the reference
// implementation's documented integer arithmetic elsewhere:
//
//	dst_factor_a = (dst_a * (256 - src_a)) >> 8 ; blend_a = src_a + dst_factor_a
//	channel = ((src_c*src_a + dst_c*dst_factor_a) * ((1<<24)/blend_a)) >> 24
func Blend(s, d [4]uint8) [4]uint8 {
	sa, da := uint32(s[3]), uint32(d[3])
	if sa == 0 {
		return d
	}
	if sa == 255 || da == 0 {
		return s
	}
	dfa := (da * (256 - sa)) >> 8
	ba := sa + dfa
	scale := uint32(1<<24) / ba
	var out [4]uint8
	for k := 0; k < 3; k++ {
		v := ((uint32(s[k])*sa + uint32(d[k])*dfa) * scale) >> 24
		if v > 255 {
			v = 255
		}
		out[k] = uint8(v)
	}
	out[3] = uint8(ba)
	return out
}

// RealBlend is the specification's real-valued formula (for deviation statistics only).
func RealBlend(s, d [4]uint8) [4]float64 {
	sa, da := float64(s[3]), float64(d[3])
	ba := sa + da*(1-sa/255)
	var out [4]float64
	out[3] = ba
	if ba == 0 {
		return out
	}
	for k := 0; k < 3; k++ {
		out[k] = (float64(s[k])*sa + float64(d[k])*da*(1-sa/255)) / ba
	}
	return out
}

// Play returns the canvas (tight RGBA, cw*ch*4 bytes) after each frame.
func Play(cw, ch int, frames []Frame) [][]byte {
	canvas := make([]byte, cw*ch*4)
	var out [][]byte
	for i, f := range frames {
		if i > 0 && frames[i-1].Dispose {
			p := frames[i-1]
			r := image.Rect(p.X, p.Y, p.X+p.W, p.Y+p.H).Intersect(image.Rect(0, 0, cw, ch))
			for y := r.Min.Y; y < r.Max.Y; y++ {
				for x := r.Min.X; x < r.Max.X; x++ {
					o := (y*cw + x) * 4
					canvas[o], canvas[o+1], canvas[o+2], canvas[o+3] = 0, 0, 0, 0
				}
			}
		}
		r := image.Rect(f.X, f.Y, f.X+f.W, f.Y+f.H).Intersect(image.Rect(0, 0, cw, ch))
		for y := r.Min.Y; y < r.Max.Y; y++ {
			for x := r.Min.X; x < r.Max.X; x++ {
				so := ((y-f.Y)*f.W + (x - f.X)) * 4
				o := (y*cw + x) * 4
				s := [4]uint8{f.Pix[so], f.Pix[so+1], f.Pix[so+2], f.Pix[so+3]}
				if f.Blend {
					d := [4]uint8{canvas[o], canvas[o+1], canvas[o+2], canvas[o+3]}
					s = Blend(s, d)
				}
				canvas[o], canvas[o+1], canvas[o+2], canvas[o+3] = s[0], s[1], s[2], s[3]
			}
		}
		out = append(out, append([]byte{}, canvas...))
	}
	return out
}
