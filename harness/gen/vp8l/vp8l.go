// Package vp8l is a synthesizer of random but syntactically valid VP8L (WebP
// lossless) bitstreams. It is written from the format specification only; it
// shares no code or tables with the library under test. The streams are meant
// for differential testing of decoders: the synthesizer never computes what the
// decoded image looks like, it only tracks how many pixels the token stream has
// produced so far so that backward references stay in range.
//
// The single, unavoidable exception is the entropy ("meta prefix") image: which
// prefix-code group is active at a pixel of the main image is a function of the
// *decoded* entropy image, and the bits the synthesizer has to write depend on
// that group. For that one sub-image the emitter therefore tracks pixel values
// (literals are known, copies are replayed, the colour cache is simulated with
// the hash of the specification).
package vp8l

import (
	"encoding/binary"
	"fmt"
	"math/rand"
)

// Params steers generation. For W, H, MaxSide, PaletteSize and MaxGroups the
// zero value means "choose randomly / use the default". CacheBits and MetaBits
// use -1 for "random" because 0 is a meaningful exact value there; use
// DefaultParams() to get the all-random configuration.
type Params struct {
	W, H        int   // 0 => random in [1, MaxSide]
	MaxSide     int   // default 64
	Transforms  []int // nil => random subset & order of {0 predictor, 1 cross-colour, 2 subtract-green, 3 colour-indexing}; non-nil => exactly this order (each at most once). Empty non-nil slice => no transform.
	PaletteSize int   // 0 => random 1..256 when colour-indexing is used
	CacheBits   int   // -1 => random (0 = none, or 1..11); >=0 exact
	MetaBits    int   // -1 => random (no meta image, or prefix bits 2..9); 0 => no meta prefix image; 2..9 exact
	MaxGroups   int   // cap on number of *referenced* prefix-code groups (default 12); sparse/large group indices are produced now and then (all indices up to the largest one are written, as the format requires)

	ClearAlphaHint bool // write alpha_is_used=0 in the header (default: 1, the truthful value since alpha is arbitrary)
}

// DefaultParams returns the parameters that randomise everything.
func DefaultParams() Params { return Params{CacheBits: -1, MetaBits: -1} }

// Features reports what the emitted stream actually contains (for coverage accounting).
// Token and code statistics are summed over the main image and all sub-images.
type Features struct {
	TrivialCacheGroups int // groups whose five codes are all single-symbol with a cache index as the lone green symbol
	W, H               int
	Transforms         []string       // in bitstream order, e.g. "predictor/bits=3", "cross/bits=2", "subgreen", "palette/n=5/packbits=4"
	TransformIDs       []int          // same, as transform type numbers
	PackBits           int            // bits per pixel index in the main image when colour-indexing is present (8, 4, 2 or 1); 0 = no palette
	PredModes          map[int]int    // predictor mode -> number of tiles coded as a *literal* with that mode (0..13); copied/cached tiles are not counted
	CacheBits          int            // main image
	SubCacheBits       map[int]int    // cache bits -> number of sub-images using it
	MetaBits           int            // 0 = none
	Groups             int            // number of prefix-code groups written (largest referenced index + 1)
	GroupsUsed         int            // number of distinct groups referenced by the entropy image
	CodeKinds          map[string]int // see the Kind* constants; counts over all prefix codes written (main image and sub-images)
	Literals           int
	CacheHits          int
	BackRefs           int
	PlaneCodes         map[int]int // distance prefix/plane code (1..120) -> uses; key 0 = explicit distance beyond the plane codes
	MaxLen             int         // longest backward-reference length
	MaxCodeLen         int         // longest prefix code length used (<=15)
	Overlaps           int         // backward references with distance < length
}

// Keys of Features.CodeKinds.
const (
	KindSimple1      = "simple1"       // simple code, 1 symbol, 1-bit symbol field
	KindSimple1_8    = "simple1_8bit"  // simple code, 1 symbol, 8-bit symbol field
	KindSimple2      = "simple2"       // simple code, 2 symbols, first one in a 1-bit field
	KindSimple2_8    = "simple2_8bit"  // simple code, 2 symbols, first one in an 8-bit field
	KindNormal       = "normal"        // normal code, all code lengths written (no max_symbol)
	KindNormalMaxSym = "normal_maxsym" // normal code with max_symbol
	KindSingleNormal = "single_normal" // normal code with exactly one non-zero length (zero-bit symbol); counted in addition to normal/normal_maxsym
	KindRepeat16     = "repeat16"      // code-length stream uses repeat-previous
	KindRepeat17     = "repeat17"      // ... short zero run
	KindRepeat18     = "repeat18"      // ... long zero run
	KindCLCSingle    = "clc_single"    // the code-length code itself has a single symbol (zero bits per code length)
	// KindSimple2Swapped is counted in addition to simple2/simple2_8bit when the two symbols are listed in descending order.
	KindSimple2Swapped = "simple2_swapped"
)

// AllCodeKinds lists every key the synthesizer can put in Features.CodeKinds.
var AllCodeKinds = []string{KindSimple1, KindSimple1_8, KindSimple2, KindSimple2_8, KindNormal, KindNormalMaxSym,
	KindSingleNormal, KindRepeat16, KindRepeat17, KindRepeat18, KindCLCSingle, KindSimple2Swapped}

// Synthesize returns a VP8L chunk payload (starting with the 0x2f signature byte) and its features.
func Synthesize(r *rand.Rand, p Params) ([]byte, Features) {
	ms := p.MaxSide
	if ms <= 0 {
		ms = 64
	}
	if ms > 16384 {
		ms = 16384
	}
	w, h := p.W, p.H
	if w <= 0 {
		w = randSide(r, ms)
	}
	if h <= 0 {
		h = randSide(r, ms)
	}
	if w > 16384 || h > 16384 {
		panic("vp8l: dimensions exceed 16384")
	}
	g := newGen(r, w, h)
	// Header: signature, 14 bits width-1, 14 bits height-1, alpha_is_used, 3 bits version (0).
	g.w.put(0x2f, 8)
	g.w.put(uint32(w-1), 14)
	g.w.put(uint32(h-1), 14)
	if p.ClearAlphaHint {
		g.w.put(0, 1)
	} else {
		g.w.put(1, 1)
	}
	g.w.put(0, 3)
	g.mainImage(w, h, p)
	return g.w.finish(), *g.f
}

// SynthesizeAlphaStream returns a *header-less* VP8L image stream as used inside ALPH chunks with compression method 1
// (i.e. no 0x2f signature and no 14-bit size/alpha/version header: it starts directly at the transform bits) for the given w,h.
func SynthesizeAlphaStream(r *rand.Rand, w, h int, p Params) ([]byte, Features) {
	if w < 1 || h < 1 || w > 16384 || h > 16384 {
		panic("vp8l: bad alpha plane dimensions")
	}
	g := newGen(r, w, h)
	g.mainImage(w, h, p)
	return g.w.finish(), *g.f
}

// WrapRIFF wraps a VP8L payload into a minimal RIFF/WEBP file ("RIFF" size "WEBP" "VP8L" size payload [pad]).
func WrapRIFF(payload []byte) []byte {
	n := len(payload)
	pad := n & 1
	out := make([]byte, 0, 20+n+pad)
	out = append(out, "RIFF"...)
	out = binary.LittleEndian.AppendUint32(out, uint32(4+8+n+pad))
	out = append(out, "WEBP"...)
	out = append(out, "VP8L"...)
	out = binary.LittleEndian.AppendUint32(out, uint32(n))
	out = append(out, payload...)
	if pad == 1 {
		out = append(out, 0)
	}
	return out
}

func randSide(r *rand.Rand, ms int) int {
	switch r.Intn(5) {
	case 0: // tiny images stress the edge cases (1xN, single tile, ...)
		return 1 + r.Intn(min(ms, 8))
	case 1:
		return ms - r.Intn(min(ms, 4))
	}
	return 1 + r.Intn(ms)
}

// ---------------------------------------------------------------------------
// bit writer: VP8L packs bits LSB first.

type bitWriter struct {
	buf []byte
	acc uint64
	n   uint
}

func (b *bitWriter) put(v uint32, n int) {
	if n == 0 {
		return
	}
	b.acc |= uint64(v&(1<<uint(n)-1)) << b.n
	b.n += uint(n)
	for b.n >= 8 {
		b.buf = append(b.buf, byte(b.acc))
		b.acc >>= 8
		b.n -= 8
	}
}

func (b *bitWriter) finish() []byte {
	if b.n > 0 {
		b.buf = append(b.buf, byte(b.acc))
		b.acc, b.n = 0, 0
	}
	return b.buf
}

// ---------------------------------------------------------------------------
// prefix codes

const (
	numLiteral  = 256
	numLength   = 24
	numDistance = 40
	maxCodeLen  = 15
)

// pcode is a canonical prefix code over an alphabet.
type pcode struct {
	n    int      // alphabet size
	lens []uint8  // code length per symbol (0 = unused)
	bits []uint16 // canonical code per symbol, bit-reversed (ready for the LSB-first writer)
	syms []int    // symbols with non-zero length, ascending
}

// newCode builds a canonical code from per-symbol lengths. The lengths must
// describe a complete code (Kraft sum 1) or have a single non-zero entry.
func newCode(lens []uint8) *pcode {
	c := &pcode{n: len(lens), lens: lens, bits: make([]uint16, len(lens))}
	var cnt [maxCodeLen + 2]int
	for s, l := range lens {
		if l > 0 {
			cnt[l]++
			c.syms = append(c.syms, s)
		}
	}
	// Canonical assignment: codes of the same length are consecutive in symbol
	// order, shorter codes numerically precede longer ones (same as DEFLATE).
	var next [maxCodeLen + 2]int
	code := 0
	for l := 1; l <= maxCodeLen; l++ {
		code = (code + cnt[l-1]) << 1
		next[l] = code
	}
	for _, s := range c.syms {
		l := int(lens[s])
		v := next[l]
		next[l]++
		// The decoder consumes the code most-significant bit first, one bit at
		// a time from an LSB-first stream, hence the reversal.
		rev := 0
		for i := 0; i < l; i++ {
			rev = rev<<1 | (v>>uint(i))&1
		}
		c.bits[s] = uint16(rev)
	}
	return c
}

// emit writes the code word of sym. A code with a single symbol has zero-length
// code words whatever the declared length.
func (c *pcode) emit(w *bitWriter, sym int) {
	if len(c.syms) == 1 {
		if c.syms[0] != sym {
			panic("vp8l: symbol not in single-symbol code")
		}
		return
	}
	l := c.lens[sym]
	if l == 0 {
		panic(fmt.Sprintf("vp8l: symbol %d has no code", sym))
	}
	w.put(uint32(c.bits[sym]), int(l))
}

// ---------------------------------------------------------------------------
// generator state

type gen struct {
	r          *rand.Rand
	w          bitWriter
	f          *Features
	scratch    []int
	swapSimple bool // this stream may list the two symbols of a simple code in descending order
}

func newGen(r *rand.Rand, w, h int) *gen {
	return &gen{r: r, swapSimple: r.Intn(10) == 0, f: &Features{
		W: w, H: h,
		PredModes:    map[int]int{},
		SubCacheBits: map[int]int{},
		CodeKinds:    map[string]int{},
		PlaneCodes:   map[int]int{},
	}}
}

func (g *gen) chance(p float64) bool { return g.r.Float64() < p }

// subset returns k distinct random elements of pool (k is clamped to [1,len(pool)]).
func (g *gen) subset(pool []int, k int) []int {
	n := len(pool)
	if k > n {
		k = n
	}
	if k < 1 {
		k = 1
	}
	if cap(g.scratch) < n {
		g.scratch = make([]int, n)
	}
	s := g.scratch[:n]
	copy(s, pool)
	for i := 0; i < k; i++ {
		j := i + g.r.Intn(n-i)
		s[i], s[j] = s[j], s[i]
	}
	out := make([]int, k)
	copy(out, s[:k])
	return out
}

// pickCount draws a subset size for a pool of n symbols; sizes 1 and 2 are
// frequent on purpose (they give zero-bit and simple codes).
func (g *gen) pickCount(n int) int {
	u := g.r.Float64()
	var k int
	switch {
	case u < 0.14:
		k = 1
	case u < 0.28:
		k = 2
	case u < 0.52:
		k = 1 + g.r.Intn(8)
	case u < 0.78:
		k = 1 + g.r.Intn(40)
	case u < 0.93:
		k = 1 + g.r.Intn(n)
	default:
		k = n
	}
	return min(k, n)
}

var rangeCache [2329][]int

func init() {
	all := make([]int, 2328)
	for i := range all {
		all[i] = i
	}
	for n := range rangeCache {
		rangeCache[n] = all[:n:n]
	}
}

// seq returns the read-only slice 0..n-1.
func seq(n int) []int { return rangeCache[n] }

// randLengths returns k >= 2 code lengths forming a complete prefix code with
// maximal length <= maxLen. It grows a random binary tree by repeatedly
// splitting a leaf; three splitting policies give balanced, mixed and very
// skewed (deep) trees.
func (g *gen) randLengths(k, maxLen int) []uint8 {
	var cnt [maxCodeLen + 1]int
	cnt[0] = 1
	policy := g.r.Intn(4)
	pDeep := g.r.Float64()
	for leaves := 1; leaves < k; leaves++ {
		d := -1
		mode := policy
		if policy == 3 { // mixed
			if g.r.Float64() < pDeep {
				mode = 1
			} else {
				mode = 0
			}
		}
		switch mode {
		case 0: // uniformly random leaf
			tot := 0
			for i := 0; i < maxLen; i++ {
				tot += cnt[i]
			}
			x := g.r.Intn(tot)
			for i := 0; i < maxLen; i++ {
				if x < cnt[i] {
					d = i
					break
				}
				x -= cnt[i]
			}
		case 1: // deepest splittable leaf
			for i := maxLen - 1; i >= 0; i-- {
				if cnt[i] > 0 {
					d = i
					break
				}
			}
		default: // random depth among the populated ones
			var ds [maxCodeLen]int
			nd := 0
			for i := 0; i < maxLen; i++ {
				if cnt[i] > 0 {
					ds[nd] = i
					nd++
				}
			}
			d = ds[g.r.Intn(nd)]
		}
		cnt[d]--
		cnt[d+1] += 2
	}
	out := make([]uint8, 0, k)
	for l := 1; l <= maxLen; l++ {
		for i := 0; i < cnt[l]; i++ {
			out = append(out, uint8(l))
		}
	}
	g.r.Shuffle(len(out), func(i, j int) { out[i], out[j] = out[j], out[i] })
	return out
}

// buildCode makes a code over alphabet size n whose used symbols are exactly set.
func (g *gen) buildCode(n int, set []int, lenLimit int) *pcode {
	lens := make([]uint8, n)
	if len(set) == 1 {
		lens[set[0]] = 1
		return newCode(lens)
	}
	minLen := 1
	for 1<<uint(minLen) < len(set) {
		minLen++
	}
	maxLen := lenLimit
	if !g.chance(0.3) {
		maxLen = minLen + g.r.Intn(lenLimit-minLen+1)
	}
	ls := g.randLengths(len(set), maxLen)
	for i, s := range set {
		lens[s] = ls[i]
		if int(ls[i]) > g.f.MaxCodeLen && lenLimit == maxCodeLen {
			g.f.MaxCodeLen = int(ls[i])
		}
	}
	return newCode(lens)
}

// ---------------------------------------------------------------------------
// writing prefix codes

// Order in which the code lengths of the code-length code are stored.
var codeLengthCodeOrder = [19]int{17, 18, 0, 1, 2, 3, 4, 5, 16, 6, 7, 8, 9, 10, 11, 12, 13, 14, 15}

// writeCode writes c in one of the shapes that can represent it.
func (g *gen) writeCode(c *pcode) {
	s := c.syms
	switch {
	case len(s) == 1 && s[0] < 256 && g.chance(0.6):
		g.writeSimple(s)
	case len(s) == 2 && s[1] < 256 && g.chance(0.7):
		g.writeSimple(s)
	default:
		g.writeNormal(c)
	}
}

// writeSimple: 1 | num_symbols-1 | is_first_8bits | symbol0 (1 or 8 bits) [| symbol1 (8 bits)].
// With two symbols, both get length 1 and the canonical assignment gives the
// numerically smaller symbol the code 0 regardless of the order they are
// listed in.
func (g *gen) writeSimple(s []int) {
	a := s[0]
	b := -1
	if len(s) == 2 {
		b = s[1]
		if a > b {
			a, b = b, a
		}
		// Listing the larger symbol first is legal and means the same code,
		// but no known encoder does it (and x/image assigns code 0 to the
		// first-listed symbol, so it mis-decodes such streams): only one
		// stream in ten does it at all, and it is flagged in the features.
		if g.swapSimple && g.chance(0.5) {
			a, b = b, a
			g.f.CodeKinds[KindSimple2Swapped]++
		}
	}
	g.w.put(1, 1)
	g.w.put(uint32(len(s)-1), 1)
	wide := a > 1 || g.chance(0.3)
	if wide {
		g.w.put(1, 1)
		g.w.put(uint32(a), 8)
	} else {
		g.w.put(0, 1)
		g.w.put(uint32(a), 1)
	}
	if b >= 0 {
		g.w.put(uint32(b), 8)
	}
	switch {
	case b < 0 && !wide:
		g.f.CodeKinds[KindSimple1]++
	case b < 0:
		g.f.CodeKinds[KindSimple1_8]++
	case !wide:
		g.f.CodeKinds[KindSimple2]++
	default:
		g.f.CodeKinds[KindSimple2_8]++
	}
}

type clToken struct {
	tok   uint8 // 0..15 literal length, 16 repeat previous non-zero, 17/18 zero runs
	extra uint8
}

// tokenize turns lens[:n] into code-length tokens, using the repeat codes with
// probability pRep wherever they apply.
func (g *gen) tokenize(lens []uint8, pRep float64) []clToken {
	var out []clToken
	prev := uint8(8) // "if code 16 is used before a non-zero value has been emitted, a value of 8 is repeated"
	n := len(lens)
	for i := 0; i < n; {
		v := lens[i]
		run := 1
		for i+run < n && lens[i+run] == v {
			run++
		}
		if v == 0 {
			if run >= 3 && g.chance(pRep) {
				if run >= 11 && g.chance(0.8) {
					k := 11 + g.r.Intn(min(run, 138)-10)
					if g.chance(0.5) {
						k = min(run, 138)
					}
					out = append(out, clToken{18, uint8(k - 11)})
					i += k
				} else {
					k := 3 + g.r.Intn(min(run, 10)-2)
					if g.chance(0.5) {
						k = min(run, 10)
					}
					out = append(out, clToken{17, uint8(k - 3)})
					i += k
				}
				continue
			}
			out = append(out, clToken{0, 0})
			i++
			continue
		}
		if v == prev && run >= 3 && g.chance(pRep) {
			k := 3 + g.r.Intn(min(run, 6)-2)
			out = append(out, clToken{16, uint8(k - 3)})
			i += k
			continue
		}
		out = append(out, clToken{v, 0})
		prev = v
		i++
	}
	return out
}

var repeatExtraBits = [3]int{2, 3, 7}

// writeNormal writes a normal (code-length coded) prefix code.
func (g *gen) writeNormal(c *pcode) {
	g.w.put(0, 1)
	lens := c.lens
	useMax := g.chance(0.4)
	n := len(lens)
	if useMax {
		// Only the first max_symbol *tokens* are read; everything after is zero.
		last := c.syms[len(c.syms)-1]
		n = last + 1
		if g.chance(0.3) { // keep a few of the trailing zeros
			n = min(len(lens), n+g.r.Intn(6))
		}
	}
	pRep := [4]float64{0, 0.5, 0.9, 1}[g.r.Intn(4)]
	if len(lens) > 300 && pRep == 0 {
		pRep = 0.9 // keep huge colour-cache alphabets cheap
	}
	toks := g.tokenize(lens[:n], pRep)
	if useMax {
		// max_symbol is stored as max_symbol-2, so at least two tokens are needed.
		covered := n
		for len(toks) < 2 && covered < len(lens) {
			toks = append(toks, clToken{0, 0})
			covered++
		}
		if len(toks) < 2 {
			useMax = false
			toks = g.tokenize(lens, pRep)
		}
	}
	// Code-length code: a complete code (max length 7) over the token kinds in
	// use, now and then with a few unused kinds thrown in.
	var used [19]bool
	for _, t := range toks {
		used[t.tok] = true
	}
	if g.chance(0.25) {
		for i := g.r.Intn(4); i >= 0; i-- {
			used[g.r.Intn(19)] = true
		}
	}
	var set []int
	for i, u := range used {
		if u {
			set = append(set, i)
		}
	}
	clc := g.buildCode(19, set, 7)
	if len(set) == 1 {
		g.f.CodeKinds[KindCLCSingle]++
	}
	numCodes := 4
	for i, s := range codeLengthCodeOrder {
		if clc.lens[s] != 0 {
			numCodes = max(numCodes, i+1)
		}
	}
	if g.chance(0.3) {
		numCodes += g.r.Intn(19 - numCodes + 1)
	}
	g.w.put(uint32(numCodes-4), 4)
	for i := 0; i < numCodes; i++ {
		g.w.put(uint32(clc.lens[codeLengthCodeOrder[i]]), 3)
	}
	if useMax {
		// 1 | (length_nbits-2)/2 in 3 bits | max_symbol-2 in length_nbits bits
		v := len(toks) - 2
		k := 0
		for v >= 1<<uint(2+2*k) {
			k++
		}
		if g.chance(0.3) {
			k += g.r.Intn(8 - k)
		}
		g.w.put(1, 1)
		g.w.put(uint32(k), 3)
		g.w.put(uint32(v), 2+2*k)
		g.f.CodeKinds[KindNormalMaxSym]++
	} else {
		g.w.put(0, 1)
		g.f.CodeKinds[KindNormal]++
	}
	if len(c.syms) == 1 {
		g.f.CodeKinds[KindSingleNormal]++
	}
	var rep [3]bool
	for _, t := range toks {
		clc.emit(&g.w, int(t.tok))
		if t.tok >= 16 {
			g.w.put(uint32(t.extra), repeatExtraBits[t.tok-16])
			rep[t.tok-16] = true
		}
	}
	for i, k := range [3]string{KindRepeat16, KindRepeat17, KindRepeat18} {
		if rep[i] {
			g.f.CodeKinds[k]++
		}
	}
}

// ---------------------------------------------------------------------------
// prefix-code groups

// image contexts constrain which literal values make sense
const (
	ctxMain = iota
	ctxPredictor
	ctxCross
	ctxPalette
	ctxMeta
)

// group is one set of five prefix codes plus the split of the green alphabet.
type group struct {
	c     [5]*pcode // green(+length+cache), red, blue, alpha, distance
	lit   []int     // green literal values with a code
	lens  []int     // length prefix symbols (0..23) with a code
	cache []int     // colour-cache indices with a code
}

// newGroup draws the symbol sets first and then builds complete codes over them.
// greenPool/redPool restrict the literal values (nil = 0..255). The green code
// of a group that can be referenced always has at least one literal or cache
// symbol so that a pixel can be emitted at any position.
func (g *gen) newGroup(cb int, greenPool, redPool []int) *group {
	if greenPool == nil {
		greenPool = seq(256)
	}
	if redPool == nil {
		redPool = seq(256)
	}
	gr := &group{}
	trivial := g.chance(0.04) // all of A,R,G,B single-symbol: a pixel costs zero bits
	// all five codes single-symbol with a *colour-cache index* as the lone green symbol: every pixel
	// of the group is a zero-bit cache lookup (decoders have a "trivial literal" fast path that must
	// not fire here, since the lone green symbol is not a literal)
	trivialCache := cb > 0 && !trivial && g.chance(0.06)
	style := g.r.Intn(10)
	var lit, lens, cache []int
	hasCache := cb > 0 && style >= 5
	switch {
	case trivialCache:
		cache = g.subset(seq(1<<uint(cb)), 1)
		hasCache = false
		trivial = true
		g.f.TrivialCacheGroups++
	case trivial:
		lit = g.subset(greenPool, 1)
		hasCache = false
	case hasCache && style == 9: // no literal at all
		if g.chance(0.5) {
			lens = g.subset(seq(numLength), g.pickCount(numLength))
		}
	default:
		lit = g.subset(greenPool, g.pickCount(len(greenPool)))
		if style%5 != 0 {
			lens = g.subset(seq(numLength), g.pickCount(numLength))
			if g.chance(0.5) { // make sure short copies are possible
				lens = addUnique(lens, g.r.Intn(4))
			}
		}
	}
	if hasCache {
		cache = g.subset(seq(1<<uint(cb)), g.pickCount(1<<uint(cb)))
	}
	gr.lit, gr.lens, gr.cache = lit, lens, cache
	set := make([]int, 0, len(lit)+len(lens)+len(cache))
	set = append(set, lit...)
	for _, s := range lens {
		set = append(set, numLiteral+s)
	}
	for _, s := range cache {
		set = append(set, numLiteral+numLength+s)
	}
	na := numLiteral + numLength
	if cb > 0 {
		na += 1 << uint(cb)
	}
	gr.c[0] = g.buildCode(na, set, maxCodeLen)
	pools := [3][]int{redPool, seq(256), seq(256)}
	for i := 0; i < 3; i++ {
		k := g.pickCount(len(pools[i]))
		if trivial {
			k = 1
		}
		gr.c[1+i] = g.buildCode(numLiteral, g.subset(pools[i], k), maxCodeLen)
	}
	// Distance prefix symbols: mostly the small ones (plane codes and short
	// distances), sometimes anything up to 39 (mostly unusable in small images,
	// which is fine: they only need to have a code).
	dpool := seq(numDistance)
	if g.chance(0.7) {
		dpool = seq(14 + g.r.Intn(8))
	}
	nd := g.pickCount(len(dpool))
	if trivialCache {
		nd = 1
	}
	gr.c[4] = g.buildCode(numDistance, g.subset(dpool, nd), maxCodeLen)
	return gr
}

func addUnique(s []int, v int) []int {
	for _, x := range s {
		if x == v {
			return s
		}
	}
	return append(s, v)
}

func (g *gen) writeGroup(gr *group) {
	for _, c := range gr.c {
		g.writeCode(c)
	}
}

// writeUnusedGroup writes five valid codes for a group index that no tile
// references. They still have to be valid; most are minimal simple codes.
func (g *gen) writeUnusedGroup(cb int) {
	if g.chance(0.03) {
		g.writeGroup(g.newGroup(cb, nil, nil))
		return
	}
	for j := 0; j < 5; j++ {
		n := 256
		if j == 4 {
			n = numDistance
		}
		if g.chance(0.2) {
			a := g.r.Intn(n)
			if g.chance(0.5) {
				g.writeSimple([]int{a})
			} else {
				g.writeSimple([]int{a, (a + 1 + g.r.Intn(n-1)) % n}) // two distinct symbols
			}
			continue
		}
		g.writeSimple([]int{g.r.Intn(2)})
	}
}

// ---------------------------------------------------------------------------
// pixel token stream

// prefixRange returns the value range [lo,hi] and the number of extra bits of
// a length/distance prefix symbol.
func prefixRange(s int) (lo, hi, nb int) {
	if s < 4 {
		return s + 1, s + 1, 0
	}
	nb = (s - 2) >> 1
	off := (2 + s&1) << uint(nb)
	return off + 1, off + 1<<uint(nb), nb
}

// planeOffsets lists the (dx, dy) neighbourhood of distance codes 1..120.
// Stored as yoffset<<4 | (8 - xoffset), the usual compact form of the
// specification's table.
var planeCode = [120]uint8{
	0x18, 0x07, 0x17, 0x19, 0x28, 0x06, 0x27, 0x29, 0x16, 0x1a,
	0x26, 0x2a, 0x38, 0x05, 0x37, 0x39, 0x15, 0x1b, 0x36, 0x3a,
	0x25, 0x2b, 0x48, 0x04, 0x47, 0x49, 0x14, 0x1c, 0x35, 0x3b,
	0x46, 0x4a, 0x24, 0x2c, 0x58, 0x45, 0x4b, 0x34, 0x3c, 0x03,
	0x57, 0x59, 0x13, 0x1d, 0x56, 0x5a, 0x23, 0x2d, 0x44, 0x4c,
	0x55, 0x5b, 0x33, 0x3d, 0x68, 0x02, 0x67, 0x69, 0x12, 0x1e,
	0x66, 0x6a, 0x22, 0x2e, 0x54, 0x5c, 0x43, 0x4d, 0x65, 0x6b,
	0x32, 0x3e, 0x78, 0x01, 0x77, 0x79, 0x53, 0x5d, 0x11, 0x1f,
	0x64, 0x6c, 0x42, 0x4e, 0x76, 0x7a, 0x21, 0x2f, 0x75, 0x7b,
	0x31, 0x3f, 0x63, 0x6d, 0x52, 0x5e, 0x00, 0x74, 0x7c, 0x41,
	0x4f, 0x10, 0x20, 0x62, 0x6e, 0x30, 0x73, 0x7d, 0x51, 0x5f,
	0x40, 0x72, 0x7e, 0x61, 0x6f, 0x50, 0x71, 0x7f, 0x60, 0x70,
}

// codeToDistance maps a distance code (>=1) to a pixel distance for an image
// of width w: codes 1..120 address a 2-D neighbourhood, larger codes are the
// linear distance plus 120. Mapped distances below 1 are clamped to 1.
func codeToDistance(w, code int) int {
	if code > 120 {
		return code - 120
	}
	pc := int(planeCode[code-1])
	d := (pc>>4)*w + 8 - pc&0xf
	if d < 1 {
		return 1
	}
	return d
}

const cacheHashMul = 0x1e35a7bd

// pixelStream writes the entropy-coded pixels of a w x h image. tiles (one
// *group per tile of 2^tileBits pixels square; tileBits 0 means a single group
// tiles[0]) says which group codes which pixel. The group is looked up for
// every token: decoders do so at least whenever the tile can have changed.
//
// With track set, the decoded ARGB values are returned (entropy image only,
// see the package comment).
func (g *gen) pixelStream(w, h, cb, ctx int, tiles []*group, tileBits int, track bool) []uint32 {
	total := w * h
	var pix, cache []uint32
	if track {
		pix = make([]uint32, total)
		if cb > 0 {
			cache = make([]uint32, 1<<uint(cb))
		}
	}
	tw := 0
	if tileBits > 0 {
		tw = (w + 1<<uint(tileBits) - 1) >> uint(tileBits)
	}
	pBack := [5]float64{0, 0.05, 0.2, 0.4, 0.7}[g.r.Intn(5)]
	pCache := [4]float64{0.05, 0.3, 0.6, 0.9}[g.r.Intn(4)]
	lenCap := [5]int{4, 16, 128, 4096, 4096}[g.r.Intn(5)]
	cached := 0 // tracked mode: pixels [0,cached) are in the cache
	f := g.f
	for pos := 0; pos < total; {
		gr := tiles[0]
		if tileBits > 0 {
			x, y := pos%w, pos/w
			gr = tiles[(y>>uint(tileBits))*tw+x>>uint(tileBits)]
		}
		if len(gr.lens) > 0 && pos > 0 && g.chance(pBack) {
			if n, d := g.backRef(gr, w, pos, total-pos, lenCap); n > 0 {
				if track {
					for i := 0; i < n; i++ {
						pix[pos+i] = pix[pos+i-d]
					}
				}
				pos += n
				continue
			}
		}
		if len(gr.cache) > 0 && (len(gr.lit) == 0 || g.chance(pCache)) {
			idx := gr.cache[g.r.Intn(len(gr.cache))]
			gr.c[0].emit(&g.w, numLiteral+numLength+idx)
			f.CacheHits++
			if track {
				for ; cached < pos; cached++ {
					cache[(pix[cached]*cacheHashMul)>>uint(32-cb)] = pix[cached]
				}
				pix[pos] = cache[idx]
			}
			pos++
			continue
		}
		// literal: green, red, blue, alpha
		gv := gr.lit[g.r.Intn(len(gr.lit))]
		rv := gr.c[1].syms[g.r.Intn(len(gr.c[1].syms))]
		bv := gr.c[2].syms[g.r.Intn(len(gr.c[2].syms))]
		av := gr.c[3].syms[g.r.Intn(len(gr.c[3].syms))]
		gr.c[0].emit(&g.w, gv)
		gr.c[1].emit(&g.w, rv)
		gr.c[2].emit(&g.w, bv)
		gr.c[3].emit(&g.w, av)
		f.Literals++
		if ctx == ctxPredictor {
			f.PredModes[gv&15]++
		}
		if track {
			pix[pos] = uint32(av)<<24 | uint32(rv)<<16 | uint32(gv)<<8 | uint32(bv)
		}
		pos++
	}
	return pix
}

// backRef tries to emit a backward reference at position pos (pixels already
// produced) with rem pixels left. It returns the length and distance, or 0 if
// the group's symbols allow no in-range reference here.
func (g *gen) backRef(gr *group, w, pos, rem, lenCap int) (int, int) {
	// length: any prefix symbol whose smallest value still fits
	limit := min(rem, lenCap)
	nf := 0
	for _, s := range gr.lens {
		if lo, _, _ := prefixRange(s); lo <= limit {
			nf++
		}
	}
	if nf == 0 {
		return 0, 0
	}
	k := g.r.Intn(nf)
	ls := -1
	for _, s := range gr.lens {
		if lo, _, _ := prefixRange(s); lo <= limit {
			if k == 0 {
				ls = s
				break
			}
			k--
		}
	}
	llo, lhi, lnb := prefixRange(ls)
	lhi = min(lhi, limit)
	length := llo + g.r.Intn(lhi-llo+1)
	if g.chance(0.2) {
		length = lhi
	}
	// distance: rejection sampling over the group's distance symbols
	dsyms := gr.c[4].syms
	for try := 0; try < 8; try++ {
		ds := dsyms[g.r.Intn(len(dsyms))]
		dlo, dhi, dnb := prefixRange(ds)
		if dlo > 120 {
			if dlo-120 > pos {
				continue
			}
			dhi = min(dhi, pos+120)
		}
		code := dlo + g.r.Intn(dhi-dlo+1)
		d := codeToDistance(w, code)
		if d > pos {
			continue
		}
		gr.c[0].emit(&g.w, numLiteral+ls)
		g.w.put(uint32(length-llo), lnb)
		gr.c[4].emit(&g.w, ds)
		g.w.put(uint32(code-dlo), dnb)
		f := g.f
		f.BackRefs++
		if code <= 120 {
			f.PlaneCodes[code]++
		} else {
			f.PlaneCodes[0]++
		}
		if length > f.MaxLen {
			f.MaxLen = length
		}
		if d < length {
			f.Overlaps++
		}
		return length, d
	}
	return 0, 0
}

// ---------------------------------------------------------------------------
// image streams

func (g *gen) writeCacheBits(cb int) {
	if cb == 0 {
		g.w.put(0, 1)
		return
	}
	g.w.put(1, 1)
	g.w.put(uint32(cb), 4)
}

// subImage writes an entropy-coded sub-image (transform data or entropy
// image): optional colour cache, no meta prefix image, a single group.
func (g *gen) subImage(w, h, ctx int, greenPool, redPool []int, track bool) []uint32 {
	cb := 0
	if g.chance(0.5) {
		cb = 1 + g.r.Intn(11)
	}
	g.f.SubCacheBits[cb]++
	g.writeCacheBits(cb)
	gr := g.newGroup(cb, greenPool, redPool)
	g.writeGroup(gr)
	return g.pixelStream(w, h, cb, ctx, []*group{gr}, 0, track)
}

func subSample(v, bits int) int { return (v + 1<<uint(bits) - 1) >> uint(bits) }

func (g *gen) tileBits() int {
	if g.chance(0.6) {
		return 2 + g.r.Intn(3)
	}
	return 2 + g.r.Intn(8)
}

// predictorGreens: the predictor mode of a tile is the low nibble of green;
// 14 and 15 are not proper modes and are kept out.
var predictorGreens = func() []int {
	var s []int
	for v := 0; v < 256; v++ {
		if v&15 <= 13 {
			s = append(s, v)
		}
	}
	return s
}()

// mainImage writes the level-0 image stream: transforms, colour cache, meta
// prefix image, groups, pixels.
func (g *gen) mainImage(w, h int, p Params) {
	f := g.f
	r := g.r
	// --- transforms
	var order []int
	if p.Transforms != nil {
		seen := [4]bool{}
		for _, t := range p.Transforms {
			if t < 0 || t > 3 || seen[t] {
				panic("vp8l: Params.Transforms must list each of 0..3 at most once")
			}
			seen[t] = true
			order = append(order, t)
		}
	} else {
		order = r.Perm(4)[:r.Intn(5)]
	}
	curW := w // width of the image the next transform (and finally the pixel data) is coded at
	var greenPool []int
	for _, t := range order {
		g.w.put(1, 1)
		g.w.put(uint32(t), 2)
		f.TransformIDs = append(f.TransformIDs, t)
		switch t {
		case 0, 1:
			bits := g.tileBits()
			g.w.put(uint32(bits-2), 3)
			// Sub-image sizes derive from the *current* width, which is the
			// packed width once a colour-indexing transform has been read.
			sw, sh := subSample(curW, bits), subSample(h, bits)
			if t == 0 {
				f.Transforms = append(f.Transforms, fmt.Sprintf("predictor/bits=%d", bits))
				g.subImage(sw, sh, ctxPredictor, predictorGreens, nil, false)
			} else {
				f.Transforms = append(f.Transforms, fmt.Sprintf("cross/bits=%d", bits))
				g.subImage(sw, sh, ctxCross, nil, nil, false)
			}
		case 2:
			f.Transforms = append(f.Transforms, "subgreen")
		case 3:
			n := p.PaletteSize
			if n <= 0 || n > 256 {
				switch r.Intn(4) {
				case 0:
					n = 1 + r.Intn(2)
				case 1:
					n = 3 + r.Intn(2)
				case 2:
					n = 5 + r.Intn(12)
				default:
					n = 17 + r.Intn(240)
				}
			}
			g.w.put(uint32(n-1), 8)
			// <=2 colours: 8 pixels per word, <=4: 4, <=16: 2, else 1
			shift, pb := 0, 8
			switch {
			case n <= 2:
				shift, pb = 3, 1
			case n <= 4:
				shift, pb = 2, 2
			case n <= 16:
				shift, pb = 1, 4
			}
			f.PackBits = pb
			f.Transforms = append(f.Transforms, fmt.Sprintf("palette/n=%d/packbits=%d", n, pb))
			// the colour table is an n x 1 image (delta-coded by definition)
			g.subImage(n, 1, ctxPalette, nil, nil, false)
			curW = subSample(curW, shift)
			// Green of the main image carries 8/pb indices of pb bits each; keep
			// them below n mostly, let a few escape now and then.
			greenPool = greenPool[:0]
			for v := 0; v < 256; v++ {
				ok := true
				for s := 0; s < 8; s += pb {
					if (v>>uint(s))&(1<<uint(pb)-1) >= n {
						ok = false
					}
				}
				if ok {
					greenPool = append(greenPool, v)
				}
			}
			if len(greenPool) < 256 && g.chance(0.3) {
				for i := 1 + r.Intn(3); i > 0; i-- {
					greenPool = addUnique(greenPool, r.Intn(256))
				}
			}
		}
	}
	g.w.put(0, 1)

	// --- colour cache
	cb := p.CacheBits
	if cb < 0 || cb > 11 {
		cb = 0
		if g.chance(0.65) {
			cb = 1 + r.Intn(11)
		}
	}
	f.CacheBits = cb
	g.writeCacheBits(cb)

	// --- meta prefix image
	mb := p.MetaBits
	if mb < 0 || mb == 1 || mb > 9 {
		mb = 0
		if g.chance(0.6) {
			mb = g.tileBits()
		}
	}
	f.MetaBits = mb
	if mb == 0 {
		g.w.put(0, 1)
		gr := g.newGroup(cb, greenPool, nil)
		g.writeGroup(gr)
		f.Groups, f.GroupsUsed = 1, 1
		g.pixelStream(curW, h, cb, ctxMain, []*group{gr}, 0, false)
		return
	}
	g.w.put(1, 1)
	g.w.put(uint32(mb-2), 3)
	maxGroups := p.MaxGroups
	if maxGroups <= 0 {
		maxGroups = 12
	}
	// A tile's group index is red<<8 | green of the entropy image. Choosing
	// the red and green literal sets bounds the reachable indices; index 0 is
	// reachable too (a colour-cache slot that was never filled reads as 0).
	var reds, greens []int
	switch u := r.Float64(); {
	case u < 0.10 && maxGroups >= 2: // sparse, below 256
		greens = g.subset(seq(256), 1+r.Intn(min(3, maxGroups-1)))
		reds = []int{0}
	case u < 0.17 && maxGroups >= 2: // sparse and large: indices up to ~3000
		reds = []int{1 + r.Intn(11)}
		if maxGroups >= 5 && g.chance(0.5) {
			reds = append(reds, 0)
		}
		greens = g.subset(seq(256), 1+r.Intn(max(1, min(3, (maxGroups-1)/len(reds)))))
	default:
		n := 1 + r.Intn(maxGroups)
		greens = seq(n)
		if g.chance(0.3) {
			greens = g.subset(greens, 1+r.Intn(n))
		}
		reds = []int{0}
	}
	tw, th := subSample(curW, mb), subSample(h, mb)
	epix := g.subImage(tw, th, ctxMeta, greens, reds, true)
	maxIdx := 0
	for _, v := range epix {
		maxIdx = max(maxIdx, int(v>>8)&0xffff)
	}
	// Every index up to the largest referenced one needs its five codes.
	byIdx := map[int]*group{}
	tiles := make([]*group, len(epix))
	for i, v := range epix {
		idx := int(v>>8) & 0xffff
		gr := byIdx[idx]
		if gr == nil {
			gr = g.newGroup(cb, greenPool, nil)
			byIdx[idx] = gr
		}
		tiles[i] = gr
	}
	for i := 0; i <= maxIdx; i++ {
		if gr := byIdx[i]; gr != nil {
			g.writeGroup(gr)
		} else {
			g.writeUnusedGroup(cb)
		}
	}
	f.Groups, f.GroupsUsed = maxIdx+1, len(byIdx)
	g.pixelStream(curW, h, cb, ctxMain, tiles, mb, false)
}
