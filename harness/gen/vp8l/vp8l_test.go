package vp8l

import (
	"bytes"
	"encoding/binary"
	"fmt"
	"image"
	"math/rand"
	"sort"
	"strings"
	"testing"
	"time"

	"github.com/deepteams/webp"

	"verif/lw"
	"verif/ximage"
)

const nSeeds = 5000

// coverage accumulates Features over many draws.
type coverage struct {
	orders     map[string]int // transform sequence -> count
	predModes  map[int]int
	packBits   map[int]int
	cacheBits  map[int]int
	subCache   map[int]int
	metaBits   map[int]int
	kinds      map[string]int
	planeCodes map[int]int
	maxLen     int
	maxCodeLen int
	maxGroups  int
	sparse     int // streams with more groups written than referenced
	overlaps   int
	lits, hits int
	refs       int
}

func newCoverage() *coverage {
	return &coverage{orders: map[string]int{}, predModes: map[int]int{}, packBits: map[int]int{}, cacheBits: map[int]int{},
		subCache: map[int]int{}, metaBits: map[int]int{}, kinds: map[string]int{}, planeCodes: map[int]int{}}
}

func (c *coverage) add(f Features) {
	c.orders[fmt.Sprint(f.TransformIDs)]++
	for k, v := range f.PredModes {
		c.predModes[k] += v
	}
	if f.PackBits != 0 {
		c.packBits[f.PackBits]++
	}
	c.cacheBits[f.CacheBits]++
	for k, v := range f.SubCacheBits {
		c.subCache[k] += v
	}
	c.metaBits[f.MetaBits]++
	for k, v := range f.CodeKinds {
		c.kinds[k] += v
	}
	for k, v := range f.PlaneCodes {
		c.planeCodes[k] += v
	}
	c.maxLen = max(c.maxLen, f.MaxLen)
	c.maxCodeLen = max(c.maxCodeLen, f.MaxCodeLen)
	c.maxGroups = max(c.maxGroups, f.Groups)
	if f.Groups > f.GroupsUsed {
		c.sparse++
	}
	c.overlaps += f.Overlaps
	c.lits += f.Literals
	c.hits += f.CacheHits
	c.refs += f.BackRefs
}

func nrgbaPix(m image.Image) []byte {
	switch v := m.(type) {
	case *image.NRGBA:
		if v.Stride == 4*v.Rect.Dx() {
			return v.Pix
		}
		out := make([]byte, 0, 4*v.Rect.Dx()*v.Rect.Dy())
		for y := 0; y < v.Rect.Dy(); y++ {
			out = append(out, v.Pix[y*v.Stride:y*v.Stride+4*v.Rect.Dx()]...)
		}
		return out
	}
	return nil
}

func safeRepoDecode(file []byte) (m image.Image, err error) {
	defer func() {
		if r := recover(); r != nil {
			err = fmt.Errorf("panic: %v", r)
		}
	}()
	return webp.Decode(bytes.NewReader(file))
}

// Acceptance 1 + 2: libwebp accepts (nearly) every stream, and the draws cover the format.
func TestLibwebpAcceptsAndCoverage(t *testing.T) {
	cov := newCoverage()
	fail := 0
	var xiOK, xiRej, xiDiff, xiUnexplained, repoOK, repoRej, repoDiff int
	var xiDiffEx, repoDiffEx, repoRejEx []string
	var genTime time.Duration
	for seed := int64(0); seed < nSeeds; seed++ {
		t0 := time.Now()
		payload, f := Synthesize(rand.New(rand.NewSource(seed)), DefaultParams())
		genTime += time.Since(t0)
		cov.add(f)
		file := WrapRIFF(payload)
		pix, w, h, err := lw.DecodeRGBA(file)
		if err != nil || w != f.W || h != f.H {
			fail++
			if fail <= 10 {
				t.Logf("seed %d rejected by libwebp: err=%v got %dx%d want %dx%d tr=%v cache=%d meta=%d groups=%d", seed, err, w, h, f.W, f.H, f.Transforms, f.CacheBits, f.MetaBits, f.Groups)
			}
			continue
		}
		desc := func() string {
			return fmt.Sprintf("seed=%d %dx%d tr=%v cache=%d meta=%d", seed, f.W, f.H, f.Transforms, f.CacheBits, f.MetaBits)
		}
		xiBad := true
		if m, err := ximage.DecodeVP8L(payload); err != nil {
			xiRej++
		} else if p := nrgbaPix(m); p != nil && bytes.Equal(p, pix) {
			xiOK++
			xiBad = false
		} else {
			xiDiff++
		}
		// x/image gives code 0 to the first-listed symbol of a two-symbol simple code
		// instead of the smaller one; anything else it gets wrong is worth a look.
		if xiBad && f.CodeKinds[KindSimple2Swapped] == 0 {
			xiUnexplained++
			if len(xiDiffEx) < 5 {
				xiDiffEx = append(xiDiffEx, desc())
			}
		}
		if m, err := safeRepoDecode(file); err != nil {
			repoRej++
			if len(repoRejEx) < 5 {
				repoRejEx = append(repoRejEx, desc()+": "+err.Error())
			}
		} else if p := nrgbaPix(m); p != nil && bytes.Equal(p, pix) {
			repoOK++
		} else {
			repoDiff++
			if len(repoDiffEx) < 8 {
				repoDiffEx = append(repoDiffEx, desc())
			}
		}
	}
	t.Logf("libwebp rejected %d of %d streams", fail, nSeeds)
	t.Logf("x/image vs libwebp: agree=%d reject=%d pixel-diff=%d; of those %d are in streams without a descending-order simple code %v", xiOK, xiRej, xiDiff, xiUnexplained, xiDiffEx)
	t.Logf("deepteams/webp vs libwebp: agree=%d reject=%d pixel-diff=%d", repoOK, repoRej, repoDiff)
	t.Logf("  reject examples: %v", repoRejEx)
	t.Logf("  diff examples: %v", repoDiffEx)
	t.Logf("mean Synthesize time %v", genTime/nSeeds)
	t.Logf("tokens: literals=%d cache hits=%d backrefs=%d (overlapping %d) maxLen=%d maxCodeLen=%d maxGroupsWritten=%d sparseGroupStreams=%d",
		cov.lits, cov.hits, cov.refs, cov.overlaps, cov.maxLen, cov.maxCodeLen, cov.maxGroups, cov.sparse)
	t.Logf("code kinds: %v", cov.kinds)
	t.Logf("cache bits (main): %v  (sub-images): %v", cov.cacheBits, cov.subCache)
	t.Logf("meta bits: %v  pack bits: %v  pred modes: %v", cov.metaBits, cov.packBits, cov.predModes)
	if float64(fail) > 0.005*nSeeds {
		t.Errorf("too many rejected streams: %d", fail)
	}

	// coverage
	full := 0
	for k := range cov.orders {
		if len(strings.Fields(k)) == 4 {
			full++
		}
	}
	t.Logf("distinct transform sequences seen: %d (of 65), full orders: %d (of 24)", len(cov.orders), full)
	if len(cov.orders) != 65 {
		t.Errorf("only %d of the 65 transform sequences seen", len(cov.orders))
	}
	for m := 0; m <= 13; m++ {
		if cov.predModes[m] == 0 {
			t.Errorf("predictor mode %d never used", m)
		}
	}
	if len(cov.predModes) != 14 {
		t.Errorf("unexpected predictor modes: %v", cov.predModes)
	}
	for _, b := range []int{1, 2, 4, 8} {
		if cov.packBits[b] == 0 {
			t.Errorf("packing %d bits never used", b)
		}
	}
	for b := 0; b <= 11; b++ {
		if cov.cacheBits[b] == 0 {
			t.Errorf("main cache bits %d never used", b)
		}
		if cov.subCache[b] == 0 {
			t.Errorf("sub-image cache bits %d never used", b)
		}
	}
	for _, b := range []int{0, 2, 3, 4, 5, 6, 7, 8, 9} {
		if cov.metaBits[b] == 0 {
			t.Errorf("meta bits %d never used", b)
		}
	}
	for _, k := range AllCodeKinds {
		if cov.kinds[k] == 0 {
			t.Errorf("code kind %q never produced", k)
		}
	}
	var missing []int
	minPlane := 1 << 30
	for c := 0; c <= 120; c++ {
		if cov.planeCodes[c] == 0 {
			missing = append(missing, c)
		}
		minPlane = min(minPlane, cov.planeCodes[c])
	}
	t.Logf("plane codes: least used one has %d uses; explicit distances: %d", minPlane, cov.planeCodes[0])
	if len(missing) > 0 {
		t.Errorf("plane codes never used: %v", missing)
	}
	if cov.maxLen < 1000 {
		t.Errorf("MaxLen %d < 1000", cov.maxLen)
	}
	if cov.maxCodeLen != 15 {
		t.Errorf("MaxCodeLen %d != 15", cov.maxCodeLen)
	}
	if cov.maxGroups <= 1000 {
		t.Errorf("no stream with more than 1000 groups (max %d)", cov.maxGroups)
	}
	if cov.overlaps == 0 || cov.hits == 0 {
		t.Errorf("no overlapping copies / cache hits")
	}
	if genTime/nSeeds > 5*time.Millisecond {
		t.Errorf("Synthesize too slow: %v", genTime/nSeeds)
	}
}

// Every bit written is needed: with the last byte removed libwebp must run out of
// data. Together with acceptance of the full stream this pins the synthesizer's
// bit accounting (a desynchronised stream would almost never end in the same byte).
// libwebp only notices reads past the end beyond its 8-byte prefetch window.
func TestNoSlack(t *testing.T) {
	n, accepted := 0, 0
	for seed := int64(0); seed < 2000; seed++ {
		payload, f := Synthesize(rand.New(rand.NewSource(seed)), DefaultParams())
		// Only odd lengths: the truncated chunk is then even and gets no RIFF pad
		// byte (libwebp hands the pad byte to the bit reader, which would make up
		// for the missing byte).
		if len(payload) < 10 || len(payload)&1 == 0 {
			continue
		}
		n++
		if _, _, _, err := lw.DecodeRGBA(WrapRIFF(payload[:len(payload)-1])); err == nil {
			accepted++
			if accepted < 5 {
				t.Errorf("seed %d: stream still decodes with its last byte removed (%d bytes, tr=%v)", seed, len(payload), f.Transforms)
			}
		}
	}
	t.Logf("%d truncated streams, %d still accepted", n, accepted)
}

func allSequences() [][]int {
	var out [][]int
	var rec func(cur []int, used int)
	rec = func(cur []int, used int) {
		out = append(out, append([]int{}, cur...))
		for t := 0; t < 4; t++ {
			if used&(1<<t) == 0 {
				rec(append(cur, t), used|1<<t)
			}
		}
	}
	rec(nil, 0)
	return out
}

// Acceptance 2 (forced): every transform sequence, with every palette packing.
func TestAllTransformOrdersForced(t *testing.T) {
	seqs := allSequences()
	if len(seqs) != 65 {
		t.Fatalf("expected 65 sequences, got %d", len(seqs))
	}
	n, fail, repoBad := 0, 0, 0
	bad := map[string]int{}
	for _, s := range seqs {
		for _, pal := range []int{2, 4, 16, 200} {
			for rep := 0; rep < 6; rep++ {
				p := DefaultParams()
				p.Transforms = append([]int{}, s...) // non-nil even when empty
				p.PaletteSize = pal
				seed := int64(n)
				n++
				payload, f := Synthesize(rand.New(rand.NewSource(seed)), p)
				if fmt.Sprint(f.TransformIDs) != fmt.Sprint(s) {
					t.Fatalf("forced %v, got %v", s, f.TransformIDs)
				}
				file := WrapRIFF(payload)
				pix, w, h, err := lw.DecodeRGBA(file)
				if err != nil || w != f.W || h != f.H {
					fail++
					t.Errorf("order %v pal %d seed %d rejected by libwebp: %v", s, pal, seed, err)
					continue
				}
				if m, err := safeRepoDecode(file); err != nil || !bytes.Equal(nrgbaPix(m), pix) {
					repoBad++
					bad[fmt.Sprint(s)]++
				}
			}
		}
	}
	keys := make([]string, 0, len(bad))
	for k, v := range bad {
		keys = append(keys, fmt.Sprintf("%s:%d", k, v))
	}
	sort.Strings(keys)
	t.Logf("%d forced streams, libwebp rejected %d; deepteams/webp disagreed on %d, by sequence (of 24 each): %v", n, fail, repoBad, keys)
}

// Exact parameters are honoured.
func TestExactParams(t *testing.T) {
	for cb := 0; cb <= 11; cb++ {
		for _, mb := range []int{0, 2, 3, 4, 5, 6, 7, 8, 9} {
			p := Params{W: 33, H: 17, CacheBits: cb, MetaBits: mb, Transforms: []int{}}
			payload, f := Synthesize(rand.New(rand.NewSource(int64(cb*16+mb))), p)
			if f.CacheBits != cb || f.MetaBits != mb || f.W != 33 || f.H != 17 || len(f.Transforms) != 0 {
				t.Fatalf("params not honoured: %+v", f)
			}
			if _, w, h, err := lw.DecodeRGBA(WrapRIFF(payload)); err != nil || w != 33 || h != 17 {
				t.Errorf("cb=%d mb=%d rejected: %v", cb, mb, err)
			}
		}
	}
	for n := 1; n <= 256; n++ {
		p := DefaultParams()
		p.Transforms = []int{3}
		p.PaletteSize = n
		payload, f := Synthesize(rand.New(rand.NewSource(int64(n))), p)
		if !strings.HasPrefix(f.Transforms[0], fmt.Sprintf("palette/n=%d/", n)) {
			t.Fatalf("palette size not honoured: %v", f.Transforms)
		}
		if _, _, _, err := lw.DecodeRGBA(WrapRIFF(payload)); err != nil {
			t.Errorf("palette %d rejected: %v", n, err)
		}
	}
	// larger images: length 4096 and big explicit distances become reachable
	maxLen := 0
	for seed := int64(0); seed < 200; seed++ {
		p := DefaultParams()
		p.W, p.H = 100+int(seed)%50, 90
		payload, f := Synthesize(rand.New(rand.NewSource(seed)), p)
		maxLen = max(maxLen, f.MaxLen)
		if _, w, h, err := lw.DecodeRGBA(WrapRIFF(payload)); err != nil || w != p.W || h != p.H {
			t.Errorf("large seed %d rejected: %v", seed, err)
		}
	}
	if maxLen != 4096 {
		t.Errorf("max length 4096 not reached on large images (got %d)", maxLen)
	}
}

func chunk(fourcc string, data []byte) []byte {
	out := append([]byte(fourcc), 0, 0, 0, 0)
	binary.LittleEndian.PutUint32(out[4:], uint32(len(data)))
	out = append(out, data...)
	if len(data)&1 == 1 {
		out = append(out, 0)
	}
	return out
}

// extractChunk returns the payload of the first chunk with the given fourcc in a RIFF/WEBP file.
func extractChunk(file []byte, fourcc string) []byte {
	for p := 12; p+8 <= len(file); {
		n := int(binary.LittleEndian.Uint32(file[p+4:]))
		if string(file[p:p+4]) == fourcc {
			return file[p+8 : p+8+n]
		}
		p += 8 + n + n&1
	}
	return nil
}

// Acceptance 3: header-less streams inside ALPH chunks.
func TestAlphaStream(t *testing.T) {
	const n = 400
	fail, repoOK, repoRej, repoDiff := 0, 0, 0, 0
	var ex []string
	for seed := int64(0); seed < n; seed++ {
		r := rand.New(rand.NewSource(seed))
		w, h := 1+r.Intn(48), 1+r.Intn(48)
		stream, f := SynthesizeAlphaStream(r, w, h, DefaultParams())
		if f.W != w || f.H != h {
			t.Fatalf("features size %dx%d, want %dx%d", f.W, f.H, w, h)
		}
		rgba := make([]byte, 4*w*h)
		for i := range rgba {
			rgba[i] = byte(r.Intn(256))
			if i&3 == 3 {
				rgba[i] = 255
			}
		}
		lossy, err := lw.EncodeSimple(rgba, w, h, false, 50)
		if err != nil {
			t.Fatal(err)
		}
		vp8 := extractChunk(lossy, "VP8 ")
		if vp8 == nil {
			t.Fatalf("no VP8 chunk in libwebp output")
		}
		vp8x := make([]byte, 10)
		vp8x[0] = 0x10 // alpha
		vp8x[4], vp8x[5], vp8x[6] = byte(w-1), byte((w-1)>>8), byte((w-1)>>16)
		vp8x[7], vp8x[8], vp8x[9] = byte(h-1), byte((h-1)>>8), byte((h-1)>>16)
		body := append([]byte("WEBP"), chunk("VP8X", vp8x)...)
		body = append(body, chunk("ALPH", append([]byte{0x01}, stream...))...) // method 1 (lossless), no filter, no pre-processing
		body = append(body, chunk("VP8 ", vp8)...)
		file := append([]byte("RIFF"), 0, 0, 0, 0)
		binary.LittleEndian.PutUint32(file[4:], uint32(len(body)))
		file = append(file, body...)

		pix, gw, gh, err := lw.DecodeRGBA(file)
		if err != nil || gw != w || gh != h {
			fail++
			if fail < 10 {
				t.Errorf("seed %d %dx%d ALPH rejected: %v tr=%v", seed, w, h, err, f.Transforms)
			}
			continue
		}
		// compare the alpha plane only (lossy colour may legitimately differ in rounding)
		m, err := safeRepoDecode(file)
		if err != nil {
			repoRej++
			continue
		}
		p := nrgbaPix(m)
		same := p != nil && len(p) == len(pix)
		for i := 3; same && i < len(pix); i += 4 {
			same = p[i] == pix[i]
		}
		if same {
			repoOK++
		} else {
			repoDiff++
			if len(ex) < 5 {
				ex = append(ex, fmt.Sprintf("seed=%d %dx%d tr=%v", seed, w, h, f.Transforms))
			}
		}
	}
	t.Logf("ALPH: libwebp rejected %d of %d; deepteams/webp alpha plane: agree=%d reject=%d diff=%d %v", fail, n, repoOK, repoRej, repoDiff, ex)
}

// Acceptance 4: same seed and parameters give identical bytes.
func TestDeterminism(t *testing.T) {
	for seed := int64(0); seed < 300; seed++ {
		a, fa := Synthesize(rand.New(rand.NewSource(seed)), DefaultParams())
		b, fb := Synthesize(rand.New(rand.NewSource(seed)), DefaultParams())
		if !bytes.Equal(a, b) || fmt.Sprint(fa) != fmt.Sprint(fb) {
			t.Fatalf("seed %d not deterministic", seed)
		}
		c, _ := SynthesizeAlphaStream(rand.New(rand.NewSource(seed)), 20, 9, DefaultParams())
		d, _ := SynthesizeAlphaStream(rand.New(rand.NewSource(seed)), 20, 9, DefaultParams())
		if !bytes.Equal(c, d) {
			t.Fatalf("alpha seed %d not deterministic", seed)
		}
	}
}

func TestWrapRIFF(t *testing.T) {
	for _, n := range []int{5, 6} {
		f := WrapRIFF(make([]byte, n))
		if len(f)&1 != 0 || int(binary.LittleEndian.Uint32(f[4:]))+8 != len(f) || int(binary.LittleEndian.Uint32(f[16:])) != n {
			t.Errorf("bad RIFF framing for payload of %d bytes", n)
		}
	}
}

func BenchmarkSynthesize64(b *testing.B) {
	p := DefaultParams()
	p.W, p.H = 64, 64
	for i := 0; i < b.N; i++ {
		Synthesize(rand.New(rand.NewSource(int64(i))), p)
	}
}
