package vp8

// boolEncoder is the boolean entropy encoder of RFC 6386 section 7.3
// (init_bool_encoder / write_bool / flush_bool_encoder), ported literally. It
// is the exact inverse of the bool decoder of the same section.
type boolEncoder struct {
	out      []byte
	rng      uint32 // 128 <= rng <= 255
	bottom   uint32 // minimum value of the remaining output
	bitCount int    // number of shifts before an output byte is available
}

func newBoolEncoder() *boolEncoder {
	return &boolEncoder{rng: 255, bitCount: 24}
}

// addOne propagates a carry into the already written bytes.
func (e *boolEncoder) addOne() {
	i := len(e.out) - 1
	for i >= 0 && e.out[i] == 255 {
		e.out[i] = 0
		i--
	}
	if i < 0 {
		panic("vp8 bool encoder: carry out of the first byte")
	}
	e.out[i]++
}

// put writes one bool whose probability of being zero is prob/256.
func (e *boolEncoder) put(prob uint8, bit int) {
	split := 1 + (((e.rng - 1) * uint32(prob)) >> 8)
	if bit != 0 {
		e.bottom += split
		e.rng -= split
	} else {
		e.rng = split
	}
	for e.rng < 128 {
		e.rng <<= 1
		if e.bottom&(1<<31) != 0 {
			e.addOne()
		}
		e.bottom <<= 1
		e.bitCount--
		if e.bitCount == 0 {
			e.out = append(e.out, byte(e.bottom>>24))
			e.bottom &= (1 << 24) - 1
			e.bitCount = 8
		}
	}
}

func (e *boolEncoder) putBool(prob uint8, b bool) {
	if b {
		e.put(prob, 1)
	} else {
		e.put(prob, 0)
	}
}

// flag writes a bool with probability 1/2.
func (e *boolEncoder) flag(b bool) { e.putBool(128, b) }

// literal writes an n-bit unsigned value, most significant bit first, each bit
// with probability 1/2 (RFC 6386 read_literal / L(n)).
func (e *boolEncoder) literal(v uint32, n int) {
	for n > 0 {
		n--
		e.put(128, int((v>>uint(n))&1))
	}
}

// signed writes an n-bit magnitude followed by a sign flag. neg selects the
// sign bit explicitly so that "minus zero" can be produced.
func (e *boolEncoder) signed(mag uint32, neg bool, n int) {
	e.literal(mag, n)
	e.flag(neg)
}

// finish flushes the encoder (flush_bool_encoder) and returns the bytes.
func (e *boolEncoder) finish() []byte {
	c := e.bitCount
	v := e.bottom
	if v&(1<<uint(32-c)) != 0 {
		e.addOne()
	}
	v <<= uint(c & 7)
	c >>= 3
	for c--; c >= 0; c-- {
		v <<= 8
	}
	for c = 4; c > 0; c-- {
		e.out = append(e.out, byte(v>>24))
		v <<= 8
	}
	return e.out
}
