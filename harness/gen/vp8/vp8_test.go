package vp8

import (
	"bytes"
	"fmt"
	"image"
	"math/rand"
	"reflect"
	"sort"
	"strings"
	"sync"
	"testing"
	"time"

	"github.com/deepteams/webp"

	"verif/lw"
	"verif/ximage"
)

// ---------------------------------------------------------------------------
// A straightforward bool decoder, RFC 6386 section 7.3 (bool_decoder).
// ---------------------------------------------------------------------------

type rfcBoolDecoder struct {
	buf      []byte
	pos      int
	value    uint32 // 2 bytes
	rng      uint32
	bitCount int
	overrun  int // bytes fetched beyond the end of buf
}

func (d *rfcBoolDecoder) next() uint32 {
	if d.pos < len(d.buf) {
		b := d.buf[d.pos]
		d.pos++
		return uint32(b)
	}
	d.pos++
	d.overrun++
	return 0
}

func newRFCBoolDecoder(buf []byte) *rfcBoolDecoder {
	d := &rfcBoolDecoder{buf: buf, rng: 255}
	d.value = d.next() << 8
	d.value |= d.next()
	return d
}

func (d *rfcBoolDecoder) get(prob uint8) int {
	split := 1 + (((d.rng - 1) * uint32(prob)) >> 8)
	bigSplit := split << 8
	ret := 0
	if d.value >= bigSplit {
		ret = 1
		d.rng -= split
		d.value -= bigSplit
	} else {
		d.rng = split
	}
	for d.rng < 128 {
		d.value <<= 1
		d.rng <<= 1
		d.bitCount++
		if d.bitCount == 8 {
			d.bitCount = 0
			d.value |= d.next()
		}
	}
	return ret
}

func (d *rfcBoolDecoder) flag() bool { return d.get(128) != 0 }

func (d *rfcBoolDecoder) literal(n int) int {
	v := 0
	for ; n > 0; n-- {
		v = v<<1 | d.get(128)
	}
	return v
}

// optSigned reads flag, magnitude, sign; reports whether "minus zero" was coded.
func (d *rfcBoolDecoder) optSigned(n int) (v int, minusZero bool) {
	if !d.flag() {
		return 0, false
	}
	v = d.literal(n)
	if d.flag() {
		if v == 0 {
			return 0, true
		}
		return -v, false
	}
	return v, false
}

// 1. bool encoder / decoder round trip.
func TestBoolRoundTrip(t *testing.T) {
	type item struct {
		prob uint8
		bit  int
	}
	for seed := int64(0); seed < 400; seed++ {
		r := rand.New(rand.NewSource(seed))
		n := r.Intn(3000)
		if seed < 20 {
			n = int(seed)
		}
		style := r.Intn(6)
		var seq []item
		e := newBoolEncoder()
		add := func(p uint8, b int) {
			seq = append(seq, item{p, b})
			e.put(p, b)
		}
		for len(seq) < n {
			switch style {
			case 0: // uniform
				add(uint8(r.Intn(256)), r.Intn(2))
			case 1: // bits follow their probability
				p := uint8(r.Intn(256))
				b := 0
				if r.Intn(256) >= int(p) {
					b = 1
				}
				add(p, b)
			case 2: // improbable bits (long carries)
				p := uint8(250 + r.Intn(6))
				add(p, 1)
			case 3: // extreme probabilities
				p := [4]uint8{0, 1, 254, 255}[r.Intn(4)]
				add(p, r.Intn(2))
			case 4: // literals
				bits := 1 + r.Intn(12)
				v := uint32(r.Intn(1 << uint(bits)))
				for i := bits - 1; i >= 0; i-- {
					seq = append(seq, item{128, int(v>>uint(i)) & 1})
				}
				e.literal(v, bits)
			default: // all-ones after probable zeros: carry propagation through 0xff runs
				if r.Intn(40) == 0 {
					add(255, 1)
				} else {
					add(1, 1)
				}
			}
		}
		out := e.finish()
		d := newRFCBoolDecoder(out)
		for i, it := range seq {
			if got := d.get(it.prob); got != it.bit {
				t.Fatalf("seed %d style %d: bit %d/%d (prob %d) decoded %d want %d", seed, style, i, len(seq), it.prob, got, it.bit)
			}
		}
		if d.overrun > 0 {
			t.Fatalf("seed %d: decoder had to read %d bytes past the flushed output", seed, d.overrun)
		}
	}
	// literal / signed helpers against the decoder's helpers
	r := rand.New(rand.NewSource(99))
	e := newBoolEncoder()
	type lit struct {
		v, n int
		neg  bool
	}
	var lits []lit
	for i := 0; i < 2000; i++ {
		n := 1 + r.Intn(11)
		l := lit{r.Intn(1 << uint(n)), n, r.Intn(2) == 1}
		lits = append(lits, l)
		e.flag(true)
		e.signed(uint32(l.v), l.neg, l.n)
	}
	d := newRFCBoolDecoder(e.finish())
	for i, l := range lits {
		v, mz := d.optSigned(l.n)
		want := l.v
		if l.neg {
			want = -want
		}
		if v != want || mz != (l.neg && l.v == 0) {
			t.Fatalf("literal %d: got %d (minus zero %v) want %d", i, v, mz, want)
		}
	}
}

// ---------------------------------------------------------------------------
// Independent parse-back of a synthesized frame (RFC 6386 section 19.2/19.3
// syntax order) used to check that Features describes what was really coded.
// ---------------------------------------------------------------------------

type parsed struct {
	f        Features
	overrun  int
	nzBlocks int
}

func parseFrame(payload []byte) (*parsed, error) {
	if len(payload) < 10 {
		return nil, fmt.Errorf("short")
	}
	tag := uint32(payload[0]) | uint32(payload[1])<<8 | uint32(payload[2])<<16
	if tag&1 != 0 {
		return nil, fmt.Errorf("not a key frame")
	}
	if tag>>4&1 != 1 {
		return nil, fmt.Errorf("show_frame is 0")
	}
	if payload[3] != 0x9d || payload[4] != 0x01 || payload[5] != 0x2a {
		return nil, fmt.Errorf("bad start code")
	}
	P := &parsed{}
	f := &P.f
	f.Version = int(tag >> 1 & 7)
	f.FirstPartSize = int(tag >> 5)
	if payload[7]>>6 != 0 || payload[9]>>6 != 0 {
		return nil, fmt.Errorf("scale bits set")
	}
	f.W = int(payload[6]) | int(payload[7]&0x3f)<<8
	f.H = int(payload[8]) | int(payload[9]&0x3f)<<8
	f.MBW, f.MBH = (f.W+15)/16, (f.H+15)/16
	rest := payload[10:]
	if f.FirstPartSize > len(rest) {
		return nil, fmt.Errorf("first partition truncated")
	}
	d := newRFCBoolDecoder(rest[:f.FirstPartSize])
	rest = rest[f.FirstPartSize:]

	f.ColorSpace = d.literal(1)
	f.ClampType = d.literal(1)
	f.SegProbs = [3]int{255, 255, 255}
	f.Segmentation = d.flag()
	if f.Segmentation {
		f.UpdateMap = d.flag()
		f.UpdateData = d.flag()
		if f.UpdateData {
			f.SegAbs = d.flag()
			for i := 0; i < 4; i++ {
				var mz bool
				f.SegQuant[i], mz = d.optSigned(7)
				if mz {
					f.MinusZeros++
				}
			}
			for i := 0; i < 4; i++ {
				var mz bool
				f.SegFilter[i], mz = d.optSigned(6)
				if mz {
					f.MinusZeros++
				}
			}
		}
		if f.UpdateMap {
			for i := 0; i < 3; i++ {
				if d.flag() {
					f.SegProbs[i] = d.literal(8)
					if f.SegProbs[i] == 0 {
						f.ZeroProbs++
					}
				}
			}
		}
	}
	f.FilterSimple = d.flag()
	f.FilterLevel = d.literal(6)
	f.Sharpness = d.literal(3)
	f.LFDelta = d.flag()
	if f.LFDelta {
		f.LFDeltaUpdate = d.flag()
		if f.LFDeltaUpdate {
			for i := 0; i < 4; i++ {
				var mz bool
				f.RefLFDelta[i], mz = d.optSigned(6)
				if mz {
					f.MinusZeros++
				}
			}
			for i := 0; i < 4; i++ {
				var mz bool
				f.ModeLFDelta[i], mz = d.optSigned(6)
				if mz {
					f.MinusZeros++
				}
			}
		}
	}
	f.Partitions = 1 << uint(d.literal(2))
	f.BaseQ = d.literal(7)
	for i := 0; i < 5; i++ {
		var mz bool
		f.QDeltas[i], mz = d.optSigned(4)
		if mz {
			f.MinusZeros++
		}
	}
	f.RefreshEntropy = d.flag()
	probs := defaultTokenProb
	for i := range probs {
		for j := range probs[i] {
			for k := range probs[i][j] {
				for l := range probs[i][j][k] {
					if d.get(tokenProbUpdateProb[i][j][k][l]) != 0 {
						probs[i][j][k][l] = uint8(d.literal(8))
						f.ProbaUpdates++
						if probs[i][j][k][l] == 0 {
							f.ZeroProbs++
						}
					}
				}
			}
		}
	}
	f.UseSkipProba = d.flag()
	if f.UseSkipProba {
		f.SkipProba = d.literal(8)
		if f.SkipProba == 0 {
			f.ZeroProbs++
		}
	}

	// partitions
	n := f.Partitions
	if len(rest) < 3*(n-1) {
		return nil, fmt.Errorf("partition table truncated")
	}
	table := rest[:3*(n-1)]
	rest = rest[3*(n-1):]
	parts := make([]*rfcBoolDecoder, n)
	for i := 0; i < n; i++ {
		sz := len(rest)
		if i < n-1 {
			sz = int(table[3*i]) | int(table[3*i+1])<<8 | int(table[3*i+2])<<16
			if sz > len(rest) {
				return nil, fmt.Errorf("partition %d truncated", i)
			}
		}
		f.PartSizes = append(f.PartSizes, sz)
		parts[i] = newRFCBoolDecoder(rest[:sz])
		rest = rest[sz:]
		if i >= f.MBH {
			f.UnusedPartitions++
			if sz == 0 {
				f.EmptyPartitions++
			}
		}
	}
	if f.PartSizes[n-1] == 0 {
		return nil, fmt.Errorf("last partition is empty")
	}

	f.I16Modes, f.I4Modes, f.UVModes = map[int]int{}, map[int]int{}, map[int]int{}
	f.Tokens = map[string]int{}
	aboveModes := make([]uint8, 4*f.MBW)
	aboveNz := make([][9]uint8, f.MBW) // 4 Y, 2 U, 2 V, 1 DC
	for mby := 0; mby < f.MBH; mby++ {
		var leftModes [4]uint8
		var leftNz [9]uint8
		tp := parts[mby%n]
		for mbx := 0; mbx < f.MBW; mbx++ {
			if f.UpdateMap {
				var id int
				if d.get(uint8(f.SegProbs[0])) == 0 {
					id = d.get(uint8(f.SegProbs[1]))
				} else {
					id = 2 + d.get(uint8(f.SegProbs[2]))
				}
				f.SegIDs[id]++
			}
			skip := false
			if f.UseSkipProba {
				skip = d.get(uint8(f.SkipProba)) != 0
			}
			isI4 := d.get(145) == 0
			if !isI4 {
				var m int
				if d.get(156) == 0 {
					if d.get(163) == 0 {
						m = DCPred
					} else {
						m = VPred
					}
				} else if d.get(128) == 0 {
					m = HPred
				} else {
					m = TMPred
				}
				f.I16Modes[m]++
				f.I16MBs++
				// RFC 6386 section 11.3: implied sub-block modes
				implied := map[int]uint8{DCPred: BDC, VPred: BVE, HPred: BHE, TMPred: BTM}[m]
				for i := 0; i < 4; i++ {
					aboveModes[4*mbx+i] = implied
					leftModes[i] = implied
				}
			} else {
				f.I4MBs++
				for y := 0; y < 4; y++ {
					for x := 0; x < 4; x++ {
						p := &kfBModeProb[aboveModes[4*mbx+x]][leftModes[y]]
						var m uint8
						switch {
						case d.get(p[0]) == 0:
							m = BDC
						case d.get(p[1]) == 0:
							m = BTM
						case d.get(p[2]) == 0:
							m = BVE
						case d.get(p[3]) == 0:
							if d.get(p[4]) == 0 {
								m = BHE
							} else if d.get(p[5]) == 0 {
								m = BRD
							} else {
								m = BVR
							}
						case d.get(p[6]) == 0:
							m = BLD
						case d.get(p[7]) == 0:
							m = BVL
						case d.get(p[8]) == 0:
							m = BHD
						default:
							m = BHU
						}
						f.I4Modes[int(m)]++
						aboveModes[4*mbx+x] = m
						leftModes[y] = m
					}
				}
			}
			var uvm int
			switch {
			case d.get(142) == 0:
				uvm = DCPred
			case d.get(114) == 0:
				uvm = VPred
			case d.get(183) == 0:
				uvm = HPred
			default:
				uvm = TMPred
			}
			f.UVModes[uvm]++

			an := &aboveNz[mbx]
			if skip {
				f.SkippedMBs++
				for i := 0; i < 8; i++ {
					an[i], leftNz[i] = 0, 0
				}
				if !isI4 {
					an[8], leftNz[8] = 0, 0
				}
				continue
			}
			any := false
			block := func(plane, first int, a, l *uint8) {
				nz := P.tokens(tp, &probs, plane, int(*a+*l), first)
				*a, *l = nz, nz
				if nz != 0 {
					any = true
				}
			}
			plane, first := planeY1SansY2, 0
			if !isI4 {
				block(planeY2, 0, &an[8], &leftNz[8])
				plane, first = planeY1WithY2, 1
			}
			for y := 0; y < 4; y++ {
				for x := 0; x < 4; x++ {
					block(plane, first, &an[x], &leftNz[y])
				}
			}
			for c := 0; c < 2; c++ {
				for y := 0; y < 2; y++ {
					for x := 0; x < 2; x++ {
						block(planeUV, 0, &an[4+2*c+x], &leftNz[4+2*c+y])
					}
				}
			}
			if !any {
				f.EmptyCodedMBs++
			}
		}
	}
	P.overrun = d.overrun
	for i, p := range parts {
		if i < f.MBH {
			P.overrun += p.overrun
		}
	}
	return P, nil
}

// tokens parses one block following RFC 6386 section 13.2/13.3.
func (P *parsed) tokens(d *rfcBoolDecoder, probs *[nPlane][nBand][nContext][nProb]uint8, plane, ctx, first int) uint8 {
	f := &P.f
	i := first
	prevZero := false
	any := false
	sawNonZero := false
	lastTok := -1
	for i < 16 {
		p := &probs[plane][bands[i]][ctx]
		if !prevZero {
			if d.get(p[0]) == 0 {
				f.Tokens["eob"]++
				break
			}
		}
		any = true
		var v int
		name := ""
		switch {
		case d.get(p[1]) == 0:
			name, v = "zero", 0
		case d.get(p[2]) == 0:
			name, v = "one", 1
		case d.get(p[3]) == 0:
			if d.get(p[4]) == 0 {
				name, v = "two", 2
			} else if d.get(p[5]) == 0 {
				name, v = "three", 3
			} else {
				name, v = "four", 4
			}
		case d.get(p[6]) == 0:
			if d.get(p[7]) == 0 {
				name, v = "cat1", 5+d.get(159)
			} else {
				name = "cat2"
				v = 7 + 2*d.get(165)
				v += d.get(145)
			}
		default:
			var cat int
			if d.get(p[8]) == 0 {
				cat = d.get(p[9])
			} else {
				cat = 2 + d.get(p[10])
			}
			name = [4]string{"cat3", "cat4", "cat5", "cat6"}[cat]
			x := 0
			for _, pr := range cat3456[cat] {
				if pr == 0 {
					break
				}
				x = x<<1 | d.get(pr)
			}
			v = 3 + (8 << uint(cat)) + x
		}
		f.Tokens[name]++
		if v != 0 {
			d.get(128) // sign
			sawNonZero = true
			if v > f.MaxLevel {
				f.MaxLevel = v
			}
			lastTok = i
		}
		prevZero = v == 0
		switch {
		case v == 0:
			ctx = 0
		case v == 1:
			ctx = 1
		default:
			ctx = 2
		}
		i++
	}
	if !any {
		f.EmptyBlocks++
		return 0
	}
	end := i // position after the last token
	switch {
	case end == 1:
		f.DCOnlyBlocks++
	case end <= 3:
		f.AC3Blocks++
	default:
		f.FullBlocks++
	}
	if end == 16 && lastTok != 15 {
		f.ZeroTailBlocks++
		if !sawNonZero {
			f.AllZeroBlocks++
		}
	}
	return 1
}

// TestParseBack checks every generated stream against the independent parser:
// the stream is consumed without reading past the partitions and the features
// reported by the synthesizer are the ones really present in the bitstream.
func TestParseBack(t *testing.T) {
	for seed := int64(0); seed < 3000; seed++ {
		payload, f := Synthesize(rand.New(rand.NewSource(seed)), Params{})
		P, err := parseFrame(payload)
		if err != nil {
			t.Fatalf("seed %d: %v", seed, err)
		}
		if P.overrun > 0 {
			t.Fatalf("seed %d: parser read %d bytes past partition ends", seed, P.overrun)
		}
		g := P.f
		// fields that the parser cannot know or derives differently
		g.SegQIndex, g.SegLevel = f.SegQIndex, f.SegLevel
		g.NoCoeffs = f.NoCoeffs
		g.MaxBlockL1, g.MaxY2L1 = f.MaxBlockL1, f.MaxY2L1
		g.Ambiguous = f.Ambiguous
		if !f.UpdateMap {
			g.SegIDs = f.SegIDs
		}
		if !reflect.DeepEqual(g, f) {
			t.Fatalf("seed %d: features differ\nparsed  %+v\nreported %+v", seed, g, f)
		}
	}
}

// ---------------------------------------------------------------------------
// Differential runs against libwebp, x/image and the library under test.
// ---------------------------------------------------------------------------

type result struct {
	seed                 int64
	f                    Features
	lwErr, xiErr         error
	dimsOK               bool
	agreeFilt, agreeRaw  bool // libwebp vs x/image
	lutErr               error
	lutAgree             bool // library under test vs libwebp (filtered)
	lutDiff              string
	genTime              time.Duration
	filterChangedPicture bool
}

func planesEqualXI(m *image.YCbCr, y *lw.YUV) bool {
	w, h := y.W, y.H
	if m.Rect.Dx() != w || m.Rect.Dy() != h {
		return false
	}
	if m.SubsampleRatio != image.YCbCrSubsampleRatio420 {
		return false
	}
	for r := 0; r < h; r++ {
		if !bytes.Equal(m.Y[r*m.YStride:r*m.YStride+w], y.Y[r*w:(r+1)*w]) {
			return false
		}
	}
	cw, ch := (w+1)/2, (h+1)/2
	for r := 0; r < ch; r++ {
		if !bytes.Equal(m.Cb[r*m.CStride:r*m.CStride+cw], y.U[r*cw:(r+1)*cw]) {
			return false
		}
		if !bytes.Equal(m.Cr[r*m.CStride:r*m.CStride+cw], y.V[r*cw:(r+1)*cw]) {
			return false
		}
	}
	return true
}

// describeDiff summarises where two decodings differ (report only).
func describeDiff(m *image.YCbCr, y *lw.YUV) string {
	w, h := y.W, y.H
	if m.Rect.Dx() != w || m.Rect.Dy() != h {
		return fmt.Sprintf("size %v vs %dx%d", m.Rect, w, h)
	}
	cw, ch := (w+1)/2, (h+1)/2
	var sb strings.Builder
	one := func(name string, a []byte, stride int, b []byte, pw, ph int) {
		n, fx, fy, maxd := 0, -1, -1, 0
		for r := 0; r < ph; r++ {
			for c := 0; c < pw; c++ {
				d := int(a[r*stride+c]) - int(b[r*pw+c])
				if d != 0 {
					if n == 0 {
						fx, fy = c, r
					}
					n++
					if d < 0 {
						d = -d
					}
					if d > maxd {
						maxd = d
					}
				}
			}
		}
		if n > 0 {
			fmt.Fprintf(&sb, "%s: %d px differ, first at (%d,%d), max |d|=%d; ", name, n, fx, fy, maxd)
		}
	}
	one("Y", m.Y, m.YStride, y.Y, w, h)
	one("U", m.Cb, m.CStride, y.U, cw, ch)
	one("V", m.Cr, m.CStride, y.V, cw, ch)
	return sb.String()
}

func decodeLUT(file []byte) (m *image.YCbCr, err error) {
	defer func() {
		if r := recover(); r != nil {
			err = fmt.Errorf("panic: %v", r)
		}
	}()
	img, err := webp.Decode(bytes.NewReader(file))
	if err != nil {
		return nil, err
	}
	yc, ok := img.(*image.YCbCr)
	if !ok {
		return nil, fmt.Errorf("decoded to %T", img)
	}
	return yc, nil
}

func runOne(seed int64, p Params) result {
	res := result{seed: seed}
	t0 := time.Now()
	payload, f := Synthesize(rand.New(rand.NewSource(seed)), p)
	res.genTime = time.Since(t0)
	res.f = f
	file := WrapRIFF(payload)
	yf, err := lw.DecodeYUV(file, false)
	if err != nil {
		res.lwErr = err
		return res
	}
	yr, err := lw.DecodeYUV(file, true)
	if err != nil {
		res.lwErr = err
		return res
	}
	res.dimsOK = yf.W == f.W && yf.H == f.H && yr.W == f.W && yr.H == f.H
	res.filterChangedPicture = !bytes.Equal(yf.Y, yr.Y) || !bytes.Equal(yf.U, yr.U) || !bytes.Equal(yf.V, yr.V)
	xf, err := ximage.DecodeVP8(payload, false)
	if err != nil {
		res.xiErr = err
		return res
	}
	res.agreeFilt = planesEqualXI(xf, yf)
	xr, err := ximage.DecodeVP8(payload, true)
	if err != nil {
		res.xiErr = err
		return res
	}
	res.agreeRaw = planesEqualXI(xr, yr)
	m, err := decodeLUT(file)
	if err != nil {
		res.lutErr = err
	} else {
		res.lutAgree = planesEqualXI(m, yf)
		if !res.lutAgree {
			res.lutDiff = describeDiff(m, yf)
		}
	}
	return res
}

const nSeeds = 3000

var (
	defaultOnce    sync.Once
	defaultResults []result
)

func defaultRuns(t *testing.T) []result {
	defaultOnce.Do(func() {
		if err := lw.SelfTest(); err != nil {
			t.Fatalf("libwebp shim self test: %v", err)
		}
		defaultResults = make([]result, nSeeds)
		for i := range defaultResults {
			defaultResults[i] = runOne(int64(i), Params{})
		}
	})
	if defaultResults == nil {
		t.Fatal("default runs unavailable")
	}
	return defaultResults
}

func brief(f Features) string {
	return fmt.Sprintf("%dx%d parts=%d seg=%v(map=%v data=%v abs=%v q=%v lf=%v) simple=%v level=%d sharp=%d lfd=%v ref0=%d mode0=%d q=%d qd=%v upd=%d skip=%v(%d) i4=%d i16=%d skipped=%d maxL1=%d maxY2=%d maxLevel=%d zeroProbs=%d ver=%d amb=%v",
		f.W, f.H, f.Partitions, f.Segmentation, f.UpdateMap, f.UpdateData, f.SegAbs, f.SegQuant, f.SegFilter, f.FilterSimple, f.FilterLevel, f.Sharpness,
		f.LFDelta, f.RefLFDelta[0], f.ModeLFDelta[0], f.BaseQ, f.QDeltas, f.ProbaUpdates, f.UseSkipProba, f.SkipProba, f.I4MBs, f.I16MBs, f.SkippedMBs,
		f.MaxBlockL1, f.MaxY2L1, f.MaxLevel, f.ZeroProbs, f.Version, f.Ambiguous)
}

// 2. acceptance by libwebp (authority) and x/image.
func TestAcceptance(t *testing.T) {
	rs := defaultRuns(t)
	lwOK, xiOK, dims := 0, 0, 0
	for _, r := range rs {
		if r.lwErr == nil {
			lwOK++
			if r.dimsOK {
				dims++
			}
		} else if lwOK+10 > int(r.seed) {
			t.Logf("seed %d rejected by libwebp: %v  %s", r.seed, r.lwErr, brief(r.f))
		}
		if r.lwErr == nil && r.xiErr == nil {
			xiOK++
		} else if r.xiErr != nil {
			t.Logf("seed %d rejected by x/image: %v  %s", r.seed, r.xiErr, brief(r.f))
		}
	}
	t.Logf("accepted by libwebp: %d/%d (dimensions right: %d); accepted by x/image: %d/%d", lwOK, len(rs), dims, xiOK, len(rs))
	if lwOK != len(rs) || dims != len(rs) || xiOK != len(rs) {
		t.Fatalf("acceptance below 100%%")
	}
}

// 3. bit-exact agreement libwebp vs x/image, and report for the library under test.
func TestAgreement(t *testing.T) {
	rs := defaultRuns(t)
	filt, raw, lutOK, lutErr, filtered := 0, 0, 0, 0, 0
	shown := 0
	for _, r := range rs {
		if r.lwErr != nil || r.xiErr != nil {
			continue
		}
		if r.agreeFilt {
			filt++
		}
		if r.agreeRaw {
			raw++
		}
		if r.filterChangedPicture {
			filtered++
		}
		if (!r.agreeFilt || !r.agreeRaw) && shown < 20 {
			shown++
			t.Logf("libwebp/x-image DISAGREE seed %d (filtered equal %v, unfiltered equal %v): %s", r.seed, r.agreeFilt, r.agreeRaw, brief(r.f))
		}
		if r.lutErr != nil {
			lutErr++
		} else if r.lutAgree {
			lutOK++
		}
	}
	n := len(rs)
	t.Logf("libwebp == x/image: filtered %d/%d, unfiltered %d/%d (loop filter changed the picture in %d frames)", filt, n, raw, n, filtered)
	t.Logf("library under test == libwebp (filtered): %d/%d, decode errors %d", lutOK, n, lutErr)
	shownL := 0
	lutCat := map[string]int{}
	for _, r := range rs {
		if r.lwErr == nil && r.lutErr == nil && !r.lutAgree {
			switch {
			case r.f.FilterLevel == 0:
				lutCat["frame filter level 0"]++
			case r.f.FilterSimple:
				lutCat["simple filter"]++
			default:
				lutCat["normal filter"]++
			}
			if !r.filterChangedPicture {
				lutCat["(libwebp output not changed by the filter)"]++
			}
			if r.f.W%16 == 0 && r.f.H%16 == 0 {
				lutCat["(both dimensions multiple of 16)"]++
			}
			if r.f.MBW == 1 {
				lutCat["(one MB column)"]++
			}
			if r.f.MBH == 1 {
				lutCat["(one MB row)"]++
			}
			if r.f.I4MBs == 0 {
				lutCat["(no i4 MB)"]++
			}
			if r.f.SkippedMBs == 0 && r.f.EmptyCodedMBs == 0 {
				lutCat["(no MB without coefficients)"]++
			}
		}
	}
	t.Logf("library under test disagreements by category: %v", lutCat)
	for _, r := range rs {
		if r.lwErr == nil && (r.lutErr != nil || !r.lutAgree) && shownL < 12 {
			shownL++
			t.Logf("  library under test differs, seed %d err=%v [%s]: %s", r.seed, r.lutErr, r.lutDiff, brief(r.f))
		}
	}
	if float64(filt) < 0.999*float64(n) || float64(raw) < 0.999*float64(n) {
		t.Fatalf("libwebp/x-image agreement below 99.9%%")
	}
}

// 4. coverage over the default draws.
func TestCoverage(t *testing.T) {
	rs := defaultRuns(t)
	cov := map[string]int{}
	i16, i4, uv := map[int]int{}, map[int]int{}, map[int]int{}
	toks := map[string]int{}
	var maxL1, maxY2, maxLevel int
	var genTotal time.Duration
	for _, r := range rs {
		f := r.f
		genTotal += r.genTime
		for m, c := range f.I16Modes {
			i16[m] += c
		}
		for m, c := range f.I4Modes {
			i4[m] += c
		}
		for m, c := range f.UVModes {
			uv[m] += c
		}
		for k, c := range f.Tokens {
			toks[k] += c
		}
		cov[fmt.Sprintf("partitions=%d", f.Partitions)]++
		if f.FilterSimple {
			cov["filter=simple"]++
		} else {
			cov["filter=normal"]++
		}
		if f.FilterLevel == 0 {
			cov["level=0"]++
		} else {
			cov["level>0"]++
			cov[fmt.Sprintf("sharpness=%d(level>0)", f.Sharpness)]++
			if r.filterChangedPicture {
				if f.FilterSimple {
					cov["simple filter changed picture"]++
				} else {
					cov["normal filter changed picture"]++
				}
			}
		}
		cov[fmt.Sprintf("sharpness=%d", f.Sharpness)]++
		switch {
		case !f.Segmentation:
			cov["seg=off"]++
		case f.UpdateMap && f.UpdateData:
			cov["seg=map+data"]++
		case f.UpdateMap:
			cov["seg=map only"]++
		case f.UpdateData:
			cov["seg=data only"]++
		default:
			cov["seg=on, no update"]++
		}
		if f.Segmentation && f.UpdateData {
			if f.SegAbs {
				cov["seg=absolute"]++
			} else {
				cov["seg=delta"]++
			}
		}
		if f.UpdateMap {
			used := 0
			for _, c := range f.SegIDs {
				if c > 0 {
					used++
				}
			}
			cov[fmt.Sprintf("segments used=%d", used)]++
			for i, p := range f.SegProbs {
				if p != 255 {
					cov[fmt.Sprintf("segprob[%d] sent", i)]++
				}
			}
		}
		if f.LFDelta {
			cov["lfdelta=on"]++
			if f.LFDeltaUpdate {
				cov["lfdelta update"]++
				if f.RefLFDelta[0] != 0 {
					cov["ref_lf_delta[0]!=0"]++
				}
				if f.ModeLFDelta[0] != 0 {
					cov["mode_lf_delta[0]!=0"]++
				}
			}
		} else {
			cov["lfdelta=off"]++
		}
		if f.ProbaUpdates > 0 {
			cov["proba updates>0"]++
		} else {
			cov["proba updates=0"]++
		}
		if f.ProbaUpdates == nPlane*nBand*nContext*nProb {
			cov["proba updates=all"]++
		}
		if f.UseSkipProba {
			cov["skip=on"]++
			if f.SkippedMBs > 0 {
				cov["skipped MBs>0"]++
			}
		} else {
			cov["skip=off"]++
		}
		if f.MBH < f.Partitions {
			cov["MB rows < partitions"]++
		}
		if f.MBH > f.Partitions {
			cov["MB rows > partitions"]++
		}
		if f.EmptyPartitions > 0 {
			cov["zero-length partition"]++
		}
		if f.ClampType == 1 {
			cov["clamp_type=1"]++
		}
		if f.ColorSpace == 1 {
			cov["color_space=1"]++
		}
		cov[fmt.Sprintf("version=%d", f.Version)]++
		if f.RefreshEntropy {
			cov["refresh_entropy=1"]++
		} else {
			cov["refresh_entropy=0"]++
		}
		if f.NoCoeffs {
			cov["no residual frame"]++
		}
		if f.EmptyCodedMBs > 0 {
			cov["non-skipped MB without coefficients"]++
		}
		if f.ZeroTailBlocks > 0 {
			cov["zero-tail blocks"]++
		}
		if f.AllZeroBlocks > 0 {
			cov["all-zero token blocks"]++
		}
		if f.DCOnlyBlocks > 0 {
			cov["DC-only blocks"]++
		}
		if f.AC3Blocks > 0 {
			cov["AC3 blocks"]++
		}
		if f.ZeroProbs > 0 {
			cov["probability 0 sent"]++
		}
		if f.MinusZeros > 0 {
			cov["minus zero sent"]++
		}
		for i, d := range f.QDeltas {
			if d != 0 {
				cov[fmt.Sprintf("qdelta[%d]!=0", i)]++
			}
		}
		for i := 0; i < 4; i++ {
			for j, d := range f.QDeltas {
				q := f.SegQIndex[i] + d
				_ = j
				if q < 0 {
					cov["q index clamped at 0"]++
				}
				if q > 127 {
					cov["q index clamped at 127"]++
				}
			}
			if !f.Segmentation {
				break
			}
		}
		if len(f.Ambiguous) > 0 {
			cov["AMBIGUOUS (must be 0 by default)"]++
		}
		switch {
		case f.W%16 == 0:
			cov["w%16=0"]++
		case f.W%16 == 1:
			cov["w%16=1"]++
		case f.W%16 == 15:
			cov["w%16=15"]++
		}
		switch {
		case f.H%16 == 0:
			cov["h%16=0"]++
		case f.H%16 == 1:
			cov["h%16=1"]++
		case f.H%16 == 15:
			cov["h%16=15"]++
		}
		if f.MaxBlockL1 > maxL1 {
			maxL1 = f.MaxBlockL1
		}
		if f.MaxY2L1 > maxY2 {
			maxY2 = f.MaxY2L1
		}
		if f.MaxLevel > maxLevel {
			maxLevel = f.MaxLevel
		}
	}
	keys := make([]string, 0, len(cov))
	for k := range cov {
		keys = append(keys, k)
	}
	sort.Strings(keys)
	var sb strings.Builder
	for _, k := range keys {
		fmt.Fprintf(&sb, "  %-40s %d\n", k, cov[k])
	}
	t.Logf("coverage over %d frames:\n%s  i16 modes %v\n  i4 modes %v\n  uv modes %v\n  tokens %v\n  max block L1 %d, max Y2 L1 %d, max level %d\n  mean synthesis time %v",
		len(rs), sb.String(), i16, i4, uv, toks, maxL1, maxY2, maxLevel, genTotal/time.Duration(len(rs)))

	need := []string{
		"partitions=1", "partitions=2", "partitions=4", "partitions=8",
		"filter=simple", "filter=normal", "simple filter changed picture", "normal filter changed picture",
		"seg=off", "seg=map+data", "seg=map only", "seg=data only", "seg=on, no update", "seg=absolute", "seg=delta",
		"segments used=1", "segments used=2", "segments used=3", "segments used=4",
		"segprob[0] sent", "segprob[1] sent", "segprob[2] sent",
		"lfdelta=on", "lfdelta=off", "lfdelta update", "ref_lf_delta[0]!=0", "mode_lf_delta[0]!=0",
		"proba updates>0", "proba updates=0", "proba updates=all",
		"skip=on", "skip=off", "skipped MBs>0",
		"MB rows < partitions", "MB rows > partitions", "zero-length partition",
		"clamp_type=1", "color_space=1", "version=0", "version=1", "version=2", "version=3",
		"refresh_entropy=0", "refresh_entropy=1", "no residual frame", "non-skipped MB without coefficients",
		"zero-tail blocks", "all-zero token blocks", "DC-only blocks", "AC3 blocks", "probability 0 sent", "minus zero sent",
		"qdelta[0]!=0", "qdelta[1]!=0", "qdelta[2]!=0", "qdelta[3]!=0", "qdelta[4]!=0",
		"q index clamped at 0", "q index clamped at 127", "level=0", "level>0",
		"w%16=0", "w%16=1", "w%16=15", "h%16=0", "h%16=1", "h%16=15",
	}
	for s := 0; s < 8; s++ {
		need = append(need, fmt.Sprintf("sharpness=%d", s), fmt.Sprintf("sharpness=%d(level>0)", s))
	}
	for _, k := range need {
		if cov[k] == 0 {
			t.Errorf("not covered: %s", k)
		}
	}
	if cov["AMBIGUOUS (must be 0 by default)"] != 0 {
		t.Errorf("ambiguous frames generated with default parameters")
	}
	for m := 0; m < 4; m++ {
		if i16[m] == 0 {
			t.Errorf("i16 mode %d not covered", m)
		}
		if uv[m] == 0 {
			t.Errorf("uv mode %d not covered", m)
		}
	}
	for m := 0; m < 10; m++ {
		if i4[m] == 0 {
			t.Errorf("i4 mode %d not covered", m)
		}
	}
	for _, k := range tokNames {
		if toks[k] == 0 {
			t.Errorf("token %s not covered", k)
		}
	}
	if maxL1 > BlockL1Limit+2*157+BlockL1Limit/8 {
		t.Errorf("block L1 %d escapes the envelope", maxL1)
	}
	if maxY2 > Y2L1Limit+440 {
		t.Errorf("Y2 L1 %d escapes the envelope", maxY2)
	}
}

// 5. determinism.
func TestDeterminism(t *testing.T) {
	ps := []Params{{}, {W: 33, H: 17, Partitions: 4, Segmentation: 2, FilterType: 2}, {NoCoeffs: true}, {CoeffScale: 3, AllowAmbiguous: true}, {MaxSide: 200}}
	for _, p := range ps {
		for seed := int64(0); seed < 200; seed++ {
			a, fa := Synthesize(rand.New(rand.NewSource(seed)), p)
			b, fb := Synthesize(rand.New(rand.NewSource(seed)), p)
			if !bytes.Equal(a, b) || !reflect.DeepEqual(fa, fb) {
				t.Fatalf("params %+v seed %d: not deterministic", p, seed)
			}
		}
	}
}

// Forced parameters are honoured and still decode and agree.
func TestForcedParams(t *testing.T) {
	type tc struct {
		p     Params
		check func(f Features) bool
	}
	cases := []tc{
		{Params{W: 1, H: 1}, func(f Features) bool { return f.W == 1 && f.H == 1 }},
		{Params{W: 16, H: 16, Partitions: 8}, func(f Features) bool { return f.Partitions == 8 && f.UnusedPartitions == 7 }},
		{Params{Partitions: 1}, func(f Features) bool { return f.Partitions == 1 }},
		{Params{Partitions: 2}, func(f Features) bool { return f.Partitions == 2 }},
		{Params{Partitions: 4}, func(f Features) bool { return f.Partitions == 4 }},
		{Params{Segmentation: 1}, func(f Features) bool { return !f.Segmentation }},
		{Params{Segmentation: 2}, func(f Features) bool { return f.Segmentation }},
		{Params{FilterType: 1}, func(f Features) bool { return f.FilterSimple }},
		{Params{FilterType: 2}, func(f Features) bool { return !f.FilterSimple }},
		{Params{NoCoeffs: true}, func(f Features) bool {
			n := 0
			for k, c := range f.Tokens {
				if k != "eob" {
					n += c
				}
			}
			return n == 0 && f.NoCoeffs
		}},
		{Params{MaxSide: 130}, func(f Features) bool { return f.W <= 130 && f.H <= 130 }},
		{Params{W: 257, H: 130, Partitions: 8}, func(f Features) bool { return f.MBH > 8 }},
		{Params{Version: 4}, func(f Features) bool { return f.Version == 3 }},
		{Params{CoeffScale: 0.25}, func(f Features) bool { return f.MaxBlockL1 <= BlockL1Limit/4+2*157+BlockL1Limit/32 }},
	}
	for ci, c := range cases {
		bad := 0
		for seed := int64(0); seed < 150; seed++ {
			r := runOne(seed, c.p)
			if !c.check(r.f) {
				t.Fatalf("case %d seed %d: parameter not honoured: %s", ci, seed, brief(r.f))
			}
			if r.lwErr != nil || r.xiErr != nil || !r.dimsOK {
				t.Fatalf("case %d seed %d: rejected lw=%v xi=%v: %s", ci, seed, r.lwErr, r.xiErr, brief(r.f))
			}
			if !r.agreeFilt || !r.agreeRaw {
				bad++
				t.Logf("case %d seed %d: libwebp/x-image disagree: %s", ci, seed, brief(r.f))
			}
		}
		if bad > 0 {
			t.Errorf("case %d: %d disagreements", ci, bad)
		}
	}
}

// The frame-tag version must not influence libwebp's output (WebP ignores it).
func TestVersionIrrelevantForLibwebp(t *testing.T) {
	diff := 0
	for seed := int64(0); seed < 300; seed++ {
		payload, _ := Synthesize(rand.New(rand.NewSource(seed)), Params{Version: 1})
		ref, err := lw.DecodeYUV(WrapRIFF(payload), false)
		if err != nil {
			t.Fatal(err)
		}
		for v := 1; v <= 3; v++ {
			q := append([]byte(nil), payload...)
			q[0] = q[0]&^0x0e | byte(v)<<1
			got, err := lw.DecodeYUV(WrapRIFF(q), false)
			if err != nil {
				t.Fatalf("seed %d version %d rejected: %v", seed, v, err)
			}
			if !bytes.Equal(ref.Y, got.Y) || !bytes.Equal(ref.U, got.U) || !bytes.Equal(ref.V, got.V) {
				diff++
			}
		}
		// versions 4..7 are rejected
		q := append([]byte(nil), payload...)
		q[0] = q[0]&^0x0e | 4<<1
		if _, err := lw.DecodeYUV(WrapRIFF(q), false); err == nil {
			t.Fatalf("seed %d: version 4 accepted by libwebp", seed)
		}
	}
	if diff != 0 {
		t.Fatalf("libwebp output depends on the version in %d cases", diff)
	}
}

// Envelope exploration (report only): how far can the budget be scaled before
// libwebp and x/image stop agreeing, and what does the library under test do.
func TestEnvelopeSweep(t *testing.T) {
	if testing.Short() {
		t.Skip("short")
	}
	for _, sc := range []float64{0.5, 1, 2, 4, 8, 12, 16, 24, 32} {
		n, okF, okR, lut, rej := 600, 0, 0, 0, 0
		maxL1, maxY2 := 0, 0
		for seed := int64(0); seed < int64(n); seed++ {
			r := runOne(100000+seed, Params{CoeffScale: sc})
			if r.lwErr != nil || r.xiErr != nil {
				rej++
				continue
			}
			if r.agreeFilt {
				okF++
			}
			if r.agreeRaw {
				okR++
			}
			if r.lutErr == nil && r.lutAgree {
				lut++
			}
			if r.f.MaxBlockL1 > maxL1 {
				maxL1 = r.f.MaxBlockL1
			}
			if r.f.MaxY2L1 > maxY2 {
				maxY2 = r.f.MaxY2L1
			}
		}
		t.Logf("CoeffScale %-4g: libwebp==x/image filtered %d/%d unfiltered %d/%d rejected %d | library under test == libwebp %d/%d | max block L1 %d, max Y2 L1 %d",
			sc, okF, n, okR, n, rej, lut, n, maxL1, maxY2)
	}
}

// Ambiguous constructs (libwebp vs RFC reference decoder) are still decodable
// and libwebp/x-image agree on them; reported separately.
func TestAmbiguousRuns(t *testing.T) {
	n, amb, okF, okR, lut := 1500, 0, 0, 0, 0
	for seed := int64(0); seed < int64(n); seed++ {
		r := runOne(seed, Params{AllowAmbiguous: true})
		if r.lwErr != nil || r.xiErr != nil {
			t.Fatalf("seed %d rejected: lw=%v xi=%v %s", seed, r.lwErr, r.xiErr, brief(r.f))
		}
		if len(r.f.Ambiguous) > 0 {
			amb++
		}
		if r.agreeFilt {
			okF++
		}
		if r.agreeRaw {
			okR++
		}
		if r.lutErr == nil && r.lutAgree {
			lut++
		}
		if !r.agreeFilt || !r.agreeRaw {
			t.Logf("disagree seed %d: %s", seed, brief(r.f))
		}
	}
	t.Logf("AllowAmbiguous: %d/%d frames ambiguous; libwebp==x/image filtered %d unfiltered %d; library under test == libwebp %d", amb, n, okF, okR, lut)
	if okF != n || okR != n {
		t.Errorf("libwebp/x-image disagree on ambiguous frames")
	}
}

// Larger pictures: many macroblock rows per partition, long partitions.
func TestLargerFrames(t *testing.T) {
	n, okF, okR, lut := 120, 0, 0, 0
	for seed := int64(0); seed < int64(n); seed++ {
		r := runOne(seed, Params{MaxSide: 300})
		if r.lwErr != nil || r.xiErr != nil || !r.dimsOK {
			t.Fatalf("seed %d rejected: lw=%v xi=%v %s", seed, r.lwErr, r.xiErr, brief(r.f))
		}
		if r.agreeFilt {
			okF++
		}
		if r.agreeRaw {
			okR++
		}
		if r.lutErr == nil && r.lutAgree {
			lut++
		}
	}
	t.Logf("MaxSide 300: libwebp==x/image filtered %d/%d unfiltered %d/%d; library under test == libwebp %d/%d", okF, n, okR, n, lut, n)
	if okF != n || okR != n {
		t.Errorf("disagreement on larger frames")
	}
}

func BenchmarkSynthesize48(b *testing.B) {
	r := rand.New(rand.NewSource(1))
	b.ReportAllocs()
	for i := 0; i < b.N; i++ {
		Synthesize(r, Params{W: 48, H: 48})
	}
}

func TestPerformance(t *testing.T) {
	r := rand.New(rand.NewSource(7))
	const n = 2000
	t0 := time.Now()
	for i := 0; i < n; i++ {
		Synthesize(r, Params{W: 48, H: 48})
	}
	per := time.Since(t0) / n
	t.Logf("48x48 synthesis: %v per frame", per)
	if per > 2*time.Millisecond {
		t.Errorf("too slow: %v per 48x48 frame", per)
	}
}
