// Package vp8 synthesizes random but valid VP8 key frames (the lossy WebP
// bitstream, RFC 6386) that exercise every syntax element a WebP decoder has
// to understand. Only syntax and the context bookkeeping needed to code it are
// produced; no pixel is ever computed here.
//
// Mode numbering (the one of libwebp and x/image, so that a 16x16 mode can be
// used directly as sub-block context):
//
//	16x16 / chroma: DCPred=0, TMPred=1, VPred=2, HPred=3
//	4x4:            BDC=0, BTM=1, BVE=2, BHE=3, BRD=4, BVR=5, BLD=6, BVL=7, BHD=8, BHU=9
package vp8

import (
	"fmt"
	"math/rand"
)

// Prediction modes as used in Features.I16Modes / UVModes.
const (
	DCPred = 0
	TMPred = 1
	VPred  = 2
	HPred  = 3
)

// Sub-block prediction modes as used in Features.I4Modes.
const (
	BDC = iota
	BTM
	BVE
	BHE
	BRD
	BVR
	BLD
	BVL
	BHD
	BHU
)

// Default coefficient envelope (see the package documentation of the limits in
// planBlock): L1 norm of the dequantised coefficients of one 4x4 block.
const (
	// BlockL1Limit bounds sum(|level|*dequant) of every DCT block, including
	// the bound of the DC that a Y2 block injects into its 16 luma blocks.
	BlockL1Limit = 2000
	// Y2EachLimit bounds every single dequantised WHT coefficient.
	Y2EachLimit = 2000
	// Y2L1Limit bounds sum(|level|*dequant) of a WHT block.
	Y2L1Limit = 8000
)

// Params steers Synthesize. Zero values mean "random".
type Params struct {
	W, H    int // 0 => random in [1, MaxSide]
	MaxSide int // default 48

	Partitions   int     // 0 => random among 1,2,4,8 ; else 1,2,4,8
	Segmentation int     // 0 random, 1 off, 2 on
	FilterType   int     // 0 random, 1 simple, 2 normal
	NoCoeffs     bool    // true => no residual at all (prediction-only frames)
	CoeffScale   float64 // 0 => 1; scales the magnitude budget of residual coefficients

	// Version: 0 random (mostly 0), 1..4 force frame-tag version 0..3.
	Version int
	// AllowAmbiguous permits constructs that libwebp decodes but on which
	// libwebp and the RFC reference decoder (libvpx) differ; every such frame
	// lists the reasons in Features.Ambiguous. See the comments in header().
	AllowAmbiguous bool
}

// Features describes what a synthesized frame contains.
type Features struct {
	W, H, MBW, MBH                int
	Partitions                    int
	Segmentation                  bool
	UpdateMap, UpdateData, SegAbs bool
	SegQuant, SegFilter           [4]int
	FilterSimple                  bool
	FilterLevel, Sharpness        int
	LFDelta, LFDeltaUpdate        bool
	RefLFDelta, ModeLFDelta       [4]int
	BaseQ                         int
	QDeltas                       [5]int // y1dc, y2dc, y2ac, uvdc, uvac
	ProbaUpdates                  int    // number of coefficient probabilities updated
	UseSkipProba                  bool
	I16Modes                      map[int]int // mode -> count
	I4Modes                       map[int]int // 10 sub-block modes -> count
	UVModes                       map[int]int
	I4MBs, I16MBs, SkippedMBs     int
	Tokens                        map[string]int // "eob","zero","one","two","three","four","cat1".."cat6"
	ColorSpace, ClampType         int

	// Additional information.
	Version          int
	RefreshEntropy   bool
	SkipProba        int
	SegProbs         [3]int // 255 when not transmitted
	SegIDs           [4]int // macroblocks per segment id (when UpdateMap)
	SegQIndex        [4]int // base quantizer index per segment as libwebp derives it
	SegLevel         [4]int // base loop-filter level per segment as libwebp derives it
	ZeroProbs        int    // probabilities transmitted with the value 0
	MinusZeros       int    // signed header fields coded as magnitude 0 with the sign bit set
	FirstPartSize    int
	PartSizes        []int // sizes of the token partitions
	UnusedPartitions int   // partitions that carry no macroblock row
	EmptyPartitions  int   // of those, partitions with a size of 0 bytes
	NoCoeffs         bool  // frame without any residual
	EmptyCodedMBs    int   // macroblocks not skipped whose blocks are all empty
	ZeroTailBlocks   int   // blocks that end with explicit zero tokens up to position 16
	AllZeroBlocks    int   // of those, blocks with only zero tokens (non-zero context, no coefficient)
	DCOnlyBlocks     int   // blocks with a single token at position 0
	AC3Blocks        int   // blocks whose last token is at position 1 or 2
	FullBlocks       int   // blocks whose last token is at position >= 3
	EmptyBlocks      int   // blocks with an immediate EOB
	MaxBlockL1       int   // maximum sum(|level|*dequant) over DCT blocks
	MaxY2L1          int   // same for WHT blocks
	MaxLevel         int   // largest token magnitude
	Ambiguous        []string
}

const (
	tokEOB = iota
	tokZero
	tokOne
	tokTwo
	tokThree
	tokFour
	tokCat1
	tokCat2
	tokCat3
	tokCat4
	tokCat5
	tokCat6
	nTok
)

var tokNames = [nTok]string{"eob", "zero", "one", "two", "three", "four", "cat1", "cat2", "cat3", "cat4", "cat5", "cat6"}

// TokenNames lists the keys of Features.Tokens.
func TokenNames() []string { return append([]string(nil), tokNames[:]...) }

type dqFactors struct {
	y1, y2, uv [2]int // [0] DC, [1] AC
}

type synth struct {
	r *rand.Rand
	p Params
	f Features

	w, h, mbw, mbh int
	attempt        int

	noCoeffs bool
	scale    float64

	// header values
	version      int
	colorSpace   int
	clampType    int
	seg          bool
	updMap       bool
	updData      bool
	segAbs       bool
	segQ, segLF  [4]int
	segQNeg      [4]bool // sign bit as coded
	segLFNeg     [4]bool
	segQPresent  [4]bool
	segLFPresent [4]bool
	segProb      [3]int // -1 when absent
	filterSimple bool
	level, sharp int
	lfAdj, lfUpd bool
	refD, modeD  [4]int
	refNeg       [4]bool
	modeNeg      [4]bool
	refPresent   [4]bool
	modePresent  [4]bool
	log2Parts    int
	baseQ        int
	qd           [5]int
	qdNeg        [5]bool
	qdPresent    [5]bool
	refreshProbs bool
	useSkip      bool
	skipProb     int
	probs        [nPlane][nBand][nContext][nProb]uint8
	probUpdated  [nPlane][nBand][nContext][nProb]bool
	dq           [4]dqFactors
	segWeights   [4]int
	i4Rate       float64
	skipRate     float64
	emptyRate    float64
	frameBudget  float64
	bigLevels    bool
	i16Bias      int // -1 none, else favoured mode
	i4Bias       int
	uvBias       int
	zeroTailRate float64
	emptyMBRate  float64
	zeroProbOK   bool // this frame may transmit probabilities of value 0

	// context state
	aboveModes []uint8 // 4 per MB column
	leftModes  [4]uint8
	aboveNzY   []uint8 // 4 per MB column
	aboveNzU   []uint8 // 2 per MB column
	aboveNzV   []uint8
	aboveNzDC  []uint8 // 1 per MB column
	leftNzY    [4]uint8
	leftNzU    [2]uint8
	leftNzV    [2]uint8
	leftNzDC   uint8

	tok [nTok]int
	i16 [4]int
	i4  [10]int
	uv  [4]int
}

func (s *synth) chance(p float64) bool { return s.r.Float64() < p }

// between returns a uniform integer in [lo, hi].
func (s *synth) between(lo, hi int) int {
	if hi <= lo {
		return lo
	}
	return lo + s.r.Intn(hi-lo+1)
}

func (s *synth) pickWeighted(w []int) int {
	t := 0
	for _, x := range w {
		t += x
	}
	if t <= 0 {
		return 0
	}
	n := s.r.Intn(t)
	for i, x := range w {
		if n < x {
			return i
		}
		n -= x
	}
	return len(w) - 1
}

func clipInt(x, lo, hi int) int {
	if x < lo {
		return lo
	}
	if x > hi {
		return hi
	}
	return x
}

func absInt(x int) int {
	if x < 0 {
		return -x
	}
	return x
}

// dim draws a dimension with emphasis on 0, 1, 15 (mod 16) and on 1..40.
func (s *synth) dim(max int) int {
	x := s.r.Intn(100)
	switch {
	case x < 30:
		m := 40
		if max < m {
			m = max
		}
		return 1 + s.r.Intn(m)
	case x < 75:
		for try := 0; try < 8; try++ {
			k := s.r.Intn(max/16 + 2)
			v := 16*k + [3]int{0, 1, 15}[s.r.Intn(3)]
			if v >= 1 && v <= max {
				return v
			}
		}
	}
	return 1 + s.r.Intn(max)
}

// Synthesize returns the VP8 chunk payload (frame tag + start code +
// dimensions + partitions) and its features.
func Synthesize(r *rand.Rand, p Params) ([]byte, Features) {
	for attempt := 0; ; attempt++ {
		s := &synth{r: r, p: p, attempt: attempt}
		payload, ok := s.run()
		if ok {
			return payload, s.f
		}
		if attempt > 4 {
			panic("vp8 synth: first partition does not fit in 19 bits")
		}
	}
}

func (s *synth) run() ([]byte, bool) {
	p := s.p
	maxSide := p.MaxSide
	if maxSide <= 0 {
		maxSide = 48
	}
	if maxSide > 16383 {
		maxSide = 16383
	}
	s.w, s.h = p.W, p.H
	if s.w <= 0 {
		s.w = s.dim(maxSide)
	}
	if s.h <= 0 {
		s.h = s.dim(maxSide)
	}
	if s.w > 16383 || s.h > 16383 {
		panic("vp8 synth: dimension exceeds 14 bits")
	}
	s.mbw, s.mbh = (s.w+15)>>4, (s.h+15)>>4
	s.scale = p.CoeffScale
	if s.scale <= 0 {
		s.scale = 1
	}

	s.header()

	fp := newBoolEncoder()
	s.writeHeader(fp)

	nParts := 1 << uint(s.log2Parts)
	parts := make([]*boolEncoder, nParts)
	for i := range parts {
		parts[i] = newBoolEncoder()
	}
	s.aboveModes = make([]uint8, 4*s.mbw) // BDC == 0
	s.aboveNzY = make([]uint8, 4*s.mbw)
	s.aboveNzU = make([]uint8, 2*s.mbw)
	s.aboveNzV = make([]uint8, 2*s.mbw)
	s.aboveNzDC = make([]uint8, s.mbw)
	for mby := 0; mby < s.mbh; mby++ {
		s.leftModes = [4]uint8{}
		s.leftNzY = [4]uint8{}
		s.leftNzU = [2]uint8{}
		s.leftNzV = [2]uint8{}
		s.leftNzDC = 0
		tp := parts[mby&(nParts-1)]
		for mbx := 0; mbx < s.mbw; mbx++ {
			s.macroblock(fp, tp, mbx)
		}
	}

	first := s.finishPartition(fp)
	if len(first) >= 1<<19 {
		return nil, false
	}
	partBytes := make([][]byte, nParts)
	for i, e := range parts {
		used := i < s.mbh
		last := i == nParts-1
		switch {
		case used:
			partBytes[i] = s.finishPartition(e)
		case last:
			// libwebp requires the last partition to hold at least one byte.
			if s.chance(0.5) {
				partBytes[i] = e.finish()
			} else {
				partBytes[i] = []byte{byte(s.r.Intn(256))}
			}
			s.f.UnusedPartitions++
		default:
			s.f.UnusedPartitions++
			if s.chance(0.5) {
				partBytes[i] = nil
				s.f.EmptyPartitions++
			} else {
				partBytes[i] = e.finish()
			}
		}
		if len(partBytes[i]) >= 1<<24 {
			panic("vp8 synth: token partition exceeds 24 bits")
		}
	}

	// Assemble: frame tag, start code, dimensions, first partition, partition
	// size table, token partitions.
	size := 10 + len(first) + 3*(nParts-1)
	for _, b := range partBytes {
		size += len(b)
	}
	out := make([]byte, 0, size)
	tag := uint32(0) | uint32(s.version)<<1 | 1<<4 | uint32(len(first))<<5
	out = append(out, byte(tag), byte(tag>>8), byte(tag>>16))
	out = append(out, 0x9d, 0x01, 0x2a)
	out = append(out, byte(s.w), byte(s.w>>8), byte(s.h), byte(s.h>>8))
	out = append(out, first...)
	for i := 0; i < nParts-1; i++ {
		n := len(partBytes[i])
		out = append(out, byte(n), byte(n>>8), byte(n>>16))
	}
	for _, b := range partBytes {
		out = append(out, b...)
		s.f.PartSizes = append(s.f.PartSizes, len(b))
	}
	s.f.FirstPartSize = len(first)
	s.fillFeatures()
	return out, true
}

// finishPartition flushes an encoder and occasionally appends trailing bytes
// that no decoder needs (partitions are allowed to be longer than necessary).
func (s *synth) finishPartition(e *boolEncoder) []byte {
	b := e.finish()
	if s.chance(0.08) {
		for n := s.between(1, 3); n > 0; n-- {
			b = append(b, byte(s.r.Intn(256)))
		}
	}
	return b
}

func (s *synth) ambiguous(format string, a ...interface{}) {
	s.f.Ambiguous = append(s.f.Ambiguous, fmt.Sprintf(format, a...))
}

// minusZero returns the sign bit to code for the value v of a "magnitude +
// sign" header field; a zero is sometimes coded as "minus zero".
func (s *synth) minusZero(v int) bool {
	if v < 0 {
		return true
	}
	if v == 0 && s.chance(0.1) {
		s.f.MinusZeros++
		return true
	}
	return false
}

// header draws every frame-level decision.
func (s *synth) header() {
	p := s.p
	r := s.r
	s.noCoeffs = p.NoCoeffs || s.chance(0.04)
	s.zeroProbOK = s.chance(0.12)

	// Frame tag version. libwebp accepts 0..3 ("profile") and never looks at
	// it again; the loop filter type comes from the filter_type bit and the
	// sub-pixel filters only concern inter frames. Versions above 3 are
	// rejected by libwebp.
	switch {
	case p.Version >= 1 && p.Version <= 4:
		s.version = p.Version - 1
	case s.chance(0.85):
		s.version = 0
	default:
		s.version = s.between(1, 3)
	}

	// colour space: 1 is "reserved"; every decoder ignores the bit.
	if s.chance(0.08) {
		s.colorSpace = 1
	}
	// clamping_type 1 promises that reconstruction never leaves 0..255, which
	// only holds by construction for frames without residual (the predictors,
	// TM_PRED included, clamp on their own). Decoders may skip clamping then.
	if s.noCoeffs && s.chance(0.5) {
		s.clampType = 1
	}

	// ---- quantizer -------------------------------------------------------
	switch x := r.Intn(100); {
	case x < 25:
		s.baseQ = s.between(0, 15)
	case x < 40:
		s.baseQ = s.between(100, 127)
	case x < 45:
		s.baseQ = [2]int{0, 127}[r.Intn(2)]
	default:
		s.baseQ = s.between(0, 127)
	}
	qdRate := [3]float64{0, 0.4, 1}[r.Intn(3)]
	for i := range s.qd {
		if s.chance(qdRate) {
			s.qdPresent[i] = true
			if s.chance(0.3) {
				s.qd[i] = [2]int{-15, 15}[r.Intn(2)]
			} else {
				s.qd[i] = s.between(-15, 15)
			}
		}
	}

	// ---- loop filter -----------------------------------------------------
	switch p.FilterType {
	case 1:
		s.filterSimple = true
	case 2:
		s.filterSimple = false
	default:
		s.filterSimple = s.chance(0.5)
	}
	switch x := r.Intn(100); {
	case x < 15:
		s.level = 0
	case x < 25:
		s.level = 63
	case x < 40:
		s.level = s.between(1, 16)
	default:
		s.level = s.between(1, 63)
	}
	s.sharp = r.Intn(8)
	s.lfAdj = s.chance(0.5)
	if s.lfAdj {
		s.lfUpd = s.chance(0.75)
	}
	if s.lfUpd {
		for i := 0; i < 4; i++ {
			// Only entry 0 of each array matters for key frames; give it a
			// higher chance of being present.
			pr := 0.4
			if i == 0 {
				pr = 0.75
			}
			if s.chance(pr) {
				s.refPresent[i] = true
				s.refD[i] = s.lfDeltaValue()
			}
			if s.chance(pr) {
				s.modePresent[i] = true
				s.modeD[i] = s.lfDeltaValue()
			}
		}
	}

	// ---- segmentation ----------------------------------------------------
	switch p.Segmentation {
	case 1:
		s.seg = false
	case 2:
		s.seg = true
	default:
		s.seg = s.chance(0.55)
	}
	s.segProb = [3]int{-1, -1, -1}
	if s.seg {
		switch x := r.Intn(100); {
		case x < 20:
			s.updMap, s.updData = true, false
		case x < 40:
			s.updMap, s.updData = false, true
		case x < 95:
			s.updMap, s.updData = true, true
		default:
			s.updMap, s.updData = false, false
		}
		if s.attempt > 0 {
			s.updMap = false
		}
	}
	if s.seg && !s.updData && !p.AllowAmbiguous {
		// Without update_segment_feature_data libwebp (and x/image) keep the
		// reset state "absolute mode, all values 0", i.e. quantizer index 0
		// and filter level 0 for every segment, whereas the RFC reference
		// decoder resets to delta mode (base values unchanged). Both readings
		// coincide only for base index 0 and loop_filter_level 0.
		s.baseQ = 0
		s.level = 0
	} else if s.seg && !s.updData && (s.baseQ != 0 || s.level != 0) {
		s.ambiguous("segmentation without feature data: libwebp uses absolute zeros, libvpx keeps base q=%d level=%d", s.baseQ, s.level)
	}
	if s.seg && s.updData {
		s.segAbs = s.chance(0.5)
		anyQD := false
		for _, d := range s.qd {
			if d != 0 {
				anyQD = true
			}
		}
		// Quantizer per segment. libwebp clamps once, after adding the
		// per-plane deltas; libvpx clamps the segment index first and then
		// again. Both agree when the segment index itself is in 0..127 or when
		// all deltas are zero.
		wild := s.chance(0.2) && (!anyQD || p.AllowAmbiguous)
		for i := 0; i < 4; i++ {
			if !s.chance(0.8) {
				continue
			}
			s.segQPresent[i] = true
			var v int
			switch {
			case wild:
				v = s.between(-127, 127)
			case s.segAbs:
				v = s.extreme(0, 127)
			default:
				v = s.extreme(0, 127) - s.baseQ
			}
			s.segQ[i] = v
		}
	}
	// Effective base quantizer index per segment, the way libwebp derives it.
	for i := 0; i < 4; i++ {
		q := s.baseQ
		if s.seg {
			if !s.updData || s.segAbs {
				q = s.segQ[i]
			} else {
				q += s.segQ[i]
			}
		}
		s.f.SegQIndex[i] = q
		if q < 0 || q > 127 {
			for _, d := range s.qd {
				if d != 0 {
					s.ambiguous("segment %d quantizer index %d outside 0..127 with non-zero deltas (single vs double clamp)", i, q)
					break
				}
			}
		}
		d := &s.dq[i]
		d.y1[0] = int(dequantTableDC[clipInt(q+s.qd[0], 0, 127)])
		d.y1[1] = int(dequantTableAC[clipInt(q, 0, 127)])
		d.y2[0] = int(dequantTableDC[clipInt(q+s.qd[1], 0, 127)]) * 2
		d.y2[1] = int(dequantTableAC[clipInt(q+s.qd[2], 0, 127)]) * 155 / 100
		if d.y2[1] < 8 {
			d.y2[1] = 8
		}
		d.uv[0] = int(dequantTableDC[clipInt(q+s.qd[3], 0, 117)])
		d.uv[1] = int(dequantTableAC[clipInt(q+s.qd[4], 0, 127)])
	}

	// Loop-filter level per segment.
	if s.seg && s.updData {
		effDelta := s.lfAdj && (s.refD[0] != 0 || s.modeD[0] != 0)
		wild := s.chance(0.2) && (!effDelta || p.AllowAmbiguous)
		for i := 0; i < 4; i++ {
			if !s.chance(0.8) {
				continue
			}
			s.segLFPresent[i] = true
			var v int
			switch {
			case wild:
				v = s.between(-63, 63)
			case s.segAbs:
				v = s.extreme(0, 63)
			default:
				v = s.extreme(0, 63) - s.level
			}
			s.segLF[i] = v
		}
	}
	for try := 0; ; try++ {
		ok := true
		for i := 0; i < 4; i++ {
			l := s.level
			if s.seg {
				if !s.updData || s.segAbs {
					l = s.segLF[i]
				} else {
					l += s.segLF[i]
				}
			}
			s.f.SegLevel[i] = l
			if s.lfAdj {
				// x/image computes the level in int8; libwebp in int. Keep
				// every intermediate sum inside int8 so that the oracle pair
				// stays usable (libwebp clamps the final sum to 0..63).
				a := l + s.refD[0]
				b := a + s.modeD[0]
				if a > 127 || a < -128 || b > 127 || b < -128 {
					ok = false
				}
			}
		}
		if ok {
			break
		}
		// shrink the two effective deltas and retry
		s.refD[0] /= 2
		s.modeD[0] /= 2
	}
	if s.lfAdj && (s.refD[0] != 0 || s.modeD[0] != 0) {
		for i := 0; i < 4; i++ {
			if l := s.f.SegLevel[i]; l < 0 || l > 63 {
				s.ambiguous("segment %d filter level %d outside 0..63 with non-zero lf deltas (single vs double clamp)", i, l)
			}
		}
	}
	if s.updMap {
		// which segment ids are used
		switch r.Intn(4) {
		case 0:
			s.segWeights = [4]int{1, 1, 1, 1}
		case 1:
			s.segWeights = [4]int{8, 1, 1, 1}
		case 2:
			for i := range s.segWeights {
				s.segWeights[i] = r.Intn(3)
			}
		default:
			s.segWeights = [4]int{}
			s.segWeights[r.Intn(4)] = 1
			s.segWeights[r.Intn(4)] += 1
		}
		if s.segWeights == [4]int{} {
			s.segWeights[r.Intn(4)] = 1
		}
		for i := range s.segProb {
			if s.chance(0.7) {
				s.segProb[i] = s.probValue(128)
			}
		}
	}

	// ---- partitions ------------------------------------------------------
	switch p.Partitions {
	case 1:
		s.log2Parts = 0
	case 2:
		s.log2Parts = 1
	case 4:
		s.log2Parts = 2
	case 8:
		s.log2Parts = 3
	default:
		s.log2Parts = r.Intn(4)
	}

	s.refreshProbs = s.chance(0.5)

	// ---- coefficient probabilities --------------------------------------
	s.probs = defaultTokenProb
	var rate float64
	switch x := r.Intn(100); {
	case x < 30:
		rate = 0
	case x < 60:
		rate = 0.005 + 0.03*r.Float64()
	case x < 85:
		rate = 0.1 + 0.2*r.Float64()
	case x < 95:
		rate = 0.5 + 0.4*r.Float64()
	default:
		rate = 1
	}
	if rate > 0 {
		for i := range s.probs {
			for j := range s.probs[i] {
				for k := range s.probs[i][j] {
					for l := range s.probs[i][j][k] {
						if rate < 1 && !s.chance(rate) {
							continue
						}
						s.probUpdated[i][j][k][l] = true
						s.probs[i][j][k][l] = uint8(s.probValue(int(defaultTokenProb[i][j][k][l])))
						s.f.ProbaUpdates++
					}
				}
			}
		}
	}

	// ---- skipping --------------------------------------------------------
	s.useSkip = s.chance(0.7)
	if s.useSkip {
		s.skipProb = s.probValue(128)
		s.skipRate = [5]float64{0, 0.1, 0.5, 0.9, 1}[s.pickWeighted([]int{1, 3, 3, 2, 1})]
	}

	// ---- per-frame content style ------------------------------------------
	s.i4Rate = [4]float64{0, 0.3, 0.7, 1}[s.pickWeighted([]int{1, 3, 3, 2})]
	if s.attempt > 0 {
		s.i4Rate = 0
	}
	s.i16Bias, s.i4Bias, s.uvBias = -1, -1, -1
	if s.chance(0.25) {
		s.i16Bias = r.Intn(4)
	}
	if s.chance(0.25) {
		s.i4Bias = r.Intn(10)
	}
	if s.chance(0.25) {
		s.uvBias = r.Intn(4)
	}
	if s.attempt > 1 {
		s.i16Bias, s.uvBias = DCPred, DCPred
		s.useSkip = false
	}
	s.emptyRate = [4]float64{0.05, 0.25, 0.6, 0.9}[s.pickWeighted([]int{2, 4, 3, 1})]
	s.frameBudget = [4]float64{60, 300, 1000, BlockL1Limit}[s.pickWeighted([]int{2, 5, 6, 7})] * s.scale
	s.bigLevels = s.chance(0.5)
	s.zeroTailRate = [3]float64{0, 0.02, 0.15}[s.pickWeighted([]int{5, 4, 1})]
	s.emptyMBRate = [3]float64{0, 0.05, 0.4}[s.pickWeighted([]int{4, 5, 1})]
}

// extreme draws from [lo,hi] with extra weight on both ends.
func (s *synth) extreme(lo, hi int) int {
	switch s.r.Intn(8) {
	case 0:
		return lo
	case 1:
		return hi
	}
	return s.between(lo, hi)
}

func (s *synth) lfDeltaValue() int {
	switch s.r.Intn(6) {
	case 0:
		return [2]int{-63, 63}[s.r.Intn(2)]
	case 1, 2:
		return s.between(-8, 8)
	}
	return s.between(-63, 63)
}

// probValue draws an 8-bit probability: near a reference value, uniform, an
// extreme (1, 255) or, rarely, 0. A probability of 0 is representable (the
// header fields are plain 8-bit literals) and gives split == 1 in every
// bool decoder; libwebp and x/image were verified to handle it identically.
func (s *synth) probValue(ref int) int {
	switch x := s.r.Intn(100); {
	case x < 2 && s.zeroProbOK:
		s.f.ZeroProbs++
		return 0
	case x < 8:
		return [2]int{1, 255}[s.r.Intn(2)]
	case x < 50:
		return clipInt(ref+s.between(-40, 40), 1, 255)
	}
	return s.between(1, 255)
}

func (s *synth) writeOptSigned(e *boolEncoder, present bool, v int, neg *bool, bits int) {
	e.flag(present)
	if !present {
		return
	}
	n := s.minusZero(v)
	*neg = n
	e.signed(uint32(absInt(v)), n, bits)
}

// writeHeader codes the frame header of section 9.2 - 9.11 / 19.2.
func (s *synth) writeHeader(e *boolEncoder) {
	e.literal(uint32(s.colorSpace), 1)
	e.literal(uint32(s.clampType), 1)

	// 9.3 segment-based adjustments
	e.flag(s.seg)
	if s.seg {
		e.flag(s.updMap)
		e.flag(s.updData)
		if s.updData {
			e.flag(s.segAbs) // segment_feature_mode: 1 absolute, 0 delta
			for i := 0; i < 4; i++ {
				s.writeOptSigned(e, s.segQPresent[i], s.segQ[i], &s.segQNeg[i], 7)
			}
			for i := 0; i < 4; i++ {
				s.writeOptSigned(e, s.segLFPresent[i], s.segLF[i], &s.segLFNeg[i], 6)
			}
		}
		if s.updMap {
			for i := 0; i < 3; i++ {
				e.flag(s.segProb[i] >= 0)
				if s.segProb[i] >= 0 {
					e.literal(uint32(s.segProb[i]), 8)
				}
			}
		}
	}

	// 9.6 loop filter type and levels
	e.flag(s.filterSimple)
	e.literal(uint32(s.level), 6)
	e.literal(uint32(s.sharp), 3)
	e.flag(s.lfAdj)
	if s.lfAdj {
		e.flag(s.lfUpd)
		if s.lfUpd {
			for i := 0; i < 4; i++ {
				s.writeOptSigned(e, s.refPresent[i], s.refD[i], &s.refNeg[i], 6)
			}
			for i := 0; i < 4; i++ {
				s.writeOptSigned(e, s.modePresent[i], s.modeD[i], &s.modeNeg[i], 6)
			}
		}
	}

	// 9.5 token partitions
	e.literal(uint32(s.log2Parts), 2)

	// 9.6 dequantization indices
	e.literal(uint32(s.baseQ), 7)
	for i := 0; i < 5; i++ {
		s.writeOptSigned(e, s.qdPresent[i], s.qd[i], &s.qdNeg[i], 4)
	}

	// 9.11 refresh_entropy_probs
	e.flag(s.refreshProbs)

	// 9.9 / 13.4 token probability updates
	for i := range s.probs {
		for j := range s.probs[i] {
			for k := range s.probs[i][j] {
				for l := range s.probs[i][j][k] {
					up := s.probUpdated[i][j][k][l]
					e.putBool(tokenProbUpdateProb[i][j][k][l], up)
					if up {
						e.literal(uint32(s.probs[i][j][k][l]), 8)
					}
				}
			}
		}
	}

	// 9.10 / 9.11 mb_no_coeff_skip
	e.flag(s.useSkip)
	if s.useSkip {
		e.literal(uint32(s.skipProb), 8)
	}
}

func (s *synth) segTreeProb(i int) uint8 {
	if s.segProb[i] < 0 {
		return 255
	}
	return uint8(s.segProb[i])
}

func (s *synth) pickMode(n, bias int) int {
	if bias >= 0 && s.chance(0.7) {
		return bias
	}
	return s.r.Intn(n)
}

// macroblock codes the per-macroblock header into the first partition and,
// unless skipped, the residual tokens into the token partition.
func (s *synth) macroblock(fp, tp *boolEncoder, mbx int) {
	segment := 0
	if s.updMap {
		segment = s.pickWeighted(s.segWeights[:])
		// segment id tree (section 9.3 / 10)
		if segment < 2 {
			fp.put(s.segTreeProb(0), 0)
			fp.put(s.segTreeProb(1), segment&1)
		} else {
			fp.put(s.segTreeProb(0), 1)
			fp.put(s.segTreeProb(2), segment&1)
		}
		s.f.SegIDs[segment]++
	}
	skip := false
	if s.useSkip {
		skip = s.noCoeffs || s.chance(s.skipRate)
		fp.putBool(uint8(s.skipProb), skip)
	}
	isI4 := s.chance(s.i4Rate)
	fp.putBool(probIsI16, !isI4)
	if !isI4 {
		m := s.pickMode(4, s.i16Bias)
		switch m {
		case DCPred:
			fp.put(probY16a, 0)
			fp.put(probY16DCVE, 0)
		case VPred:
			fp.put(probY16a, 0)
			fp.put(probY16DCVE, 1)
		case HPred:
			fp.put(probY16a, 1)
			fp.put(probY16HETM, 0)
		case TMPred:
			fp.put(probY16a, 1)
			fp.put(probY16HETM, 1)
		}
		// implied sub-block modes for later contexts: same numbering
		for i := 0; i < 4; i++ {
			s.aboveModes[4*mbx+i] = uint8(m)
			s.leftModes[i] = uint8(m)
		}
		s.i16[m]++
		s.f.I16MBs++
	} else {
		for y := 0; y < 4; y++ {
			left := s.leftModes[y]
			for x := 0; x < 4; x++ {
				above := s.aboveModes[4*mbx+x]
				m := uint8(s.pickMode(10, s.i4Bias))
				putBMode(fp, &kfBModeProb[above][left], m)
				s.aboveModes[4*mbx+x] = m
				left = m
				s.i4[m]++
			}
			s.leftModes[y] = left
		}
		s.f.I4MBs++
	}
	uvm := s.pickMode(4, s.uvBias)
	switch uvm {
	case DCPred:
		fp.put(probUVDC, 0)
	case VPred:
		fp.put(probUVDC, 1)
		fp.put(probUVVE, 0)
	case HPred:
		fp.put(probUVDC, 1)
		fp.put(probUVVE, 1)
		fp.put(probUVHE, 0)
	case TMPred:
		fp.put(probUVDC, 1)
		fp.put(probUVVE, 1)
		fp.put(probUVHE, 1)
	}
	s.uv[uvm]++

	if skip {
		// Section 13 / libwebp VP8DecodeMB / x/image reconstruct(): all
		// non-zero contexts are cleared, the Y2 one only when the macroblock
		// has a Y2 block.
		s.f.SkippedMBs++
		for i := 0; i < 4; i++ {
			s.aboveNzY[4*mbx+i] = 0
			s.leftNzY[i] = 0
		}
		for i := 0; i < 2; i++ {
			s.aboveNzU[2*mbx+i], s.aboveNzV[2*mbx+i] = 0, 0
			s.leftNzU[i], s.leftNzV[i] = 0, 0
		}
		if !isI4 {
			s.aboveNzDC[mbx] = 0
			s.leftNzDC = 0
		}
		return
	}
	s.residuals(tp, mbx, segment, isI4)
}

// putBMode codes a sub-block mode with the tree of section 11.2 as laid out in
// ximage/vp8/pred.go parsePredModeY4.
func putBMode(e *boolEncoder, p *[9]uint8, m uint8) {
	switch m {
	case BDC:
		e.put(p[0], 0)
	case BTM:
		e.put(p[0], 1)
		e.put(p[1], 0)
	case BVE:
		e.put(p[0], 1)
		e.put(p[1], 1)
		e.put(p[2], 0)
	case BHE, BRD, BVR:
		e.put(p[0], 1)
		e.put(p[1], 1)
		e.put(p[2], 1)
		e.put(p[3], 0)
		switch m {
		case BHE:
			e.put(p[4], 0)
		case BRD:
			e.put(p[4], 1)
			e.put(p[5], 0)
		default:
			e.put(p[4], 1)
			e.put(p[5], 1)
		}
	default:
		e.put(p[0], 1)
		e.put(p[1], 1)
		e.put(p[2], 1)
		e.put(p[3], 1)
		switch m {
		case BLD:
			e.put(p[6], 0)
		case BVL:
			e.put(p[6], 1)
			e.put(p[7], 0)
		case BHD:
			e.put(p[6], 1)
			e.put(p[7], 1)
			e.put(p[8], 0)
		default: // BHU
			e.put(p[6], 1)
			e.put(p[7], 1)
			e.put(p[8], 1)
		}
	}
}

// residuals codes the (up to) 25 blocks of one non-skipped macroblock.
func (s *synth) residuals(tp *boolEncoder, mbx, segment int, isI4 bool) {
	dq := &s.dq[segment]
	// When mb_no_coeff_skip is 0 the macroblock cannot be skipped; "no
	// coefficients" then means 25 immediate EOBs. The same is legal (and
	// occasionally generated) for a non-skipped macroblock when the flag is 1.
	forceEmpty := s.noCoeffs || s.chance(s.emptyMBRate)
	budget := s.blockBudget()
	any := false

	plane := planeY1SansY2
	first := 0
	if !isI4 {
		ctx := s.leftNzDC + s.aboveNzDC[mbx]
		var lv [16]int
		last := 0
		if !forceEmpty {
			b := int(4 * budget)
			if lim := int(Y2L1Limit * s.scale); b > lim {
				b = lim
			}
			lv, last = s.planBlock(0, dq.y2, b, int(Y2EachLimit*s.scale))
		}
		nz := s.codeBlock(tp, planeY2, int(ctx), 0, last, &lv)
		l1 := blockL1(&lv, dq.y2)
		if l1 > s.f.MaxY2L1 {
			s.f.MaxY2L1 = l1
		}
		s.leftNzDC, s.aboveNzDC[mbx] = nz, nz
		if nz != 0 {
			any = true
			// every luma DC produced by the inverse WHT is bounded by
			// (L1 + 3) >> 3 in magnitude
			budget -= float64((l1+3)>>3 + 1)
		}
		plane = planeY1WithY2
		first = 1
	}
	for y := 0; y < 4; y++ {
		l := s.leftNzY[y]
		for x := 0; x < 4; x++ {
			ctx := l + s.aboveNzY[4*mbx+x]
			var lv [16]int
			last := first
			if !forceEmpty {
				lv, last = s.planBlock(first, dq.y1, int(budget), int(budget))
			}
			l = s.codeBlock(tp, plane, int(ctx), first, last, &lv)
			s.noteL1(&lv, dq.y1)
			s.aboveNzY[4*mbx+x] = l
			if l != 0 {
				any = true
			}
		}
		s.leftNzY[y] = l
	}
	uvBudget := s.blockBudget()
	for c := 0; c < 2; c++ {
		above, left := s.aboveNzU, &s.leftNzU
		if c == 1 {
			above, left = s.aboveNzV, &s.leftNzV
		}
		for y := 0; y < 2; y++ {
			l := left[y]
			for x := 0; x < 2; x++ {
				ctx := l + above[2*mbx+x]
				var lv [16]int
				last := 0
				if !forceEmpty {
					lv, last = s.planBlock(0, dq.uv, int(uvBudget), int(uvBudget))
				}
				l = s.codeBlock(tp, planeUV, int(ctx), 0, last, &lv)
				s.noteL1(&lv, dq.uv)
				above[2*mbx+x] = l
				if l != 0 {
					any = true
				}
			}
			left[y] = l
		}
	}
	if !any {
		s.f.EmptyCodedMBs++
	}
}

func blockL1(lv *[16]int, dq [2]int) int {
	t := absInt(lv[0]) * dq[0]
	for i := 1; i < 16; i++ {
		t += absInt(lv[i]) * dq[1]
	}
	return t
}

func (s *synth) noteL1(lv *[16]int, dq [2]int) {
	if l1 := blockL1(lv, dq); l1 > s.f.MaxBlockL1 {
		s.f.MaxBlockL1 = l1
	}
}

// blockBudget draws the L1 budget (dequantised units) of the blocks of one
// macroblock plane.
func (s *synth) blockBudget() float64 {
	if s.chance(0.2) {
		return s.frameBudget
	}
	return s.frameBudget * s.r.Float64()
}

// Token magnitude classes: one, two, three/four, cat1 ... cat6.
var levelClasses = [9][2]int{{1, 1}, {2, 2}, {3, 4}, {5, 6}, {7, 10}, {11, 18}, {19, 34}, {35, 66}, {67, 2114}}
var classWeightsSmall = []int{50, 15, 10, 8, 6, 4, 3, 2, 2}
var classWeightsBig = []int{14, 8, 8, 8, 8, 12, 12, 12, 18}

// planBlock chooses the levels of one block, in coding (zigzag) order:
// positions first..last-1 are coded, lv[last-1] != 0 unless last == 16.
//
// Magnitude envelope. Real encoders emit coefficients that are the forward
// transform of 8-bit residuals; decoders (SIMD ones in particular) are only
// required to be exact inside that range because they use 16-bit
// intermediates. The plan therefore keeps, for every block,
//
//	sum(|level| * dequant) <= budget <= BlockL1Limit * CoeffScale
//
// (every single dequantised coefficient is then bounded as well), with the one
// exception that a lone level of +-1 is always allowed. Large DCT categories
// are reached by pairing them with small quantizers.
func (s *synth) planBlock(first int, dq [2]int, budget, each int) (lv [16]int, last int) {
	r := s.r
	if s.chance(s.emptyRate) {
		return lv, first
	}
	// shape
	zeroTail := false
	switch x := r.Intn(100); {
	case x < 28:
		last = first + 1
	case x < 48:
		last = first + 2 + r.Intn(2)
	case x < 90:
		last = s.between(first+4, 16)
	default:
		last = 16
	}
	if s.chance(s.zeroTailRate) {
		zeroTail = true
	}
	zeroRate := [3]float64{0, 0.35, 0.75}[r.Intn(3)]
	weights := classWeightsSmall
	if s.bigLevels {
		weights = classWeightsBig
	}
	rem := budget
	assign := func(n int) {
		d := dq[1]
		if n == 0 {
			d = dq[0]
		}
		mmax := rem / d
		if e := each / d; e < mmax {
			mmax = e
		}
		if mmax > 2114 {
			mmax = 2114
		}
		m := 1
		if mmax >= 1 {
			c := levelClasses[s.pickWeighted(weights)]
			switch {
			case c[0] > mmax:
				if s.chance(0.5) {
					m = mmax
				} else {
					m = s.between(1, mmax)
				}
			case c[1] > mmax:
				m = s.between(c[0], mmax)
			default:
				m = s.between(c[0], c[1])
			}
		}
		rem -= m * d
		if rem < 0 {
			rem = 0
		}
		if r.Intn(2) == 0 {
			m = -m
		}
		lv[n] = m
	}
	if zeroTail {
		// explicit zero tokens up to position 16; the non-zero prefix may be
		// empty (a block with tokens but no coefficient at all)
		s.f.ZeroTailBlocks++
		nzEnd := s.between(first, 15) // coefficients only below nzEnd
		if s.chance(0.3) {
			nzEnd = first
		}
		anyNZ := false
		for n := first; n < nzEnd; n++ {
			if s.chance(zeroRate) || rem < dqAt(dq, n) {
				continue
			}
			assign(n)
			anyNZ = true
		}
		if !anyNZ {
			s.f.AllZeroBlocks++
		}
		return lv, 16
	}
	assign(last - 1) // must be non-zero
	for n := first; n < last-1; n++ {
		if s.chance(zeroRate) || rem < dqAt(dq, n) {
			continue
		}
		assign(n)
	}
	return lv, last
}

func dqAt(dq [2]int, n int) int {
	if n == 0 {
		return dq[0]
	}
	return dq[1]
}

// codeBlock writes the tokens of one block (section 13) and returns the
// non-zero flag used as context by the neighbours (1 unless the block starts
// with EOB). lv is indexed by coding position.
func (s *synth) codeBlock(e *boolEncoder, plane, ctx, first, last int, lv *[16]int) uint8 {
	probs := &s.probs[plane]
	n := first
	p := &probs[bands[n]][ctx]
	if last <= first {
		e.put(p[0], 0)
		s.tok[tokEOB]++
		s.f.EmptyBlocks++
		return 0
	}
	switch {
	case last == 1:
		s.f.DCOnlyBlocks++
	case last <= 3:
		s.f.AC3Blocks++
	default:
		s.f.FullBlocks++
	}
	e.put(p[0], 1)
	for n < 16 {
		v := lv[n]
		n++
		if v == 0 {
			if n == last && last < 16 {
				panic("vp8 synth: EOB cannot follow a zero token")
			}
			e.put(p[1], 0)
			s.tok[tokZero]++
			p = &probs[bands[n]][0]
			continue // no EOB check after a zero
		}
		e.put(p[1], 1)
		a := absInt(v)
		if a > s.f.MaxLevel {
			s.f.MaxLevel = a
		}
		if a == 1 {
			e.put(p[2], 0)
			s.tok[tokOne]++
			p = &probs[bands[n]][1]
		} else {
			e.put(p[2], 1)
			s.putLarge(e, p, a)
			p = &probs[bands[n]][2]
		}
		if v < 0 {
			e.put(128, 1)
		} else {
			e.put(128, 0)
		}
		if n == 16 {
			return 1
		}
		if n == last {
			e.put(p[0], 0)
			s.tok[tokEOB]++
			return 1
		}
		e.put(p[0], 1)
	}
	return 1
}

// putLarge codes a magnitude >= 2 (tokens two .. cat6 and their extra bits).
func (s *synth) putLarge(e *boolEncoder, p *[nProb]uint8, a int) {
	switch {
	case a <= 4:
		e.put(p[3], 0)
		if a == 2 {
			e.put(p[4], 0)
			s.tok[tokTwo]++
		} else {
			e.put(p[4], 1)
			e.put(p[5], a-3)
			s.tok[tokThree+a-3]++
		}
	case a <= 10:
		e.put(p[3], 1)
		e.put(p[6], 0)
		if a <= 6 {
			e.put(p[7], 0)
			e.put(cat1Prob, a-5)
			s.tok[tokCat1]++
		} else {
			e.put(p[7], 1)
			x := a - 7
			e.put(cat2Prob0, x>>1)
			e.put(cat2Prob1, x&1)
			s.tok[tokCat2]++
		}
	default:
		e.put(p[3], 1)
		e.put(p[6], 1)
		var cat, nbits int
		switch {
		case a < 19:
			cat, nbits = 0, 3
		case a < 35:
			cat, nbits = 1, 4
		case a < 67:
			cat, nbits = 2, 5
		default:
			cat, nbits = 3, 11
		}
		if a > 2114 {
			panic("vp8 synth: level exceeds DCT category 6")
		}
		e.put(p[8], cat>>1)
		e.put(p[9+(cat>>1)], cat&1)
		x := a - (3 + (8 << uint(cat)))
		tab := &cat3456[cat]
		for i := 0; i < nbits; i++ {
			e.put(tab[i], (x>>uint(nbits-1-i))&1)
		}
		s.tok[tokCat3+cat]++
	}
}

func (s *synth) fillFeatures() {
	f := &s.f
	f.W, f.H, f.MBW, f.MBH = s.w, s.h, s.mbw, s.mbh
	f.Partitions = 1 << uint(s.log2Parts)
	f.Segmentation = s.seg
	f.UpdateMap, f.UpdateData, f.SegAbs = s.updMap, s.updData, s.segAbs
	f.SegQuant, f.SegFilter = s.segQ, s.segLF
	f.FilterSimple = s.filterSimple
	f.FilterLevel, f.Sharpness = s.level, s.sharp
	f.LFDelta, f.LFDeltaUpdate = s.lfAdj, s.lfUpd
	f.RefLFDelta, f.ModeLFDelta = s.refD, s.modeD
	f.BaseQ = s.baseQ
	f.QDeltas = s.qd
	f.UseSkipProba = s.useSkip
	f.SkipProba = s.skipProb
	f.I16Modes, f.I4Modes, f.UVModes = map[int]int{}, map[int]int{}, map[int]int{}
	for m, c := range s.i16 {
		if c > 0 {
			f.I16Modes[m] = c
		}
	}
	for m, c := range s.i4 {
		if c > 0 {
			f.I4Modes[m] = c
		}
	}
	for m, c := range s.uv {
		if c > 0 {
			f.UVModes[m] = c
		}
	}
	f.Tokens = map[string]int{}
	for i, c := range s.tok {
		if c > 0 {
			f.Tokens[tokNames[i]] = c
		}
	}
	f.ColorSpace, f.ClampType = s.colorSpace, s.clampType
	f.Version = s.version
	f.RefreshEntropy = s.refreshProbs
	for i := range f.SegProbs {
		f.SegProbs[i] = 255
		if s.segProb[i] >= 0 {
			f.SegProbs[i] = s.segProb[i]
		}
	}
	f.NoCoeffs = s.noCoeffs
}

// WrapRIFF wraps the payload into a simple RIFF/WEBP file with one "VP8 "
// chunk (pad byte if odd).
func WrapRIFF(payload []byte) []byte {
	n := len(payload)
	pad := n & 1
	out := make([]byte, 0, 20+n+pad)
	riff := uint32(4 + 8 + n + pad)
	out = append(out, 'R', 'I', 'F', 'F', byte(riff), byte(riff>>8), byte(riff>>16), byte(riff>>24))
	out = append(out, 'W', 'E', 'B', 'P', 'V', 'P', '8', ' ', byte(n), byte(n>>8), byte(n>>16), byte(n>>24))
	out = append(out, payload...)
	if pad == 1 {
		out = append(out, 0)
	}
	return out
}
