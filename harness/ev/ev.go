// Package ev is the shared run-time of every check: deterministic case lists, worker pool,
// violation / known-finding / inconclusive accounting, replay files and the evidence file.
package ev

import (
	"crypto/sha256"
	"encoding/hex"
	"encoding/json"
	"fmt"
	"os"
	"path/filepath"
	"runtime"
	"runtime/debug"
	"sort"
	"strconv"
	"strings"
	"sync"
	"sync/atomic"
	"time"
)

// Root is /verif (overridable for tests of the machinery itself).
func Root() string {
	if r := os.Getenv("VERIF_ROOT"); r != "" {
		return r
	}
	return "/verif"
}

// OutDir is where evidence and replays are written (VERIF_OUT overrides; used by drills so
// that runs against scratch copies do not overwrite the evidence of /repo).
func OutDir() string {
	if r := os.Getenv("VERIF_OUT"); r != "" {
		return r
	}
	return filepath.Join(Root(), "evidence")
}

// Case is one deterministic unit of work.
type Case struct {
	Idx  int
	Desc string // short human-readable description; also stored in replay files
	Data any
}

// Violation is one refuting observation.
type Violation struct {
	Class  string            `json:"class"` // narrow signature, e.g. "still-canvas-ne-image"
	Attrs  map[string]string `json:"attrs,omitempty"`
	Case   int               `json:"case"`
	Desc   string            `json:"desc"`
	Detail string            `json:"detail"`
	Replay string            `json:"replay,omitempty"`
	Known  string            `json:"known_finding,omitempty"`
}

// Finding is an entry of known_findings.json.
type Finding struct {
	ID       string            `json:"id"`
	Property string            `json:"property"`
	Status   string            `json:"status"` // "known" or "fixed"
	Class    string            `json:"class"`
	Attrs    map[string]string `json:"attrs,omitempty"`
	What     string            `json:"what"`
	Commit   string            `json:"commit,omitempty"`
}

// Ctx is the state of one check run.
type Ctx struct {
	Prop    string
	Tier    string
	Seed    int64
	Level   string
	Rule    string
	Only    int // >=0: replay exactly this case index
	Workers int

	start time.Time
	mu    sync.Mutex

	evaluations  int64
	distinct     map[string]struct{}
	samples      []any
	counters     map[string]int64
	extra        map[string]any
	assumptions  []string
	violations   []Violation
	inconclusive map[string]int64
	findings     []Finding
	knownHits    map[string]int
	exhaustive   bool
	fatal        string
}

// New creates a run context from the environment (VERIF_SEED, tier argument).
func New(prop, tier, level string) *Ctx {
	seed := int64(20260923)
	if s := os.Getenv("VERIF_SEED"); s != "" {
		if v, err := strconv.ParseInt(s, 10, 64); err == nil {
			seed = v
		}
	}
	if tier != "quick" && tier != "thorough" {
		tier = "quick"
	}
	c := &Ctx{Prop: prop, Tier: tier, Seed: seed, Level: level, Only: -1, Workers: runtime.NumCPU(),
		start: time.Now(), distinct: map[string]struct{}{}, counters: map[string]int64{}, extra: map[string]any{},
		inconclusive: map[string]int64{}, knownHits: map[string]int{}}
	c.loadFindings()
	return c
}

func (c *Ctx) loadFindings() {
	b, err := os.ReadFile(filepath.Join(Root(), "known_findings.json"))
	if err != nil {
		return
	}
	var all struct {
		Findings []Finding `json:"findings"`
	}
	if json.Unmarshal(b, &all) != nil {
		return
	}
	for _, f := range all.Findings {
		if f.Property == c.Prop && f.Status == "known" {
			c.findings = append(c.findings, f)
		}
	}
}

// Thorough reports whether the thorough tier runs.
func (c *Ctx) Thorough() bool { return c.Tier == "thorough" }

// N picks a tier-dependent constant.
func (c *Ctx) N(quick, thorough int) int {
	if c.Thorough() {
		return thorough
	}
	return quick
}

// Eval counts one evaluation (one oracle comparison on one case).
func (c *Ctx) Eval(n int) { atomic.AddInt64(&c.evaluations, int64(n)) }

// Distinct records a distinct non-trivial case key.
func (c *Ctx) Distinct(key string) {
	c.mu.Lock()
	c.distinct[key] = struct{}{}
	c.mu.Unlock()
}

// Count increments a named counter reported under coverage.counters.
func (c *Ctx) Count(name string, n int64) {
	c.mu.Lock()
	c.counters[name] += n
	c.mu.Unlock()
}

// Counter reads a named counter.
func (c *Ctx) Counter(name string) int64 {
	c.mu.Lock()
	defer c.mu.Unlock()
	return c.counters[name]
}

// Sample stores up to 12 samples.
func (c *Ctx) Sample(s any) {
	c.mu.Lock()
	if len(c.samples) < 12 {
		c.samples = append(c.samples, s)
	}
	c.mu.Unlock()
}

// Extra stores an additional coverage key.
func (c *Ctx) Extra(k string, v any) {
	c.mu.Lock()
	c.extra[k] = v
	c.mu.Unlock()
}

// Assume records an assumption / trusted-base item.
func (c *Ctx) Assume(s string) {
	c.mu.Lock()
	for _, a := range c.assumptions {
		if a == s {
			c.mu.Unlock()
			return
		}
	}
	c.assumptions = append(c.assumptions, s)
	c.mu.Unlock()
}

// Inconclusive counts a sub-result that is neither held nor violated.
func (c *Ctx) Inconclusive(kind string) {
	c.mu.Lock()
	c.inconclusive[kind]++
	c.mu.Unlock()
}

// SetExhaustive marks the explored finite space as completely enumerated.
func (c *Ctx) SetExhaustive(b bool) { c.exhaustive = b }

// Fatal records a machinery failure (not a violation): the run exits 2.
func (c *Ctx) Fatal(format string, a ...any) {
	c.mu.Lock()
	if c.fatal == "" {
		c.fatal = fmt.Sprintf(format, a...)
	}
	c.mu.Unlock()
}

func attrsMatch(want, have map[string]string) bool {
	for k, v := range want {
		hv, ok := have[k]
		if !ok {
			return false
		}
		if strings.HasPrefix(v, "~") { // substring match
			if !strings.Contains(hv, v[1:]) {
				return false
			}
		} else if hv != v {
			return false
		}
	}
	return true
}

// Violate records a refuting observation. replay is any JSON-able value that lets the case
// be re-executed (it is written to evidence/replays/<prop>/<hash>.json).
func (c *Ctx) Violate(cs Case, class string, attrs map[string]string, detail string, replay any) {
	v := Violation{Class: class, Attrs: attrs, Case: cs.Idx, Desc: cs.Desc, Detail: detail}
	for _, f := range c.findings {
		if f.Class == class && attrsMatch(f.Attrs, attrs) {
			v.Known = f.ID
			break
		}
	}
	c.mu.Lock()
	defer c.mu.Unlock()
	if v.Known != "" {
		c.knownHits[v.Known]++
		if c.knownHits[v.Known] > 3 {
			return // keep only a few instances per finding
		}
	} else {
		n := 0
		for _, o := range c.violations {
			if o.Known == "" && o.Class == class {
				n++
			}
		}
		if n >= 20 {
			c.counters["violations_suppressed_"+class]++
			return
		}
	}
	rep := map[string]any{"property": c.Prop, "tier": c.Tier, "seed": c.Seed, "case": cs.Idx, "desc": cs.Desc,
		"class": class, "attrs": attrs, "detail": detail, "data": replay}
	b, _ := json.MarshalIndent(rep, "", " ")
	h := sha256.Sum256(b)
	dir := filepath.Join(OutDir(), "replays", c.Prop)
	os.MkdirAll(dir, 0o755)
	p := filepath.Join(dir, hex.EncodeToString(h[:8])+".json")
	os.WriteFile(p, b, 0o644)
	v.Replay = p
	c.violations = append(c.violations, v)
}

// RunCases executes fn over the cases on a worker pool; a panic inside fn is a violation
// of class "panic" (every property quantifies over calls that return).
func (c *Ctx) RunCases(cases []Case, workers int, fn func(cs Case)) {
	if c.Only >= 0 {
		var sel []Case
		for _, cs := range cases {
			if cs.Idx == c.Only {
				sel = append(sel, cs)
			}
		}
		cases = sel
	}
	if workers <= 0 {
		workers = c.Workers
	}
	if workers > len(cases) {
		workers = len(cases)
	}
	var next int64 = -1
	var wg sync.WaitGroup
	hm := c.startHangMon(workers)
	for w := 0; w < workers; w++ {
		wg.Add(1)
		go func(w int) {
			defer wg.Done()
			for {
				i := int(atomic.AddInt64(&next, 1))
				if i >= len(cases) {
					return
				}
				hm.begin(w, cases[i])
				c.safe(cases[i], fn)
				hm.end(w)
			}
		}(w)
	}
	wg.Wait()
	close(hm.stop)
}

func (c *Ctx) safe(cs Case, fn func(cs Case)) {
	defer func() {
		if r := recover(); r != nil {
			st := string(debug.Stack())
			loc := panicSite(st)
			if loc == "unknown" {
				// no repository frame between the panic and the harness: the machinery itself failed
				c.Fatal("harness panic in case %d (%s): %v\n%s", cs.Idx, cs.Desc, r, trim(st, 2500))
				return
			}
			c.Violate(cs, "panic", map[string]string{"site": loc}, fmt.Sprintf("panic: %v\n%s", r, trim(st, 3000)), nil)
		}
	}()
	fn(cs)
}

// Guard runs fn and converts a panic into an error string (for call-level attribution).
func Guard(fn func()) (panicked string) {
	defer func() {
		if r := recover(); r != nil {
			st := string(debug.Stack())
			panicked = fmt.Sprintf("panic: %v at %s\n%s", r, panicSite(st), trim(st, 2500))
		}
	}()
	fn()
	return ""
}

func panicSite(stack string) string {
	lines := strings.Split(stack, "\n")
	seenPanic := false
	for i, l := range lines {
		if strings.HasPrefix(l, "panic(") {
			seenPanic = true
			continue
		}
		if seenPanic && strings.Contains(l, "github.com/deepteams/webp") && i+1 < len(lines) {
			f := strings.TrimSpace(lines[i+1])
			if j := strings.Index(f, " +0x"); j > 0 {
				f = f[:j]
			}
			if k := strings.Index(f, "/repo/"); k >= 0 {
				f = f[k+6:]
			}
			fn := l
			if j := strings.LastIndex(fn, "("); j > 0 {
				fn = fn[:j]
			}
			fn = strings.TrimPrefix(fn, "github.com/deepteams/webp")
			_ = f
			return fn // function name only: stable across line shifts
		}
	}
	return "unknown"
}

func trim(s string, n int) string {
	if len(s) > n {
		return s[:n] + "…"
	}
	return s
}

// Finish writes the evidence file, prints VIOLATION / KNOWN-FINDING lines and returns the
// process exit code. minDistinct is the "observed nothing" threshold.
func (c *Ctx) Finish() int {
	c.mu.Lock()
	defer c.mu.Unlock()
	wall := time.Since(c.start).Seconds()
	nviol := 0
	for _, v := range c.violations {
		if v.Known == "" {
			nviol++
		}
	}
	cov := map[string]any{
		"evaluations":         c.evaluations,
		"distinct_nontrivial": len(c.distinct),
		"rule":                c.Rule,
		"samples":             c.samples,
		"counters":            c.counters,
		"inconclusive":        c.inconclusive,
		"exhaustive":          c.exhaustive,
	}
	for k, v := range c.extra {
		cov[k] = v
	}
	if len(c.knownHits) > 0 {
		cov["known_findings_observed"] = c.knownHits
	}
	if len(c.violations) > 0 {
		vs := c.violations
		if len(vs) > 40 {
			vs = vs[:40]
		}
		cov["violation_details"] = vs
	}
	if c.samples == nil {
		cov["samples"] = []any{}
	}
	evd := map[string]any{
		"property_id": c.Prop, "tier": c.Tier, "seed": c.Seed, "level": c.Level,
		"coverage": cov, "assumptions": c.assumptions, "wall_s": float64(int(wall*100)) / 100,
		"violations": nviol,
	}
	if c.assumptions == nil {
		evd["assumptions"] = []string{}
	}
	if c.Only < 0 {
		b, _ := json.MarshalIndent(evd, "", " ")
		os.MkdirAll(OutDir(), 0o755)
		if err := os.WriteFile(filepath.Join(OutDir(), c.Prop+".json"), append(b, '\n'), 0o644); err != nil {
			fmt.Fprintf(os.Stderr, "cannot write evidence: %v\n", err)
			return 2
		}
	}
	ids := make([]string, 0, len(c.knownHits))
	for id := range c.knownHits {
		ids = append(ids, id)
	}
	sort.Strings(ids)
	for _, id := range ids {
		what := ""
		for _, f := range c.findings {
			if f.ID == id {
				what = f.What
			}
		}
		fmt.Printf("KNOWN-FINDING: property=%s %s: %s (observed %d times)\n", c.Prop, id, what, c.knownHits[id])
	}
	for _, v := range c.violations {
		if v.Known == "" {
			fmt.Printf("VIOLATION property=%s replay=%s class=%s case=%d %s :: %s\n", c.Prop, v.Replay, v.Class, v.Case, v.Desc, trim(strings.ReplaceAll(v.Detail, "\n", " | "), 400))
		}
	}
	fmt.Printf("%s %s seed=%d: evaluations=%d distinct_nontrivial=%d violations=%d known=%d inconclusive=%v wall=%.1fs\n",
		c.Prop, c.Tier, c.Seed, c.evaluations, len(c.distinct), nviol, len(c.knownHits), c.inconclusive, wall)
	if c.fatal != "" {
		fmt.Printf("ERROR property=%s machinery failure: %s\n", c.Prop, c.fatal)
		return 2
	}
	if nviol > 0 {
		return 1
	}
	if c.Only < 0 && (c.evaluations == 0 || len(c.distinct) < 2) {
		fmt.Printf("ERROR property=%s observed nothing (evaluations=%d distinct=%d): inconclusive, not a pass\n", c.Prop, c.evaluations, len(c.distinct))
		return 2
	}
	return 0
}

// Sum returns a short hex digest.
func Sum(parts ...[]byte) string {
	h := sha256.New()
	for _, p := range parts {
		h.Write(p)
		h.Write([]byte{0xff, 0x00, 0xff})
	}
	return hex.EncodeToString(h.Sum(nil)[:12])
}
