package ev

import (
	"fmt"
	"os"
	"regexp"
	"runtime"
	"strconv"
	"strings"
	"sync"
	"time"
)

// In-process hang monitor for RunCases.
//
// A case that the repository code never returns from would otherwise hang the whole check. The
// wall clock alone is never a verdict (a loaded machine is slow, not wrong); the verdict is read
// off a goroutine dump: the goroutine executing the case has been parked for minutes inside
// repository code, and every goroutine it (transitively) created is parked for minutes too or has
// exited, so nothing that belongs to this call can ever wake it. That is a deadlock / lost wake-up
// and is reported as a violation of class "deadlock"; anything else that exceeds the hard cap is
// inconclusive (Fatal, exit 2).

type hangSlot struct {
	gid   int
	cs    Case
	start time.Time
	busy  bool
}

type hangMon struct {
	mu    sync.Mutex
	slots []*hangSlot
	stop  chan struct{}
}

var gidRE = regexp.MustCompile(`^goroutine (\d+) `)

func curGID() int {
	var b [64]byte
	n := runtime.Stack(b[:], false)
	if m := gidRE.FindSubmatch(b[:n]); m != nil {
		v, _ := strconv.Atoi(string(m[1]))
		return v
	}
	return -1
}

type gInfo struct {
	id, parent int
	state      string
	minutes    int
	text       string
}

var (
	gHeadRE    = regexp.MustCompile(`^goroutine (\d+) \[([^\],]+)(?:, (\d+) minutes)?(?:, locked to thread)?\]:`)
	gCreatedRE = regexp.MustCompile(`(?m)^created by .* in goroutine (\d+)$`)
)

// ParseGoroutines splits a runtime.Stack(all) dump.
func parseGoroutines(dump string) map[int]*gInfo {
	out := map[int]*gInfo{}
	for _, blk := range strings.Split(dump, "\n\n") {
		blk = strings.TrimLeft(blk, "\n")
		m := gHeadRE.FindStringSubmatch(blk)
		if m == nil {
			continue
		}
		g := &gInfo{text: blk, state: m[2], parent: -1}
		g.id, _ = strconv.Atoi(m[1])
		if m[3] != "" {
			g.minutes, _ = strconv.Atoi(m[3])
		}
		if c := gCreatedRE.FindStringSubmatch(blk); c != nil {
			g.parent, _ = strconv.Atoi(c[1])
		}
		out[g.id] = g
	}
	return out
}

func parkedState(s string) bool {
	switch s {
	case "running", "runnable", "syscall", "sleep", "IO wait", "GC assist wait", "GC assist marking", "preempted", "copystack", "waiting":
		return false
	}
	return true // chan receive, chan send, select, semacquire, sync.Cond.Wait, sync.WaitGroup.Wait, sync.Mutex.Lock, ...
}

// deadlocked decides from a dump whether goroutine gid is provably stuck; returns a witness text.
func deadlocked(dump string, gid int, minMinutes int) (bool, string) {
	gs := parseGoroutines(dump)
	g, ok := gs[gid]
	if !ok || !parkedState(g.state) || g.minutes < minMinutes || !strings.Contains(g.text, "github.com/deepteams/webp") {
		return false, ""
	}
	// descendants
	kids := map[int][]int{}
	for _, x := range gs {
		if x.parent >= 0 {
			kids[x.parent] = append(kids[x.parent], x.id)
		}
	}
	witness := []string{g.text}
	stack := append([]int{}, kids[gid]...)
	seen := map[int]bool{gid: true}
	for len(stack) > 0 {
		id := stack[len(stack)-1]
		stack = stack[:len(stack)-1]
		if seen[id] {
			continue
		}
		seen[id] = true
		x := gs[id]
		if !parkedState(x.state) || x.minutes < minMinutes {
			return false, ""
		}
		if len(witness) < 6 {
			witness = append(witness, x.text)
		}
		stack = append(stack, kids[id]...)
	}
	return true, strings.Join(witness, "\n\n")
}

func (c *Ctx) startHangMon(workers int) *hangMon {
	h := &hangMon{stop: make(chan struct{})}
	for i := 0; i < workers; i++ {
		h.slots = append(h.slots, &hangSlot{})
	}
	soft := 150 * time.Second
	hard := 60 * time.Minute
	if v, err := strconv.Atoi(os.Getenv("VERIF_HANG_SOFT_S")); err == nil && v > 0 {
		soft = time.Duration(v) * time.Second
	}
	if v, err := strconv.Atoi(os.Getenv("VERIF_HANG_HARD_S")); err == nil && v > 0 {
		hard = time.Duration(v) * time.Second
	}
	go func() {
		t := time.NewTicker(10 * time.Second)
		defer t.Stop()
		for {
			select {
			case <-h.stop:
				return
			case <-t.C:
			}
			var late []hangSlot
			h.mu.Lock()
			for _, s := range h.slots {
				if s.busy && time.Since(s.start) > soft {
					late = append(late, *s)
				}
			}
			h.mu.Unlock()
			if len(late) == 0 {
				continue
			}
			buf := make([]byte, 64<<20)
			dump := string(buf[:runtime.Stack(buf, true)])
			for _, s := range late {
				if ok, w := deadlocked(dump, s.gid, 2); ok {
					site := "unknown"
					for _, l := range strings.Split(w, "\n") {
						if strings.HasPrefix(l, "github.com/deepteams/webp") {
							site = l
							if i := strings.Index(site, "("); i > 0 && !strings.HasPrefix(site[i:], "(*") {
								site = site[:i]
							}
							break
						}
					}
					c.Violate(s.cs, "deadlock", map[string]string{"site": site},
						fmt.Sprintf("the call never returns: its goroutine and every goroutine it created have been parked for >= 2 minutes\n%s", trim(w, 6000)), nil)
					os.Exit(c.Finish())
				}
				if time.Since(s.start) > hard {
					c.Fatal("case %d (%s) still running after %v without being provably parked: inconclusive", s.cs.Idx, s.cs.Desc, hard)
					os.Exit(c.Finish())
				}
			}
		}
	}()
	return h
}

func (h *hangMon) begin(slot int, cs Case) {
	h.mu.Lock()
	s := h.slots[slot]
	if s.gid == 0 {
		s.gid = curGID()
	}
	s.cs, s.start, s.busy = cs, time.Now(), true
	h.mu.Unlock()
}

func (h *hangMon) end(slot int) {
	h.mu.Lock()
	h.slots[slot].busy = false
	h.mu.Unlock()
}
