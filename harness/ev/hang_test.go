package ev

import "testing"

const dumpDeadlock = `goroutine 1 [semacquire, 3 minutes]:
sync.runtime_Semacquire(0x1)
	/x/sema.go:71 +0x25
main.main()
	/x/main.go:10 +0x1

goroutine 40 [sync.WaitGroup.Wait, 2 minutes]:
sync.(*WaitGroup).Wait(0xc000)
	/x/waitgroup.go:118 +0x48
github.com/deepteams/webp/internal/lossless.argbToNRGBA({0x1}, 0x3e80, 0x9)
	/repo/internal/lossless/decode.go:370 +0x2a5
verif/ev.(*Ctx).safe(0x1, {0x1}, 0x2)
	/verif/harness/ev/ev.go:321 +0x5e
created by verif/ev.(*Ctx).RunCases in goroutine 1
	/verif/harness/ev/ev.go:294 +0x1

goroutine 77 [chan receive, 2 minutes]:
github.com/deepteams/webp/internal/lossless.worker()
	/repo/internal/lossless/decode.go:300 +0x2a5
created by github.com/deepteams/webp/internal/lossless.argbToNRGBA in goroutine 40
	/repo/internal/lossless/decode.go:360 +0x1
`

func TestDeadlocked(t *testing.T) {
	if ok, w := deadlocked(dumpDeadlock, 40, 2); !ok || w == "" {
		t.Fatal("parked call with parked children not recognised")
	}
	if ok, _ := deadlocked(dumpDeadlock, 40, 3); ok {
		t.Fatal("parked for less than the required minutes must not count")
	}
	// a child that is still running: slow, not stuck
	running := dumpDeadlock + "\ngoroutine 78 [runnable]:\ngithub.com/deepteams/webp/internal/lossless.worker()\n\t/repo/x.go:1 +0x1\ncreated by github.com/deepteams/webp/internal/lossless.worker in goroutine 77\n\t/repo/x.go:2 +0x1\n"
	if ok, _ := deadlocked(running, 40, 2); ok {
		t.Fatal("a running descendant means the call may still finish")
	}
	// parked, but not inside repository code (harness waiting on something else)
	if ok, _ := deadlocked(dumpDeadlock, 1, 2); ok {
		t.Fatal("goroutine without a repository frame must not count")
	}
}
