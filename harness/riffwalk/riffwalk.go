// Package riffwalk is a strict structural conformance walker for WebP files, written from the
// container specification, RFC 6386 §9 / §19 (VP8 frame header) and the VP8L header layout.
// It shares no code with the library under test.
package riffwalk

import (
	"encoding/binary"
	"fmt"
)

// Chunk is one top-level (or ANMF-nested) chunk.
type Chunk struct {
	ID      string
	Off     int // offset of the chunk header in the file
	Size    int // declared payload size
	Payload []byte
}

// Bitstream describes an image payload.
type Bitstream struct {
	Codec      string // "VP8 " or "VP8L"
	W, H       int
	AlphaBit   bool // VP8L header alpha_is_used
	Partitions int  // VP8: number of token partitions
	Part0Len   int
	Data       []byte
	// VP8 header fields read from the first partition
	ColorSpace, Clamp    int
	Segmentation         bool
	FilterType           int
	FilterLevel          int
	Sharpness            int
	SegFilter            [4]int
	SegFilterSet         bool
	SegAbs               bool
}

// Frame is one ANMF frame or the single still image.
type Frame struct {
	X, Y, W, H int
	Duration   int
	Blend      bool // true = alpha-blend (flag bit clear)
	Dispose    bool // true = dispose to background
	Alpha      []byte
	HasALPH    bool
	BS         *Bitstream
	Unknown    []Chunk
}

// Info is the walker's view of a file.
type Info struct {
	FileSize   int
	RIFFSize   int
	Extended   bool
	Flags      byte
	CanvasW    int
	CanvasH    int
	Chunks     []Chunk
	Animated   bool
	LoopCount  int
	Background uint32
	HasANIM    bool
	Frames     []Frame
	ICC        []byte
	EXIF       []byte
	XMP        []byte
	HasICC     bool
	HasEXIF    bool
	HasXMP     bool
}

// Issue is a violated structural rule.
type Issue struct {
	Rule string
	Msg  string
}

func (i Issue) String() string { return i.Rule + ": " + i.Msg }

const (
	FlagAnim  = 0x02
	FlagXMP   = 0x04
	FlagEXIF  = 0x08
	FlagAlpha = 0x10
	FlagICC   = 0x20
)

type walker struct {
	issues []Issue
}

func (w *walker) bad(rule, format string, a ...any) {
	w.issues = append(w.issues, Issue{rule, fmt.Sprintf(format, a...)})
}

// Walk checks data and returns what it saw together with every rule that was violated.
// A nil Info means the file is not recognisable as RIFF/WEBP at all.
func Walk(data []byte) (*Info, []Issue) {
	w := &walker{}
	info := w.walk(data)
	return info, w.issues
}

func (w *walker) walk(data []byte) *Info {
	if len(data) < 12 {
		w.bad("riff-header", "file shorter than 12 bytes (%d)", len(data))
		return nil
	}
	if string(data[0:4]) != "RIFF" || string(data[8:12]) != "WEBP" {
		w.bad("riff-header", "missing RIFF/WEBP signature")
		return nil
	}
	info := &Info{FileSize: len(data)}
	info.RIFFSize = int(binary.LittleEndian.Uint32(data[4:8]))
	if info.RIFFSize != len(data)-8 {
		w.bad("riff-size", "RIFF size field %d != file length-8 (%d)", info.RIFFSize, len(data)-8)
	}
	if info.RIFFSize%2 != 0 {
		w.bad("riff-size-even", "RIFF size %d is odd", info.RIFFSize)
	}
	chunks := w.chunks(data, 12, len(data), "top")
	info.Chunks = chunks
	if len(chunks) == 0 {
		w.bad("no-chunks", "no chunk after the RIFF header")
		return info
	}
	switch chunks[0].ID {
	case "VP8 ", "VP8L":
		if len(chunks) != 1 {
			w.bad("simple-single-chunk", "simple file has %d chunks, want exactly 1", len(chunks))
		}
		bs := w.bitstream(chunks[0].ID, chunks[0].Payload)
		if bs != nil {
			info.CanvasW, info.CanvasH = bs.W, bs.H
			info.Frames = []Frame{{W: bs.W, H: bs.H, BS: bs}}
		}
		return info
	case "VP8X":
	default:
		w.bad("first-chunk", "first chunk is %q, want VP8 /VP8L/VP8X", chunks[0].ID)
		return info
	}
	info.Extended = true
	x := chunks[0]
	if x.Size != 10 {
		w.bad("vp8x-size", "VP8X payload size %d != 10", x.Size)
		if len(x.Payload) < 10 {
			return info
		}
	}
	info.Flags = x.Payload[0]
	if info.Flags&0xC1 != 0 {
		w.bad("vp8x-reserved", "VP8X reserved flag bits set: %#02x", info.Flags)
	}
	if x.Payload[1] != 0 || x.Payload[2] != 0 || x.Payload[3] != 0 {
		w.bad("vp8x-reserved", "VP8X reserved bytes non-zero: % x", x.Payload[1:4])
	}
	info.CanvasW = 1 + int(x.Payload[4]) + int(x.Payload[5])<<8 + int(x.Payload[6])<<16
	info.CanvasH = 1 + int(x.Payload[7]) + int(x.Payload[8])<<8 + int(x.Payload[9])<<16
	if uint64(info.CanvasW)*uint64(info.CanvasH) > 1<<32-1 {
		w.bad("canvas-area", "canvas %dx%d exceeds 2^32-1 pixels", info.CanvasW, info.CanvasH)
	}
	info.Animated = info.Flags&FlagAnim != 0

	// order classes: ICCP(1) < ANIM(2) < image data (3) < EXIF(4) < XMP(5)
	stage := 0
	nImage := 0
	var still Frame
	haveStill := false
	pendingAlpha := false
	for i := 1; i < len(chunks); i++ {
		c := chunks[i]
		switch c.ID {
		case "VP8X":
			w.bad("dup-vp8x", "second VP8X chunk at %d", c.Off)
		case "ICCP":
			if info.HasICC {
				w.bad("dup-iccp", "more than one ICCP chunk")
			}
			if stage >= 2 {
				w.bad("order", "ICCP after image/animation data")
			}
			info.HasICC, info.ICC = true, c.Payload
			stage = max(stage, 1)
		case "ANIM":
			if info.HasANIM {
				w.bad("dup-anim", "more than one ANIM chunk")
			}
			if stage >= 3 {
				w.bad("order", "ANIM after frames")
			}
			if c.Size != 6 {
				w.bad("anim-size", "ANIM payload size %d != 6", c.Size)
			}
			if len(c.Payload) >= 6 {
				info.Background = binary.LittleEndian.Uint32(c.Payload[0:4])
				info.LoopCount = int(binary.LittleEndian.Uint16(c.Payload[4:6]))
			}
			info.HasANIM = true
			stage = max(stage, 2)
		case "ANMF":
			if stage > 3 {
				w.bad("order", "ANMF after EXIF/XMP")
			}
			if !info.HasANIM {
				w.bad("anmf-before-anim", "ANMF chunk without preceding ANIM")
			}
			stage = max(stage, 3)
			if f := w.anmf(c, info); f != nil {
				info.Frames = append(info.Frames, *f)
			}
			nImage++
		case "ALPH":
			if stage > 3 {
				w.bad("order", "ALPH after EXIF/XMP")
			}
			if haveStill || pendingAlpha {
				w.bad("dup-alph", "more than one ALPH / ALPH after image")
			}
			stage = max(stage, 3)
			still.Alpha, still.HasALPH = c.Payload, true
			pendingAlpha = true
			w.alph(c.Payload, "still")
		case "VP8 ", "VP8L":
			if stage > 3 {
				w.bad("order", "image data after EXIF/XMP")
			}
			if haveStill {
				w.bad("dup-image", "more than one image chunk in a still file")
			}
			stage = max(stage, 3)
			still.BS = w.bitstream(c.ID, c.Payload)
			if c.ID == "VP8L" && pendingAlpha {
				w.bad("alph-with-vp8l", "ALPH chunk before a VP8L image")
			}
			haveStill = true
			nImage++
		case "EXIF":
			if info.HasEXIF {
				w.bad("dup-exif", "more than one EXIF chunk")
			}
			if stage < 3 {
				w.bad("order", "EXIF before image data")
			}
			if stage > 4 {
				w.bad("order", "EXIF after XMP")
			}
			info.HasEXIF, info.EXIF = true, c.Payload
			stage = max(stage, 4)
		case "XMP ":
			if info.HasXMP {
				w.bad("dup-xmp", "more than one XMP chunk")
			}
			if stage < 3 {
				w.bad("order", "XMP before image data")
			}
			info.HasXMP, info.XMP = true, c.Payload
			stage = max(stage, 5)
		default:
			// unknown chunks are allowed after VP8X, except between ALPH and its VP8 chunk
			// (image data = ALPH? bitstream, contiguous)
			if pendingAlpha && !haveStill {
				w.bad("alph-image-interrupted", "chunk %q between ALPH and the image chunk", c.ID)
			}
		}
	}
	if pendingAlpha && !haveStill {
		w.bad("alph-without-image", "ALPH chunk without a following VP8 chunk")
	}
	if info.Animated {
		if haveStill {
			w.bad("anim-with-still", "animation flag set but a bare image chunk is present")
		}
		if !info.HasANIM {
			w.bad("anim-flag-no-anim", "animation flag set without ANIM chunk")
		}
		if len(info.Frames) == 0 {
			w.bad("anim-no-frames", "animation flag set without any ANMF frame")
		}
	} else {
		if info.HasANIM || hasID(chunks, "ANMF") {
			w.bad("anim-chunks-no-flag", "ANIM/ANMF chunks present without animation flag")
		}
		if !haveStill {
			w.bad("no-image", "extended still file without image chunk")
		} else if still.BS != nil {
			still.W, still.H = still.BS.W, still.BS.H
			info.Frames = []Frame{still}
			if still.BS.W != info.CanvasW || still.BS.H != info.CanvasH {
				w.bad("still-canvas-ne-image", "VP8X canvas %dx%d != image %dx%d", info.CanvasW, info.CanvasH, still.BS.W, still.BS.H)
			}
		}
	}
	// flags <=> chunks
	if (info.Flags&FlagICC != 0) != info.HasICC {
		w.bad("flag-icc", "ICC flag %v but ICCP chunk present=%v", info.Flags&FlagICC != 0, info.HasICC)
	}
	if (info.Flags&FlagEXIF != 0) != info.HasEXIF {
		w.bad("flag-exif", "EXIF flag %v but EXIF chunk present=%v", info.Flags&FlagEXIF != 0, info.HasEXIF)
	}
	if (info.Flags&FlagXMP != 0) != info.HasXMP {
		w.bad("flag-xmp", "XMP flag %v but XMP chunk present=%v", info.Flags&FlagXMP != 0, info.HasXMP)
	}
	anyAlpha := false
	for _, f := range info.Frames {
		if f.HasALPH || (f.BS != nil && f.BS.Codec == "VP8L" && f.BS.AlphaBit) {
			anyAlpha = true
		}
	}
	if anyAlpha && info.Flags&FlagAlpha == 0 {
		w.bad("flag-alpha-missing", "a frame carries alpha (ALPH chunk or VP8L alpha bit) but the VP8X alpha flag is clear")
	}
	if !anyAlpha && info.Flags&FlagAlpha != 0 {
		w.bad("flag-alpha-spurious", "VP8X alpha flag set but no frame carries alpha")
	}
	return info
}

func hasID(cs []Chunk, id string) bool {
	for _, c := range cs {
		if c.ID == id {
			return true
		}
	}
	return false
}

func (w *walker) chunks(data []byte, off, end int, where string) []Chunk {
	var out []Chunk
	for off < end {
		if end-off < 8 {
			w.bad("chunk-header-truncated", "%s: %d stray bytes at offset %d", where, end-off, off)
			break
		}
		id := string(data[off : off+4])
		size := int(binary.LittleEndian.Uint32(data[off+4 : off+8]))
		for _, ch := range []byte(id) {
			if ch < 0x20 || ch > 0x7e {
				w.bad("chunk-id", "%s: non-printable FourCC % x at %d", where, id, off)
				break
			}
		}
		if size > end-off-8 {
			w.bad("chunk-size", "%s: chunk %q at %d declares %d bytes, only %d remain", where, id, off, size, end-off-8)
			break
		}
		c := Chunk{ID: id, Off: off, Size: size, Payload: data[off+8 : off+8+size]}
		out = append(out, c)
		off += 8 + size
		if size%2 == 1 {
			if off >= end {
				w.bad("chunk-pad-missing", "%s: odd-sized chunk %q without pad byte", where, id)
				break
			}
			if data[off] != 0 {
				w.bad("chunk-pad-nonzero", "%s: pad byte after %q is %#02x", where, id, data[off])
			}
			off++
		}
	}
	return out
}

func (w *walker) anmf(c Chunk, info *Info) *Frame {
	if len(c.Payload) < 16 {
		w.bad("anmf-size", "ANMF payload %d < 16", len(c.Payload))
		return nil
	}
	p := c.Payload
	le24 := func(b []byte) int { return int(b[0]) | int(b[1])<<8 | int(b[2])<<16 }
	f := &Frame{X: 2 * le24(p[0:3]), Y: 2 * le24(p[3:6]), W: 1 + le24(p[6:9]), H: 1 + le24(p[9:12]), Duration: le24(p[12:15])}
	fl := p[15]
	if fl&0xFC != 0 {
		w.bad("anmf-reserved", "ANMF reserved bits set: %#02x", fl)
	}
	f.Blend = fl&0x02 == 0
	f.Dispose = fl&0x01 != 0
	if f.X+f.W > info.CanvasW || f.Y+f.H > info.CanvasH {
		w.bad("frame-outside-canvas", "frame %d,%d %dx%d outside canvas %dx%d", f.X, f.Y, f.W, f.H, info.CanvasW, info.CanvasH)
	}
	sub := w.chunks(p, 16, len(p), "ANMF")
	consumed := 16
	for _, s := range sub {
		consumed = s.Off + 8 + s.Size + s.Size%2
	}
	if consumed != len(p) {
		w.bad("anmf-payload-size", "ANMF payload %d bytes but sub-chunks end at %d", len(p), consumed)
	}
	seenImg := false
	for _, s := range sub {
		switch s.ID {
		case "ALPH":
			if seenImg || f.HasALPH {
				w.bad("anmf-alph-order", "ALPH after image / duplicated inside ANMF")
			}
			f.Alpha, f.HasALPH = s.Payload, true
			w.alph(s.Payload, "ANMF")
		case "VP8 ", "VP8L":
			if seenImg {
				w.bad("anmf-dup-image", "two image chunks in one ANMF")
			}
			seenImg = true
			f.BS = w.bitstream(s.ID, s.Payload)
			if s.ID == "VP8L" && f.HasALPH {
				w.bad("alph-with-vp8l", "ALPH with VP8L inside ANMF")
			}
		default:
			if !seenImg {
				w.bad("anmf-unknown-before-image", "unknown chunk %q before the image inside ANMF", s.ID)
			}
			f.Unknown = append(f.Unknown, s)
		}
	}
	if !seenImg {
		w.bad("anmf-no-image", "ANMF without image chunk")
	} else if f.BS != nil && (f.BS.W != f.W || f.BS.H != f.H) {
		w.bad("anmf-dim-mismatch", "ANMF says %dx%d, bitstream says %dx%d", f.W, f.H, f.BS.W, f.BS.H)
	}
	return f
}

func (w *walker) alph(p []byte, where string) {
	if len(p) < 1 {
		w.bad("alph-empty", "%s: empty ALPH chunk", where)
		return
	}
	h := p[0]
	if h>>6 != 0 {
		w.bad("alph-reserved", "%s: ALPH reserved bits set (%#02x)", where, h)
	}
	if h&3 > 1 {
		w.bad("alph-method", "%s: ALPH compression method %d", where, h&3)
	}
	if (h>>4)&3 > 1 {
		w.bad("alph-preproc", "%s: ALPH pre-processing %d", where, (h>>4)&3)
	}
}

// ALPHHeader decodes the ALPH header byte.
func ALPHHeader(p []byte) (method, filter, preproc int, ok bool) {
	if len(p) < 1 {
		return 0, 0, 0, false
	}
	return int(p[0] & 3), int(p[0]>>2) & 3, int(p[0]>>4) & 3, true
}

func (w *walker) bitstream(id string, p []byte) *Bitstream {
	if id == "VP8L" {
		if len(p) < 5 {
			w.bad("vp8l-header", "VP8L payload %d < 5 bytes", len(p))
			return nil
		}
		if p[0] != 0x2f {
			w.bad("vp8l-signature", "VP8L signature %#02x", p[0])
			return nil
		}
		bits := binary.LittleEndian.Uint32(p[1:5])
		bs := &Bitstream{Codec: "VP8L", W: int(bits&0x3fff) + 1, H: int((bits>>14)&0x3fff) + 1, AlphaBit: (bits>>28)&1 != 0, Data: p}
		if bits>>29 != 0 {
			w.bad("vp8l-version", "VP8L version %d", bits>>29)
		}
		return bs
	}
	if len(p) < 10 {
		w.bad("vp8-header", "VP8 payload %d < 10 bytes", len(p))
		return nil
	}
	tag := uint32(p[0]) | uint32(p[1])<<8 | uint32(p[2])<<16
	if tag&1 != 0 {
		w.bad("vp8-keyframe", "VP8 frame is not a key frame")
		return nil
	}
	if (tag>>1)&7 > 3 {
		w.bad("vp8-version", "VP8 version %d > 3", (tag>>1)&7)
	}
	if (tag>>4)&1 == 0 {
		w.bad("vp8-show", "VP8 show_frame bit clear")
	}
	part0 := int(tag >> 5)
	if p[3] != 0x9d || p[4] != 0x01 || p[5] != 0x2a {
		w.bad("vp8-startcode", "VP8 start code % x", p[3:6])
		return nil
	}
	wd := int(binary.LittleEndian.Uint16(p[6:8]))
	ht := int(binary.LittleEndian.Uint16(p[8:10]))
	bs := &Bitstream{Codec: "VP8 ", W: wd & 0x3fff, H: ht & 0x3fff, Part0Len: part0, Data: p}
	if wd>>14 != 0 || ht>>14 != 0 {
		w.bad("vp8-scale", "VP8 scaling bits set (%d,%d)", wd>>14, ht>>14)
	}
	if bs.W == 0 || bs.H == 0 {
		w.bad("vp8-dims", "VP8 zero dimension %dx%d", bs.W, bs.H)
	}
	if 10+part0 > len(p) {
		w.bad("vp8-part0", "first partition length %d exceeds payload (%d after header)", part0, len(p)-10)
		return bs
	}
	if part0 < 2 {
		w.bad("vp8-part0", "first partition length %d too small", part0)
		return bs
	}
	// frame header inside the first partition
	d := newBool(p[10 : 10+part0])
	bs.ColorSpace = d.bit()
	bs.Clamp = d.bit()
	if d.bit() == 1 { // segmentation_enabled
		bs.Segmentation = true
		updMap := d.bit()
		updData := d.bit()
		if updData == 1 {
			bs.SegAbs = d.bit() == 1
			for i := 0; i < 4; i++ {
				if d.bit() == 1 {
					d.lit(7)
					d.bit()
				}
			}
			for i := 0; i < 4; i++ {
				if d.bit() == 1 {
					v := d.lit(6)
					if d.bit() == 1 {
						v = -v
					}
					bs.SegFilter[i] = v
					bs.SegFilterSet = true
				}
			}
		}
		if updMap == 1 {
			for i := 0; i < 3; i++ {
				if d.bit() == 1 {
					d.lit(8)
				}
			}
		}
	}
	bs.FilterType = d.bit()
	bs.FilterLevel = d.lit(6)
	bs.Sharpness = d.lit(3)
	if d.bit() == 1 { // loop_filter_adj_enable
		if d.bit() == 1 {
			for i := 0; i < 8; i++ {
				if d.bit() == 1 {
					d.lit(6)
					d.bit()
				}
			}
		}
	}
	nlog := d.lit(2)
	bs.Partitions = 1 << nlog
	if d.eof {
		w.bad("vp8-part0", "first partition ends inside the frame header")
		return bs
	}
	tbl := 10 + part0
	need := 3 * (bs.Partitions - 1)
	if tbl+need > len(p) {
		w.bad("vp8-partition-table", "partition size table (%d bytes) does not fit in payload", need)
		return bs
	}
	sum := 0
	for i := 0; i < bs.Partitions-1; i++ {
		sum += int(p[tbl+3*i]) | int(p[tbl+3*i+1])<<8 | int(p[tbl+3*i+2])<<16
	}
	if tbl+need+sum > len(p) {
		w.bad("vp8-partition-sizes", "token partition sizes sum to %d, only %d bytes remain", sum, len(p)-tbl-need)
	}
	return bs
}

// EffectiveFilterOff reports whether every macroblock's loop-filter level is 0 judging from the
// frame header alone (no lf deltas applied by the encoder under test are considered: when
// segment filter strengths are present all must be zero too).
func (b *Bitstream) EffectiveFilterOff() bool {
	if b.Codec != "VP8 " {
		return true
	}
	if b.FilterLevel != 0 {
		if !(b.Segmentation && b.SegFilterSet && b.SegAbs) {
			return false
		}
	}
	if b.Segmentation && b.SegFilterSet {
		for _, v := range b.SegFilter {
			if b.SegAbs && v != 0 {
				return false
			}
			if !b.SegAbs && b.FilterLevel+v > 0 {
				return false
			}
		}
		return b.SegAbs || b.FilterLevel == 0
	}
	return b.FilterLevel == 0
}

type boolDec struct {
	data  []byte
	pos   int
	value uint32
	rng   uint32
	count int
	eof   bool
}

func newBool(b []byte) *boolDec {
	d := &boolDec{data: b, rng: 255}
	d.value = uint32(d.next())<<8 | uint32(d.next())
	return d
}

func (d *boolDec) next() byte {
	if d.pos < len(d.data) {
		v := d.data[d.pos]
		d.pos++
		return v
	}
	d.pos++
	if d.pos > len(d.data)+2 {
		d.eof = true
	}
	return 0
}

func (d *boolDec) read(prob uint32) int {
	split := 1 + (((d.rng - 1) * prob) >> 8)
	big := split << 8
	var r int
	if d.value >= big {
		r = 1
		d.rng -= split
		d.value -= big
	} else {
		d.rng = split
	}
	for d.rng < 128 {
		d.value <<= 1
		d.rng <<= 1
		d.count++
		if d.count == 8 {
			d.count = 0
			d.value |= uint32(d.next())
		}
	}
	return r
}

func (d *boolDec) bit() int { return d.read(128) }
func (d *boolDec) lit(n int) int {
	v := 0
	for i := 0; i < n; i++ {
		v = v<<1 | d.bit()
	}
	return v
}
