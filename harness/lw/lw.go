// Package lw is a cgo shim over the system's libwebp.so.7 (1.2.4). No headers are
// installed, so the prototypes and the few structs needed are declared here by hand.
// It is the independent reference decoder/encoder used by the differential monitors.
package lw

/*
#cgo LDFLAGS: -L/usr/lib/x86_64-linux-gnu -l:libwebp.so.7
#include <stdint.h>
#include <stddef.h>
#include <string.h>
#include <stdlib.h>

extern int WebPGetDecoderVersion(void);
extern int WebPGetEncoderVersion(void);
extern int WebPGetInfo(const uint8_t* data, size_t size, int* w, int* h);
extern uint8_t* WebPDecodeRGBA(const uint8_t* data, size_t size, int* w, int* h);
extern uint8_t* WebPDecodeYUV(const uint8_t* data, size_t size, int* w, int* h,
                              uint8_t** u, uint8_t** v, int* stride, int* uv_stride);
extern void WebPFree(void* p);
extern size_t WebPEncodeRGBA(const uint8_t* rgba, int w, int h, int stride, float q, uint8_t** out);
extern size_t WebPEncodeLosslessRGBA(const uint8_t* rgba, int w, int h, int stride, uint8_t** out);

typedef struct { uint8_t* rgba; int stride; size_t size; } LWRGBABuffer;
typedef struct { uint8_t *y,*u,*v,*a; int y_stride,u_stride,v_stride,a_stride; size_t y_size,u_size,v_size,a_size; } LWYUVABuffer;
typedef struct {
  int colorspace; int width, height; int is_external_memory;
  union { LWRGBABuffer RGBA; LWYUVABuffer YUVA; } u;
  uint32_t pad[4];
  uint8_t* private_memory;
} LWDecBuffer;
typedef struct { int width,height,has_alpha,has_animation,format; uint32_t pad[5]; } LWFeatures;
typedef struct {
  int bypass_filtering; int no_fancy_upsampling; int use_cropping; int crop_left, crop_top; int crop_width, crop_height;
  int use_scaling; int scaled_width, scaled_height; int use_threads; int dithering_strength; int flip; int alpha_dithering_strength;
  uint32_t pad[5];
} LWDecOptions;
typedef struct { LWFeatures input; LWDecBuffer output; LWDecOptions options; } LWDecoderConfig;

extern int WebPInitDecoderConfigInternal(LWDecoderConfig*, int version);
extern int WebPDecode(const uint8_t* data, size_t size, LWDecoderConfig* config);
extern void WebPFreeDecBuffer(LWDecBuffer*);
extern int WebPGetFeaturesInternal(const uint8_t* data, size_t size, LWFeatures* f, int version);

typedef struct {
  int lossless; float quality; int method; int image_hint;
  int target_size; float target_PSNR; int segments; int sns_strength; int filter_strength; int filter_sharpness; int filter_type; int autofilter;
  int alpha_compression; int alpha_filtering; int alpha_quality; int pass; int show_compressed; int preprocessing; int partitions; int partition_limit;
  int emulate_jpeg_size; int thread_level; int low_memory; int near_lossless; int exact; int use_delta_palette; int use_sharp_yuv; int qmin; int qmax;
} LWConfig;

typedef struct LWPicture LWPicture;
typedef int (*LWWriterFunction)(const uint8_t* data, size_t data_size, const LWPicture* picture);
struct LWPicture {
  int use_argb; int colorspace; int width, height; uint8_t *y, *u, *v; int y_stride, uv_stride; uint8_t* a; int a_stride; uint32_t pad1[2];
  uint32_t* argb; int argb_stride; uint32_t pad2[3];
  LWWriterFunction writer; void* custom_ptr; int extra_info_type; uint8_t* extra_info;
  void* stats; int error_code; void* progress_hook; void* user_data;
  uint32_t pad3[3]; uint8_t* pad4, *pad5; uint32_t pad6[8];
  void* memory_; void* memory_argb_; void* pad7[2];
};
typedef struct { uint8_t* mem; size_t size; size_t max_size; uint32_t pad[1]; } LWMemoryWriter;

extern int WebPConfigInitInternal(LWConfig*, int preset, float quality, int version);
extern int WebPValidateConfig(const LWConfig*);
extern int WebPPictureInitInternal(LWPicture*, int version);
extern int WebPPictureImportRGBA(LWPicture*, const uint8_t* rgba, int stride);
extern void WebPPictureFree(LWPicture*);
extern void WebPMemoryWriterInit(LWMemoryWriter*);
extern void WebPMemoryWriterClear(LWMemoryWriter*);
extern int WebPMemoryWrite(const uint8_t* data, size_t data_size, const LWPicture* picture);
extern int WebPEncode(const LWConfig*, LWPicture*);

#define LW_DEC_ABI 0x0209
#define LW_ENC_ABI 0x020f

// mode: 1 = RGBA, 11 = YUV, 12 = YUVA
static int lw_decode_adv(const uint8_t* data, size_t size, int mode, int bypass, int nofancy, LWDecoderConfig* cfg) {
  if (!WebPInitDecoderConfigInternal(cfg, LW_DEC_ABI)) return -1;
  cfg->output.colorspace = mode;
  cfg->options.bypass_filtering = bypass;
  cfg->options.no_fancy_upsampling = nofancy;
  return WebPDecode(data, size, cfg);
}
static int lw_features(const uint8_t* data, size_t size, LWFeatures* f) {
  return WebPGetFeaturesInternal(data, size, f, LW_DEC_ABI);
}
static int lw_sizes(int* cfg, int* pic, int* dec) { *cfg = sizeof(LWConfig); *pic = sizeof(LWPicture); *dec = sizeof(LWDecoderConfig); return 0; }

// returns error code (0 ok), out/outsize set on success
static int lw_encode_adv(const LWConfig* in, const uint8_t* rgba, int w, int h, int stride, uint8_t** out, size_t* outsize) {
  LWConfig cfg; LWPicture pic; LWMemoryWriter wr;
  if (!WebPConfigInitInternal(&cfg, 0, 75.f, LW_ENC_ABI)) return -1;
  cfg = *in;
  if (!WebPValidateConfig(&cfg)) return -2;
  if (!WebPPictureInitInternal(&pic, LW_ENC_ABI)) return -3;
  pic.use_argb = 1; // let the library convert (also required for lossless)
  pic.width = w; pic.height = h;
  if (!WebPPictureImportRGBA(&pic, rgba, stride)) { WebPPictureFree(&pic); return -4; }
  WebPMemoryWriterInit(&wr);
  pic.writer = WebPMemoryWrite;
  pic.custom_ptr = &wr;
  int ok = WebPEncode(&cfg, &pic);
  int ec = pic.error_code;
  WebPPictureFree(&pic);
  if (!ok) { WebPMemoryWriterClear(&wr); return 100 + ec; }
  *out = wr.mem; *outsize = wr.size;
  return 0;
}
static int lw_config_init(LWConfig* cfg) { return WebPConfigInitInternal(cfg, 0, 75.f, LW_ENC_ABI); }
*/
import "C"

import (
	"errors"
	"fmt"
	"sync"
	"unsafe"
)


// DefaultConfig returns libwebp's WebPConfigInit defaults.
func DefaultConfig() Config {
	var c C.LWConfig
	C.lw_config_init(&c)
	return Config{
		Lossless: int(c.lossless), Quality: float32(c.quality), Method: int(c.method), ImageHint: int(c.image_hint),
		TargetSize: int(c.target_size), TargetPSNR: float32(c.target_PSNR), Segments: int(c.segments),
		SNSStrength: int(c.sns_strength), FilterStrength: int(c.filter_strength), FilterSharpness: int(c.filter_sharpness),
		FilterType: int(c.filter_type), Autofilter: int(c.autofilter), AlphaCompression: int(c.alpha_compression),
		AlphaFiltering: int(c.alpha_filtering), AlphaQuality: int(c.alpha_quality), Pass: int(c.pass),
		Preprocessing: int(c.preprocessing), Partitions: int(c.partitions), PartitionLimit: int(c.partition_limit),
		NearLossless: int(c.near_lossless), Exact: int(c.exact), UseSharpYUV: int(c.use_sharp_yuv),
		QMin: int(c.qmin), QMax: int(c.qmax),
	}
}

func ptr(b []byte) *C.uint8_t {
	if len(b) == 0 {
		return nil
	}
	return (*C.uint8_t)(unsafe.Pointer(&b[0]))
}

// Version returns decoder and encoder version numbers (0x010204 for 1.2.4).
func Version() (dec, enc int) {
	return int(C.WebPGetDecoderVersion()), int(C.WebPGetEncoderVersion())
}

// GetInfo returns the dimensions libwebp reads from the headers.
func GetInfo(data []byte) (w, h int, ok bool) {
	var cw, ch C.int
	r := C.WebPGetInfo(ptr(data), C.size_t(len(data)), &cw, &ch)
	return int(cw), int(ch), r != 0
}


// GetFeatures returns libwebp's view of the headers; status 0 = OK.
func GetFeatures(data []byte) (Features, int) {
	var f C.LWFeatures
	st := C.lw_features(ptr(data), C.size_t(len(data)), &f)
	return Features{int(f.width), int(f.height), f.has_alpha != 0, f.has_animation != 0, int(f.format)}, int(st)
}

// DecodeRGBA decodes to non-premultiplied RGBA (tight stride).
func DecodeRGBA(data []byte) (pix []byte, w, h int, err error) {
	var cw, ch C.int
	p := C.WebPDecodeRGBA(ptr(data), C.size_t(len(data)), &cw, &ch)
	if p == nil {
		return nil, 0, 0, errors.New("libwebp: decode failed")
	}
	defer C.WebPFree(unsafe.Pointer(p))
	w, h = int(cw), int(ch)
	pix = C.GoBytes(unsafe.Pointer(p), C.int(w*h*4))
	return pix, w, h, nil
}


// DecodeYUV decodes a lossy file to planes (loop filter applied unless bypass).
func DecodeYUV(data []byte, bypassFilter bool) (*YUV, error) {
	var cfg C.LWDecoderConfig
	b := C.int(0)
	if bypassFilter {
		b = 1
	}
	st := C.lw_decode_adv(ptr(data), C.size_t(len(data)), 12, b, 0, &cfg)
	if st != 0 {
		C.WebPFreeDecBuffer(&cfg.output)
		return nil, fmt.Errorf("libwebp: WebPDecode status %d", int(st))
	}
	defer C.WebPFreeDecBuffer(&cfg.output)
	w, h := int(cfg.output.width), int(cfg.output.height)
	yuva := (*C.LWYUVABuffer)(unsafe.Pointer(&cfg.output.u))
	uw, uh := (w+1)/2, (h+1)/2
	out := &YUV{W: w, H: h}
	out.Y = copyPlane(unsafe.Pointer(yuva.y), int(yuva.y_stride), w, h)
	out.U = copyPlane(unsafe.Pointer(yuva.u), int(yuva.u_stride), uw, uh)
	out.V = copyPlane(unsafe.Pointer(yuva.v), int(yuva.v_stride), uw, uh)
	if yuva.a != nil {
		out.A = copyPlane(unsafe.Pointer(yuva.a), int(yuva.a_stride), w, h)
	}
	return out, nil
}

// DecodeRGBAAdv decodes to RGBA through the advanced API.
func DecodeRGBAAdv(data []byte, bypassFilter, noFancy bool) (pix []byte, w, h int, err error) {
	var cfg C.LWDecoderConfig
	b, nf := C.int(0), C.int(0)
	if bypassFilter {
		b = 1
	}
	if noFancy {
		nf = 1
	}
	st := C.lw_decode_adv(ptr(data), C.size_t(len(data)), 1, b, nf, &cfg)
	if st != 0 {
		C.WebPFreeDecBuffer(&cfg.output)
		return nil, 0, 0, fmt.Errorf("libwebp: WebPDecode status %d", int(st))
	}
	defer C.WebPFreeDecBuffer(&cfg.output)
	w, h = int(cfg.output.width), int(cfg.output.height)
	rgba := (*C.LWRGBABuffer)(unsafe.Pointer(&cfg.output.u))
	pix = copyPlane(unsafe.Pointer(rgba.rgba), int(rgba.stride), w*4, h)
	return pix, w, h, nil
}

func copyPlane(p unsafe.Pointer, stride, w, h int) []byte {
	out := make([]byte, w*h)
	for y := 0; y < h; y++ {
		src := unsafe.Slice((*byte)(unsafe.Add(p, y*stride)), w)
		copy(out[y*w:], src)
	}
	return out
}

// EncodeSimple uses the simple API (lossy with quality q, or lossless).
func EncodeSimple(rgba []byte, w, h int, lossless bool, q float32) ([]byte, error) {
	var out *C.uint8_t
	var n C.size_t
	if lossless {
		n = C.WebPEncodeLosslessRGBA(ptr(rgba), C.int(w), C.int(h), C.int(w*4), &out)
	} else {
		n = C.WebPEncodeRGBA(ptr(rgba), C.int(w), C.int(h), C.int(w*4), C.float(q), &out)
	}
	if n == 0 || out == nil {
		return nil, errors.New("libwebp: encode failed")
	}
	defer C.WebPFree(unsafe.Pointer(out))
	return C.GoBytes(unsafe.Pointer(out), C.int(n)), nil
}

// Encode uses the advanced API with a full configuration.
func Encode(rgba []byte, w, h int, c Config) ([]byte, error) {
	var cc C.LWConfig
	C.lw_config_init(&cc)
	cc.lossless = C.int(c.Lossless)
	cc.quality = C.float(c.Quality)
	cc.method = C.int(c.Method)
	cc.image_hint = C.int(c.ImageHint)
	cc.target_size = C.int(c.TargetSize)
	cc.target_PSNR = C.float(c.TargetPSNR)
	cc.segments = C.int(c.Segments)
	cc.sns_strength = C.int(c.SNSStrength)
	cc.filter_strength = C.int(c.FilterStrength)
	cc.filter_sharpness = C.int(c.FilterSharpness)
	cc.filter_type = C.int(c.FilterType)
	cc.autofilter = C.int(c.Autofilter)
	cc.alpha_compression = C.int(c.AlphaCompression)
	cc.alpha_filtering = C.int(c.AlphaFiltering)
	cc.alpha_quality = C.int(c.AlphaQuality)
	cc.pass = C.int(c.Pass)
	cc.preprocessing = C.int(c.Preprocessing)
	cc.partitions = C.int(c.Partitions)
	cc.partition_limit = C.int(c.PartitionLimit)
	cc.near_lossless = C.int(c.NearLossless)
	cc.exact = C.int(c.Exact)
	cc.use_sharp_yuv = C.int(c.UseSharpYUV)
	cc.qmin = C.int(c.QMin)
	cc.qmax = C.int(c.QMax)
	cc.thread_level = 0
	var out *C.uint8_t
	var n C.size_t
	rc := C.lw_encode_adv(&cc, ptr(rgba), C.int(w), C.int(h), C.int(w*4), &out, &n)
	if rc != 0 {
		return nil, fmt.Errorf("libwebp: advanced encode failed rc=%d", int(rc))
	}
	defer C.WebPFree(unsafe.Pointer(out))
	return C.GoBytes(unsafe.Pointer(out), C.int(n)), nil
}

var (
	selfOnce sync.Once
	selfErr  error
)

// SelfTest verifies that the hand-declared ABI matches the loaded library.
func SelfTest() error {
	selfOnce.Do(func() { selfErr = selfTest() })
	return selfErr
}

func selfTest() error {
	var a, b, c C.int
	C.lw_sizes(&a, &b, &c)
	if a != 116 || b != 256 || c != 240 {
		return fmt.Errorf("struct sizes %d/%d/%d != 116/256/240", a, b, c)
	}
	dv, evn := Version()
	if dv>>8 != 0x0102 || evn>>8 != 0x0102 {
		return fmt.Errorf("unexpected libwebp version %x/%x", dv, evn)
	}
	const w, h = 37, 29
	rgba := make([]byte, w*h*4)
	s := uint32(12345)
	for i := range rgba {
		s = s*1664525 + 1013904223
		rgba[i] = byte(s >> 24)
		if i%4 == 3 && rgba[i] < 40 {
			rgba[i] = 255
		}
	}
	// lossless exact round trip through both encoders and both decoders
	cfg := DefaultConfig()
	cfg.Lossless = 1
	cfg.Exact = 1
	for i, enc := range []func() ([]byte, error){
		func() ([]byte, error) { return Encode(rgba, w, h, cfg) },
	} {
		data, err := enc()
		if err != nil {
			return fmt.Errorf("selftest encode %d: %v", i, err)
		}
		p1, w1, h1, err := DecodeRGBA(data)
		if err != nil || w1 != w || h1 != h || string(p1) != string(rgba) {
			return fmt.Errorf("selftest lossless roundtrip %d failed (simple decode)", i)
		}
		p2, w2, h2, err := DecodeRGBAAdv(data, false, false)
		if err != nil || w2 != w || h2 != h || string(p2) != string(rgba) {
			return fmt.Errorf("selftest lossless roundtrip %d failed (advanced decode)", i)
		}
		f, st := GetFeatures(data)
		if st != 0 || f.Width != w || f.Height != h || f.Format != 2 {
			return fmt.Errorf("selftest features %+v st=%d", f, st)
		}
	}
	// lossy: bypass_filtering must change a filtered file and leave an unfiltered file alone
	lc := DefaultConfig()
	lc.Quality = 10
	lc.FilterStrength = 80
	lc.Segments = 1
	// smooth colour content (blocking artefacts for the loop filter to act on), noisy alpha kept
	for i := 0; i < w*h; i++ {
		x, y := i%w, i/w
		rgba[i*4], rgba[i*4+1], rgba[i*4+2] = byte(x*6+y), byte(y*7), byte(200-x*3-y*2)
	}
	data, err := Encode(rgba, w, h, lc)
	if err != nil {
		return fmt.Errorf("selftest lossy encode: %v", err)
	}
	y1, err := DecodeYUV(data, false)
	if err != nil {
		return err
	}
	y2, err := DecodeYUV(data, true)
	if err != nil {
		return err
	}
	if string(y1.Y) == string(y2.Y) {
		return errors.New("selftest: bypass_filtering had no effect on a filtered file")
	}
	if y1.A == nil {
		return errors.New("selftest: no alpha plane from lossy+alpha file")
	}
	for i := 0; i < w*h; i++ {
		if y1.A[i] != rgba[i*4+3] {
			return errors.New("selftest: alpha plane mismatch")
		}
	}
	lc.FilterStrength = 0
	data, err = Encode(rgba, w, h, lc)
	if err != nil {
		return err
	}
	y1, _ = DecodeYUV(data, false)
	y2, _ = DecodeYUV(data, true)
	if y1 == nil || y2 == nil || string(y1.Y) != string(y2.Y) || string(y1.U) != string(y2.U) {
		return errors.New("selftest: bypass_filtering changed an unfiltered file")
	}
	// simple YUV API agrees with advanced
	return nil
}
