//go:build !cgo

package lw

import "errors"

// Builds without cgo (GOOS=js GOARCH=wasm, the truly portable build that C13 executes under node) have no libwebp:
// every call reports that, and SelfTest fails, which is what the checks ask before they use the reference.
var errNoCgo = errors.New("libwebp: not available in a build without cgo")

func DefaultConfig() Config                                  { return Config{Quality: 75, Method: 4} }
func Version() (dec, enc int)                                { return 0, 0 }
func GetInfo(data []byte) (w, h int, ok bool)                { return 0, 0, false }
func GetFeatures(data []byte) (Features, int)                { return Features{}, -1 }
func DecodeRGBA(data []byte) (pix []byte, w, h int, err error) { return nil, 0, 0, errNoCgo }
func DecodeYUV(data []byte, bypassFilter bool) (*YUV, error) { return nil, errNoCgo }
func DecodeRGBAAdv(data []byte, bypassFilter, noFancy bool) (pix []byte, w, h int, err error) {
	return nil, 0, 0, errNoCgo
}
func EncodeSimple(rgba []byte, w, h int, lossless bool, q float32) ([]byte, error) { return nil, errNoCgo }
func Encode(rgba []byte, w, h int, c Config) ([]byte, error)                       { return nil, errNoCgo }
func SelfTest() error                                                             { return errNoCgo }
