package lw

// Config mirrors WebPConfig (libwebp 1.2.4).
type Config struct {
	Lossless        int
	Quality         float32
	Method          int
	ImageHint       int
	TargetSize      int
	TargetPSNR      float32
	Segments        int
	SNSStrength     int
	FilterStrength  int
	FilterSharpness int
	FilterType      int
	Autofilter      int
	AlphaCompression int
	AlphaFiltering  int
	AlphaQuality    int
	Pass            int
	Preprocessing   int
	Partitions      int
	PartitionLimit  int
	NearLossless    int
	Exact           int
	UseSharpYUV     int
	QMin, QMax      int
}

// Features mirrors WebPBitstreamFeatures.
type Features struct {
	Width, Height      int
	HasAlpha, HasAnim  bool
	Format             int // 0 undefined/mixed, 1 lossy, 2 lossless
}

// YUV holds tight-stride planes.
type YUV struct {
	W, H       int
	Y, U, V, A []byte
}
