//go:build verif

// Verification overlay (never part of the repository). Injected by /verif/tools/mkoverlay.py as
// internal/dsp/verifkern_verif.go. Kernel-level exerciser for property C13: every kernel is called
// through the entry point the library itself uses (dispatch variables, *Direct wrappers, exported
// helpers) with corner vectors followed by n seeded random vectors; one digest line per kernel.
// Only identifiers that exist in the amd64, the VERIF_NOAVX2 and the portable (!amd64) build are used.
//
// Debug aids (environment):
//   VERIF_KERN_ONLY=<prefix>   run only kernels whose name starts with <prefix> ("<name>$" = exact match)
//   VERIF_KERN_DUMP=<name>     print every vector (inputs and outputs, hex) of kernel <name> to stderr
//   VERIF_KERN_TIME=1          print per-kernel wall time to stderr

package dsp

import (
	"crypto/sha256"
	"encoding/hex"
	"fmt"
	"hash"
	"math"
	"os"
	"sort"
	"strings"
	"time"
)

// ---------------------------------------------------------------------------------------------
// Infrastructure shared with the internal/lossy exerciser.

// VerifDigest accumulates all outputs of one kernel.
type VerifDigest struct {
	Name string
	h    hash.Hash
	buf  []byte
	dump bool
	idx  int
}

func VerifNewDigest(name string) *VerifDigest {
	return &VerifDigest{Name: name, h: sha256.New(), buf: make([]byte, 0, 8192), dump: os.Getenv("VERIF_KERN_DUMP") == name}
}

func (d *VerifDigest) flush() {
	if len(d.buf) > 0 {
		d.h.Write(d.buf)
		d.buf = d.buf[:0]
	}
}

// Case starts a new vector (only matters for dumps).
func (d *VerifDigest) Case() { d.idx++ }

// Dumping reports whether inputs should be recorded.
func (d *VerifDigest) Dumping() bool { return d.dump }

func (d *VerifDigest) In(label string, b []byte) {
	if d.dump {
		fmt.Fprintf(os.Stderr, "%s #%d in  %s %x\n", d.Name, d.idx, label, b)
	}
}
func (d *VerifDigest) In16(label string, v []int16) {
	if d.dump {
		fmt.Fprintf(os.Stderr, "%s #%d in  %s %d\n", d.Name, d.idx, label, v)
	}
}
func (d *VerifDigest) In32(label string, v []uint32) {
	if d.dump {
		fmt.Fprintf(os.Stderr, "%s #%d in  %s %08x\n", d.Name, d.idx, label, v)
	}
}
func (d *VerifDigest) InInts(label string, v ...int) {
	if d.dump {
		fmt.Fprintf(os.Stderr, "%s #%d in  %s %d\n", d.Name, d.idx, label, v)
	}
}

func (d *VerifDigest) Out(b []byte) {
	if d.dump {
		fmt.Fprintf(os.Stderr, "%s #%d out %x\n", d.Name, d.idx, b)
	}
	if len(b) > cap(d.buf)-len(d.buf) {
		d.flush()
		if len(b) >= cap(d.buf) {
			d.h.Write(b)
			return
		}
	}
	d.buf = append(d.buf, b...)
}
func (d *VerifDigest) Out16(v []int16) {
	if d.dump {
		fmt.Fprintf(os.Stderr, "%s #%d out %d\n", d.Name, d.idx, v)
	}
	if 2*len(v) > cap(d.buf)-len(d.buf) {
		d.flush()
	}
	for _, x := range v {
		d.buf = append(d.buf, byte(x), byte(uint16(x)>>8))
		if len(d.buf) >= cap(d.buf)-2 {
			d.flush()
		}
	}
}
func (d *VerifDigest) Out16u(v []uint16) {
	if d.dump {
		fmt.Fprintf(os.Stderr, "%s #%d out %d\n", d.Name, d.idx, v)
	}
	for _, x := range v {
		d.buf = append(d.buf, byte(x), byte(x>>8))
		if len(d.buf) >= cap(d.buf)-2 {
			d.flush()
		}
	}
}
func (d *VerifDigest) Out32(v []uint32) {
	if d.dump {
		fmt.Fprintf(os.Stderr, "%s #%d out %08x\n", d.Name, d.idx, v)
	}
	for _, x := range v {
		d.buf = append(d.buf, byte(x), byte(x>>8), byte(x>>16), byte(x>>24))
		if len(d.buf) >= cap(d.buf)-4 {
			d.flush()
		}
	}
}
func (d *VerifDigest) OutInt(x int) {
	if d.dump {
		fmt.Fprintf(os.Stderr, "%s #%d out int %d\n", d.Name, d.idx, x)
	}
	u := uint64(x)
	if len(d.buf) >= cap(d.buf)-8 {
		d.flush()
	}
	d.buf = append(d.buf, byte(u), byte(u>>8), byte(u>>16), byte(u>>24), byte(u>>32), byte(u>>40), byte(u>>48), byte(u>>56))
}
func (d *VerifDigest) OutF64(x float64) { d.OutInt(int(math.Float64bits(x))) }
func (d *VerifDigest) OutBool(b bool) {
	if b {
		d.OutInt(1)
	} else {
		d.OutInt(0)
	}
}

// Line returns "<kernel-name> <hex digest>".
func (d *VerifDigest) Line() string {
	d.flush()
	return d.Name + " " + hex.EncodeToString(d.h.Sum(nil)[:16])
}

// VerifRand is a small deterministic generator (splitmix64), independent of math/rand.
type VerifRand struct{ s uint64 }

func VerifNewRand(seed int64, name string) *VerifRand {
	s := uint64(seed)*0x9E3779B97F4A7C15 + 0x1234567
	for i := 0; i < len(name); i++ {
		s = (s ^ uint64(name[i])) * 0x100000001B3
	}
	r := &VerifRand{s: s}
	r.U64()
	return r
}
func (r *VerifRand) U64() uint64 {
	r.s += 0x9E3779B97F4A7C15
	z := r.s
	z = (z ^ (z >> 30)) * 0xBF58476D1CE4E5B9
	z = (z ^ (z >> 27)) * 0x94D049BB133111EB
	return z ^ (z >> 31)
}
func (r *VerifRand) Intn(n int) int { return int(r.U64() % uint64(n)) }

// Range returns a value in [lo, hi] inclusive.
func (r *VerifRand) Range(lo, hi int) int { return lo + r.Intn(hi-lo+1) }
func (r *VerifRand) Byte() byte           { return byte(r.U64() >> 24) }
func (r *VerifRand) U32() uint32          { return uint32(r.U64() >> 16) }

var vkEdgeBytes = [...]byte{0, 1, 2, 126, 127, 128, 129, 253, 254, 255}

// Fill fills b with one of several pixel-like distributions (uniform, smooth, edge values, two-level).
func (r *VerifRand) Fill(b []byte) {
	switch r.Intn(6) {
	case 0, 1:
		for i := 0; i+8 <= len(b); i += 8 {
			v := r.U64()
			b[i], b[i+1], b[i+2], b[i+3] = byte(v), byte(v>>8), byte(v>>16), byte(v>>24)
			b[i+4], b[i+5], b[i+6], b[i+7] = byte(v>>32), byte(v>>40), byte(v>>48), byte(v>>56)
		}
		for i := len(b) &^ 7; i < len(b); i++ {
			b[i] = r.Byte()
		}
	case 2: // smooth: base +- small
		base := r.Intn(256)
		amp := 1 + r.Intn(12)
		for i := range b {
			v := base + r.Intn(2*amp+1) - amp
			if v < 0 {
				v = 0
			} else if v > 255 {
				v = 255
			}
			b[i] = byte(v)
		}
	case 3: // edge values
		for i := range b {
			b[i] = vkEdgeBytes[r.Intn(len(vkEdgeBytes))]
		}
	case 4: // two levels
		a, c := r.Byte(), r.Byte()
		for i := range b {
			if r.U64()&1 == 0 {
				b[i] = a
			} else {
				b[i] = c
			}
		}
	default: // ramp
		v := r.Intn(256) << 8
		step := r.Intn(2048) - 1024
		for i := range b {
			b[i] = byte(v >> 8)
			v += step
			if v < 0 {
				v = 0
			} else if v > 0xffff {
				v = 0xffff
			}
		}
	}
}

// VerifGuard is a byte buffer of exactly n usable bytes (len == cap == n, as tight as the real
// callers' buffers) surrounded by canaries.
type VerifGuard struct {
	all []byte
	B   []byte
}

func VerifNewGuard(n int) *VerifGuard {
	all := make([]byte, n+128)
	for i := range all {
		all[i] = 0xA5
	}
	return &VerifGuard{all: all, B: all[64 : 64+n : 64+n]}
}

// OK returns 1 when both canaries are intact.
func (g *VerifGuard) OK() int {
	for i := 0; i < 64; i++ {
		if g.all[i] != 0xA5 || g.all[len(g.all)-1-i] != 0xA5 {
			return 0
		}
	}
	return 1
}

type vkKernel struct {
	name string
	run  func(d *VerifDigest, r *VerifRand, n int)
}

var vkKernels []vkKernel

func vkReg(name string, run func(d *VerifDigest, r *VerifRand, n int)) {
	vkKernels = append(vkKernels, vkKernel{name, run})
}

// VerifRunKernels runs a list of (name, func) pairs; used by both packages.
func VerifRunKernels(seed int64, n int, names []string, runs []func(d *VerifDigest, r *VerifRand, n int)) []string {
	only := os.Getenv("VERIF_KERN_ONLY")
	timing := os.Getenv("VERIF_KERN_TIME") == "1"
	var lines []string
	for i, name := range names {
		if only != "" {
			if strings.HasSuffix(only, "$") {
				if name != only[:len(only)-1] {
					continue
				}
			} else if !strings.HasPrefix(name, only) {
				continue
			}
		}
		t0 := time.Now()
		d := VerifNewDigest(name)
		runs[i](d, VerifNewRand(seed, name), n)
		lines = append(lines, d.Line())
		if timing {
			fmt.Fprintf(os.Stderr, "time %-40s %v\n", name, time.Since(t0))
		}
	}
	sort.Strings(lines)
	return lines
}

// VerifKernels runs every internal/dsp kernel and returns sorted "<name> <digest>" lines.
func VerifKernels(seed int64, n int) []string {
	names := make([]string, len(vkKernels))
	runs := make([]func(d *VerifDigest, r *VerifRand, n int), len(vkKernels))
	for i, k := range vkKernels {
		names[i], runs[i] = "dsp."+k.name, k.run
	}
	return VerifRunKernels(seed, n, names, runs)
}

// ---------------------------------------------------------------------------------------------
// Layout of the BPS-strided macroblock work buffers, identical to internal/lossy (constants.go).

const (
	vkYUVSize = BPS*17 + BPS*9
	vkYOff    = BPS*1 + 8
	vkUOff    = vkYOff + BPS*16 + BPS
	vkVOff    = vkUOff + 16
)

// vkBlockOffs: the 16 luma and 8 chroma 4x4 block origins inside a work buffer.
func vkBlockOffs() []int {
	o := make([]int, 0, 24)
	for i := 0; i < 16; i++ {
		o = append(o, vkYOff+DspScan[i])
	}
	for i := 0; i < 8; i++ {
		o = append(o, vkUOff+DspScan[16+i])
	}
	return o
}

func vkPut4x4(buf []byte, off int, b *[16]byte) {
	for y := 0; y < 4; y++ {
		copy(buf[off+y*BPS:off+y*BPS+4], b[y*4:y*4+4])
	}
}

// vkWindow hashes the rows [-1, rows] x columns [-4, cols+4) around off (clipped to the buffer).
func vkWindow(d *VerifDigest, buf []byte, off, rows, cols int) {
	for y := -1; y <= rows; y++ {
		a := off + y*BPS - 4
		b := off + y*BPS + cols + 4
		if a < 0 {
			a = 0
		}
		if b > len(buf) {
			b = len(buf)
		}
		if a < b {
			d.Out(buf[a:b])
		}
	}
}

func vkMax(a, b int) int {
	if a > b {
		return a
	}
	return b
}

// vkCornerPairs4x4 enumerates corner-case (src, ref) 4x4 pixel pairs: uniform min/max, every uniform
// difference -255..255, alternating +-max patterns, and a single impulse of every amplitude at
// every position.
func vkCornerPairs4x4(emit func(s, r *[16]byte)) {
	var s, r [16]byte
	set := func(sv, rv byte) {
		for i := range s {
			s[i], r[i] = sv, rv
		}
	}
	for _, p := range [][2]byte{{0, 0}, {255, 255}, {255, 0}, {0, 255}, {128, 128}, {128, 127}, {127, 128}, {1, 0}, {0, 1}} {
		set(p[0], p[1])
		emit(&s, &r)
	}
	for dd := -255; dd <= 255; dd++ {
		set(byte(vkMax(dd, 0)), byte(vkMax(-dd, 0)))
		emit(&s, &r)
	}
	for pat := 0; pat < 8; pat++ {
		for i := 0; i < 16; i++ {
			x, y := i&3, i>>2
			var on bool
			switch pat >> 1 {
			case 0:
				on = (x+y)&1 != 0
			case 1:
				on = x&1 != 0
			case 2:
				on = y&1 != 0
			default:
				on = ((x>>1)+(y>>1))&1 != 0
			}
			if pat&1 != 0 {
				on = !on
			}
			if on {
				s[i], r[i] = 255, 0
			} else {
				s[i], r[i] = 0, 255
			}
		}
		emit(&s, &r)
		// same pattern against flat references
		for _, flat := range []byte{0, 128, 255} {
			var r2 [16]byte
			for i := range r2 {
				r2[i] = flat
			}
			emit(&s, &r2)
			emit(&r2, &s)
		}
	}
	for pos := 0; pos < 16; pos++ {
		for dd := -255; dd <= 255; dd++ {
			if dd == 0 {
				continue
			}
			set(0, 0)
			if dd > 0 {
				s[pos] = byte(dd)
			} else {
				r[pos] = byte(-dd)
			}
			emit(&s, &r)
		}
		// impulses on saturated / mid backgrounds
		for _, bg := range []byte{255, 128} {
			set(bg, bg)
			s[pos] = 0
			emit(&s, &r)
			set(bg, bg)
			r[pos] = 0
			emit(&s, &r)
			set(bg, bg)
			s[pos] = 255
			emit(&s, &r)
		}
	}
}

// ---------------------------------------------------------------------------------------------
// Legal coefficient generators. They use private reference code (copied arithmetic, plain Go in every
// build) so that the *inputs* of the inverse transforms never depend on a kernel under test.

func vkRefFDCT(s, r *[16]byte) (out [16]int16) {
	var tmp [16]int
	for i := 0; i < 4; i++ {
		d0 := int(s[4*i+0]) - int(r[4*i+0])
		d1 := int(s[4*i+1]) - int(r[4*i+1])
		d2 := int(s[4*i+2]) - int(r[4*i+2])
		d3 := int(s[4*i+3]) - int(r[4*i+3])
		a0, a1, a2, a3 := d0+d3, d1+d2, d1-d2, d0-d3
		tmp[0+i*4] = (a0 + a1) * 8
		tmp[1+i*4] = (a2*2217 + a3*5352 + 1812) >> 9
		tmp[2+i*4] = (a0 - a1) * 8
		tmp[3+i*4] = (a3*2217 - a2*5352 + 937) >> 9
	}
	for i := 0; i < 4; i++ {
		a0 := tmp[0+i] + tmp[12+i]
		a1 := tmp[4+i] + tmp[8+i]
		a2 := tmp[4+i] - tmp[8+i]
		a3 := tmp[0+i] - tmp[12+i]
		out[0+i] = int16((a0 + a1 + 7) >> 4)
		x := (a2*2217 + a3*5352 + 12000) >> 16
		if a3 != 0 {
			x++
		}
		out[4+i] = int16(x)
		out[8+i] = int16((a0 - a1 + 7) >> 4)
		out[12+i] = int16((a3*2217 - a2*5352 + 51000) >> 16)
	}
	return
}

func vkRefFWHT(in *[16]int16) (out [16]int16) {
	var tmp [16]int
	for i := 0; i < 4; i++ {
		a0 := int(in[i*4+0]) + int(in[i*4+2])
		a1 := int(in[i*4+1]) + int(in[i*4+3])
		a2 := int(in[i*4+1]) - int(in[i*4+3])
		a3 := int(in[i*4+0]) - int(in[i*4+2])
		tmp[0+i*4], tmp[1+i*4], tmp[2+i*4], tmp[3+i*4] = a0+a1, a3+a2, a3-a2, a0-a1
	}
	for i := 0; i < 4; i++ {
		a0 := tmp[0+i] + tmp[8+i]
		a1 := tmp[4+i] + tmp[12+i]
		a2 := tmp[4+i] - tmp[12+i]
		a3 := tmp[0+i] - tmp[8+i]
		out[0+i], out[4+i], out[8+i], out[12+i] = int16((a0+a1)>>1), int16((a3+a2)>>1), int16((a3-a2)>>1), int16((a0-a1)>>1)
	}
	return
}

var vkFreqSharpening = [16]int{0, 30, 60, 90, 30, 60, 90, 90, 60, 90, 90, 90, 90, 90, 90, 90}

// vkQuantDequant reproduces the encoder's QUANTDIV quantisation followed by dequantisation
// (internal/lossy quantizeCoeffsGo + dequantCoeffsGo): c' = sign * min(2047, ((|c|+sharpen)*iq+bias)>>17) * q.
func vkQuantDequant(c *[16]int16, qdc, qac, biasDC, biasAC int, sharpen bool) {
	for i := 0; i < 16; i++ {
		q, b := qac, biasAC
		if i == 0 {
			q, b = qdc, biasDC
		}
		iq := (1 << 17) / q
		v := int(c[i])
		sign := 1
		if v < 0 {
			sign, v = -1, -v
		}
		if sharpen {
			v += (vkFreqSharpening[i] * q) >> 11
		}
		l := int(uint32(v)*uint32(iq)+uint32(b<<9)) >> 17
		if l > 2047 {
			l = 2047
		}
		c[i] = int16(sign * l * q)
	}
}

// vkRandPair fills a random (src, ref) 4x4 pair: independent pixels, or a prediction-like pair.
func vkRandPair(r *VerifRand, s, p *[16]byte) {
	r.Fill(s[:])
	if r.Intn(3) == 0 {
		r.Fill(p[:])
		return
	}
	amp := 1 + r.Intn(64)
	for i := range p {
		v := int(s[i]) + r.Intn(2*amp+1) - amp
		if v < 0 {
			v = 0
		} else if v > 255 {
			v = 255
		}
		p[i] = byte(v)
	}
}

// vkEncCoeffs: a coefficient block as the encoder (and any conformant stream) produces it for a
// Y1/UV 4x4 block: forward DCT of a pixel difference, quantised/dequantised with legal quantisers
// (DC step 4..157, AC step 4..284, the three bias pairs of the encoder, optional sharpening).
func vkEncCoeffs(r *VerifRand, s, p *[16]byte) [16]int16 {
	c := vkRefFDCT(s, p)
	biases := [3][2]int{{96, 110}, {96, 108}, {110, 115}}
	b := biases[r.Intn(3)]
	vkQuantDequant(&c, r.Range(4, 157), r.Range(4, 284), b[0], b[1], r.Intn(2) == 0)
	switch r.Intn(8) {
	case 0: // i16 block: DC comes from the inverse WHT
		c[0] = int16(r.Range(-2100, 2100))
	case 1: // lossless-ish: finest quantiser
		c = vkRefFDCT(s, p)
		vkQuantDequant(&c, 4, 4, 96, 110, true)
	}
	return c
}

// vkEncWHT: Y2 coefficients as the encoder produces them: forward WHT of 16 luma DCs (each the DC of a
// forward DCT, |dc| <= 2040), quantised/dequantised with legal Y2 steps (DC 8..314, AC 8..440).
func vkEncWHT(r *VerifRand) [16]int16 {
	var dcs [16]int16
	switch r.Intn(4) {
	case 0:
		for i := range dcs {
			dcs[i] = int16(r.Range(-2040, 2040))
		}
	case 1:
		base := r.Range(-2040, 2040)
		for i := range dcs {
			v := base + r.Range(-64, 64)
			if v > 2040 {
				v = 2040
			} else if v < -2040 {
				v = -2040
			}
			dcs[i] = int16(v)
		}
	case 2:
		for i := range dcs {
			dcs[i] = [3]int16{-2040, 0, 2040}[r.Intn(3)]
		}
	default:
		var s, p [16]byte
		for i := range dcs {
			vkRandPair(r, &s, &p)
			c := vkRefFDCT(&s, &p)
			dcs[i] = c[0]
		}
	}
	c := vkRefFWHT(&dcs)
	vkQuantDequant(&c, r.Range(8, 314), r.Range(8, 440), 96, 108, false)
	return c
}

// vkCornerWHTDCs: corner DC sets for the WHT pair (within the legal +-2040 range).
func vkCornerWHTDCs(emit func(dcs *[16]int16)) {
	var dcs [16]int16
	for _, v := range []int16{0, 1, -1, 2040, -2040, 2039, -2039, 1020, -1021} {
		for i := range dcs {
			dcs[i] = v
		}
		emit(&dcs)
	}
	for pat := 0; pat < 8; pat++ {
		for i := range dcs {
			x, y := i&3, i>>2
			var on bool
			switch pat >> 1 {
			case 0:
				on = (x+y)&1 != 0
			case 1:
				on = x&1 != 0
			case 2:
				on = y&1 != 0
			default:
				on = ((x>>1)+(y>>1))&1 != 0
			}
			if pat&1 != 0 {
				on = !on
			}
			if on {
				dcs[i] = 2040
			} else {
				dcs[i] = -2040
			}
		}
		emit(&dcs)
	}
	for pos := 0; pos < 16; pos++ {
		for _, v := range []int16{1, -1, 2, -2, 3, -3, 7, -7, 8, -8, 2040, -2040} {
			dcs = [16]int16{}
			dcs[pos] = v
			emit(&dcs)
			for i := range dcs {
				dcs[i] = -v
			}
			dcs[pos] = v
			emit(&dcs)
		}
	}
}

// vkAnyInt16Corners: coefficient blocks over the whole int16 range (what a VP8 bitstream can make the
// decoder hand to the inverse transforms: out[...] = int16(level*dq), level up to 2048+66, dq up to 157/314/440).
func vkAnyInt16Corners(emit func(c *[16]int16)) {
	var c [16]int16
	for _, v := range []int16{0, 1, -1, 32767, -32768, 16384, -16384, 2048, -2048, 2212, 2213, -2213, 4095, 8191} {
		for i := range c {
			c[i] = v
		}
		emit(&c)
	}
	// a plain example of what a stream can carry: level 130 at the coarsest quantiser (dq 157) in the DC and
	// one AC position, two more small coefficients (so that the decoder takes the full-IDCT path)
	c = [16]int16{}
	c[0], c[8], c[1], c[4] = 130*157, 130*157, 157, -157
	emit(&c)
	for pat := 0; pat < 4; pat++ {
		for i := range c {
			on := (i&1 != 0) != (pat&1 != 0)
			if pat >= 2 {
				on = ((i>>2)&1 != 0) != (pat&1 != 0)
			}
			if on {
				c[i] = 32767
			} else {
				c[i] = -32768
			}
		}
		emit(&c)
	}
	for pos := 0; pos < 16; pos++ {
		for _, v := range []int16{32767, -32768, 16384, -16384, 8192, 4096, -4096, 2048, -2048, 1, -1, 3, 4, -4, -5} {
			c = [16]int16{}
			c[pos] = v
			emit(&c)
		}
	}
}

func vkRandAnyInt16(r *VerifRand, c []int16) {
	mode := r.Intn(4)
	for i := range c {
		switch mode {
		case 0:
			c[i] = int16(r.U64())
		case 1: // level * dq truncated, as the decoder computes it
			c[i] = int16(r.Range(-2114, 2114) * r.Range(4, 440))
		case 2: // sparse large
			if r.Intn(4) == 0 {
				c[i] = int16(r.U64())
			} else {
				c[i] = 0
			}
		default:
			c[i] = int16(r.Range(-4096, 4096))
		}
	}
}

// ---------------------------------------------------------------------------------------------
// Forward / inverse DCT and WHT.

// vkRunFT exercises a forward-DCT entry point. two=true: two side-by-side blocks (FTransform2).
func vkRunFT(fn func(src, ref []byte, out []int16), two bool) func(d *VerifDigest, r *VerifRand, n int) {
	return func(d *VerifDigest, r *VerifRand, n int) {
		src, ref := VerifNewGuard(vkYUVSize), VerifNewGuard(vkYUVSize)
		r.Fill(src.B)
		r.Fill(ref.B)
		offs := vkBlockOffs()
		if two { // left block of a pair only
			offs = []int{vkYOff, vkYOff + 8, vkYOff + 12*BPS + 8, vkUOff, vkUOff + 4*BPS, vkUOff + 8, vkUOff + 4*BPS + 8}
		}
		nOut := 16
		if two {
			nOut = 32
		}
		out := make([]int16, nOut+8)
		call := func(off int) {
			for i := range out {
				out[i] = 0x5a5a
			}
			fn(src.B[off:], ref.B[off:], out[:nOut])
			d.Out16(out)
		}
		k := 0
		vkCornerPairs4x4(func(s, p *[16]byte) {
			d.Case()
			d.In("src", s[:])
			d.In("ref", p[:])
			off := offs[k%len(offs)]
			k++
			vkPut4x4(src.B, off, s)
			vkPut4x4(ref.B, off, p)
			if two {
				vkPut4x4(src.B, off+4, p)
				vkPut4x4(ref.B, off+4, s)
			}
			call(off)
		})
		var s, p [16]byte
		for i := 0; i < n; i++ {
			d.Case()
			off := offs[r.Intn(len(offs))]
			vkRandPair(r, &s, &p)
			d.In("src", s[:])
			d.In("ref", p[:])
			vkPut4x4(src.B, off, &s)
			vkPut4x4(ref.B, off, &p)
			if two {
				vkRandPair(r, &s, &p)
				d.In("src2", s[:])
				d.In("ref2", p[:])
				vkPut4x4(src.B, off+4, &s)
				vkPut4x4(ref.B, off+4, &p)
			}
			call(off)
		}
		d.Out(src.B)
		d.Out(ref.B)
		d.OutInt(src.OK() + 2*ref.OK())
	}
}

// vkCoeffSource yields the corner and random coefficient blocks of one domain.
type vkCoeffSource struct {
	corners func(emit func(c *[16]int16, p *[16]byte))
	random  func(r *VerifRand, c []int16, p *[16]byte)
}

// encoder / conformant-stream domain
var vkSrcEnc = vkCoeffSource{
	corners: func(emit func(c *[16]int16, p *[16]byte)) {
		// every corner pixel pair through the reference DCT, at the finest, a middle and the coarsest quantiser
		qs := [][2]int{{4, 4}, {37, 53}, {157, 284}}
		k := 0
		vkCornerPairs4x4(func(s, p *[16]byte) {
			q := qs[k%3]
			k++
			c := vkRefFDCT(s, p)
			vkQuantDequant(&c, q[0], q[1], 96, 110, k&1 == 0)
			emit(&c, p)
		})
		// single coefficients at the element-wise extremes of the legal range, on black/white/grey predictions
		for pos := 0; pos < 16; pos++ {
			for _, v := range []int16{2048, -2048, 2040, -2040, 1, -1, 3, -4, 4, -5} {
				for _, bg := range []byte{0, 255, 128} {
					var c [16]int16
					var p [16]byte
					for i := range p {
						p[i] = bg
					}
					c[pos] = v
					emit(&c, &p)
				}
			}
		}
	},
	random: func(r *VerifRand, c []int16, p *[16]byte) {
		var s [16]byte
		vkRandPair(r, &s, p)
		if r.Intn(8) == 0 { // box domain: every coefficient independently within +-2048 (overflow-free by design of the int16 kernels)
			for i := 0; i < 16; i++ {
				c[i] = int16(r.Range(-2048, 2048))
			}
			return
		}
		cc := vkEncCoeffs(r, &s, p)
		copy(c, cc[:])
	},
}

// whole-int16 domain (decoder side only: reachable from a syntactically valid bitstream)
var vkSrcAny = vkCoeffSource{
	corners: func(emit func(c *[16]int16, p *[16]byte)) {
		vkAnyInt16Corners(func(c *[16]int16) {
			for _, bg := range []byte{0, 128, 255} {
				var p [16]byte
				for i := range p {
					p[i] = bg
				}
				emit(c, &p)
			}
		})
	},
	random: func(r *VerifRand, c []int16, p *[16]byte) {
		r.Fill(p[:])
		vkRandAnyInt16(r, c[:16])
	},
}

// vkRunIT exercises an inverse-DCT entry point. nBlk = number of coefficient blocks consumed per call
// (1, 2 for doTwo, 4 for TransformUV). fn receives (ref, in, dst); decoder-style kernels ignore ref.
// inPlace: dst is the same buffer as ref (prediction overwritten), as in reconstructMB and the decoder;
// otherwise dst is a separate 4*BPS scratch like enc.tmpRecon.
func vkRunIT(fn func(ref []byte, in []int16, dst []byte), nBlk int, inPlace bool, src vkCoeffSource) func(d *VerifDigest, r *VerifRand, n int) {
	return func(d *VerifDigest, r *VerifRand, n int) {
		ref := VerifNewGuard(vkYUVSize)
		recon := VerifNewGuard(4 * BPS) // enc.tmpRecon
		r.Fill(ref.B)
		var offs []int
		switch nBlk {
		case 1:
			offs = vkBlockOffs()
		case 2:
			offs = []int{vkYOff, vkYOff + 8, vkYOff + 12*BPS + 8, vkUOff, vkUOff + 4*BPS, vkUOff + 8, vkUOff + 4*BPS + 8}
		default:
			offs = []int{vkUOff, vkVOff} // U plane origin, V plane origin
		}
		in := make([]int16, 16*nBlk+8)
		sub := [4]int{0, 4, 4 * BPS, 4*BPS + 4}
		call := func(off int) {
			d.In16("coeffs", in[:16*nBlk])
			for i := 16 * nBlk; i < len(in); i++ {
				in[i] = 0x5a5a
			}
			if inPlace {
				fn(ref.B[off:], in[:16*nBlk], ref.B[off:])
				rows, cols := 4, 4
				if nBlk == 2 {
					cols = 8
				} else if nBlk == 4 {
					rows, cols = 8, 8
				}
				vkWindow(d, ref.B, off, rows, cols)
			} else {
				for i := range recon.B {
					recon.B[i] = 0xEE
				}
				fn(ref.B[off:], in[:16*nBlk], recon.B)
				d.Out(recon.B)
			}
			d.Out16(in) // the coefficient buffer must be left untouched
		}
		put := func(off int, b int, p *[16]byte) { vkPut4x4(ref.B, off+sub[b], p) }
		k := 0
		src.corners(func(c *[16]int16, p *[16]byte) {
			d.Case()
			off := offs[k%len(offs)]
			k++
			for b := 0; b < nBlk; b++ {
				copy(in[16*b:], c[:])
				if b&1 == 1 { // neighbours get the negated block so that the blocks differ
					for i := 0; i < 16; i++ {
						in[16*b+i] = -c[i]
						if c[i] == -32768 {
							in[16*b+i] = 32767
						}
					}
				}
				put(off, b, p)
				d.In("pred", p[:])
			}
			call(off)
		})
		var p [16]byte
		for i := 0; i < n; i++ {
			d.Case()
			off := offs[r.Intn(len(offs))]
			for b := 0; b < nBlk; b++ {
				src.random(r, in[16*b:16*b+16], &p)
				put(off, b, &p)
				d.In("pred", p[:])
			}
			call(off)
		}
		d.Out(ref.B)
		d.OutInt(ref.OK() + 2*recon.OK())
	}
}

func vkRunFWHT(fn func(in, out []int16)) func(d *VerifDigest, r *VerifRand, n int) {
	return func(d *VerifDigest, r *VerifRand, n int) {
		in := make([]int16, 16) // enc.tmpDCCoeffs
		out := make([]int16, 16+8)
		call := func() {
			d.Case()
			d.In16("dcs", in)
			for i := range out {
				out[i] = 0x5a5a
			}
			fn(in, out[:16])
			d.Out16(out)
			d.Out16(in)
		}
		vkCornerWHTDCs(func(dcs *[16]int16) { copy(in, dcs[:]); call() })
		var s, p [16]byte
		for i := 0; i < n; i++ {
			switch r.Intn(3) {
			case 0:
				for j := range in {
					in[j] = int16(r.Range(-2040, 2040))
				}
			case 1:
				for j := range in {
					in[j] = [5]int16{-2040, -1, 0, 1, 2040}[r.Intn(5)]
				}
			default:
				for j := range in {
					vkRandPair(r, &s, &p)
					c := vkRefFDCT(&s, &p)
					in[j] = c[0]
				}
			}
			call()
		}
	}
}

// vkRunIWHT: inverse WHT. out is the 256-entry coefficient area (tmpWHTBuf / MBData.Coeffs[:]); only
// out[16*k] may be written. anyRange selects the bitstream-reachable whole-int16 domain.
func vkRunIWHT(fn func(in, out []int16), anyRange bool) func(d *VerifDigest, r *VerifRand, n int) {
	return func(d *VerifDigest, r *VerifRand, n int) {
		in := make([]int16, 16)
		out := make([]int16, 256+16)
		call := func() {
			d.Case()
			d.In16("y2", in)
			for i := range out {
				out[i] = int16(0x1100 + i)
			}
			fn(in, out[:256])
			d.Out16(out)
			d.Out16(in)
		}
		if anyRange {
			vkAnyInt16Corners(func(c *[16]int16) { copy(in, c[:]); call() })
		} else {
			qs := [][2]int{{8, 8}, {74, 82}, {314, 440}}
			vkCornerWHTDCs(func(dcs *[16]int16) {
				for _, q := range qs {
					c := vkRefFWHT(dcs)
					vkQuantDequant(&c, q[0], q[1], 96, 108, false)
					copy(in, c[:])
					call()
				}
			})
		}
		for i := 0; i < n; i++ {
			if anyRange {
				vkRandAnyInt16(r, in)
			} else {
				c := vkEncWHT(r)
				copy(in, c[:])
			}
			call()
		}
	}
}

func init() {
	vkReg("FTransform", vkRunFT(func(s, r []byte, o []int16) { FTransform(s, r, o) }, false))
	vkReg("FTransformDirect", vkRunFT(FTransformDirect, false))
	vkReg("FTransform2", vkRunFT(func(s, r []byte, o []int16) { FTransform2(s, r, o) }, true))

	vkReg("ITransform/one", vkRunIT(func(ref []byte, in []int16, dst []byte) { ITransform(ref, in, dst, false) }, 1, true, vkSrcEnc))
	vkReg("ITransform/two", vkRunIT(func(ref []byte, in []int16, dst []byte) { ITransform(ref, in, dst, true) }, 2, true, vkSrcEnc))
	vkReg("ITransformDirect/inplace", vkRunIT(func(ref []byte, in []int16, dst []byte) { ITransformDirect(ref, in, dst, false) }, 1, true, vkSrcEnc))
	vkReg("ITransformDirect/tmprecon", vkRunIT(func(ref []byte, in []int16, dst []byte) { ITransformDirect(ref, in, dst, false) }, 1, false, vkSrcEnc))
	vkReg("ITransformDirect/two", vkRunIT(func(ref []byte, in []int16, dst []byte) { ITransformDirect(ref, in, dst, true) }, 2, true, vkSrcEnc))

	dec1 := func(_ []byte, in []int16, dst []byte) { Transform(in, dst, false) }
	dec2 := func(_ []byte, in []int16, dst []byte) { Transform(in, dst, true) }
	decUV := func(_ []byte, in []int16, dst []byte) { TransformUV(in, dst) }
	vkReg("Transform/one", vkRunIT(dec1, 1, true, vkSrcEnc))
	vkReg("Transform/two", vkRunIT(dec2, 2, true, vkSrcEnc))
	vkReg("TransformUV", vkRunIT(decUV, 4, true, vkSrcEnc))
	vkReg("Transform/one.anyint16", vkRunIT(dec1, 1, true, vkSrcAny))
	vkReg("TransformUV.anyint16", vkRunIT(decUV, 4, true, vkSrcAny))
	// plain-Go decoder helpers (same code in every build)
	vkReg("TransformDC.anyint16", vkRunIT(func(_ []byte, in []int16, dst []byte) { TransformDC(in, dst) }, 1, true, vkSrcAny))
	vkReg("TransformAC3.anyint16", vkRunIT(func(_ []byte, in []int16, dst []byte) { TransformAC3(in, dst) }, 1, true, vkSrcAny))
	vkReg("TransformDCUV.anyint16", vkRunIT(func(_ []byte, in []int16, dst []byte) { TransformDCUV(in, dst) }, 4, true, vkSrcAny))

	vkReg("FTransformWHT", vkRunFWHT(func(in, out []int16) { FTransformWHT(in, out) }))
	vkReg("TransformWHT", vkRunIWHT(func(in, out []int16) { TransformWHT(in, out) }, false))
	vkReg("TransformWHT.anyint16", vkRunIWHT(func(in, out []int16) { TransformWHT(in, out) }, true))
}

// ---------------------------------------------------------------------------------------------
// Intra predictors. The work buffer is laid out exactly like enc.yuvOut / dec.yuvB (YUVSize bytes).

// vkPredCtx describes where the context pixels of a predictor live relative to the block origin.
type vkPredCtx struct {
	size   int // block size
	nTop   int // number of top pixels read (incl. top-right for 4x4)
	blocks []int
}

// vkRunPred exercises one predictor entry. The whole buffer is hashed after every call, so a store
// outside the block or a dependence on anything but the context shows up.
func vkRunPred(fn func(buf []byte, off int), ctx vkPredCtx) func(d *VerifDigest, r *VerifRand, n int) {
	return func(d *VerifDigest, r *VerifRand, n int) {
		g := VerifNewGuard(vkYUVSize)
		nCtx := ctx.nTop + ctx.size + 1 // top..., left..., top-left
		ctxv := make([]byte, nCtx)
		call := func(off int) {
			d.Case()
			d.In("top|left|tl", ctxv)
			d.InInts("off", off)
			for i := 0; i < ctx.nTop; i++ {
				g.B[off-BPS+i] = ctxv[i]
			}
			for j := 0; j < ctx.size; j++ {
				g.B[off-1+j*BPS] = ctxv[ctx.nTop+j]
			}
			g.B[off-BPS-1] = ctxv[nCtx-1]
			fn(g.B, off)
			d.Out(g.B)
			d.OutInt(g.OK())
		}
		fill := func(v byte) {
			for i := range ctxv {
				ctxv[i] = v
			}
		}
		r.Fill(g.B)
		k := 0
		corner := func() {
			call(ctx.blocks[k%len(ctx.blocks)])
			k++
		}
		// uniform, and the TrueMotion saturation corners (left+top-tl = 510 / -255)
		for _, v := range []byte{0, 255, 128, 1, 254} {
			fill(v)
			corner()
		}
		for _, c := range [][3]byte{{255, 255, 0}, {0, 0, 255}, {255, 0, 0}, {0, 255, 0}, {255, 0, 255}, {0, 255, 255}, {128, 127, 255}, {1, 0, 1}, {0, 1, 2}} {
			for i := 0; i < ctx.nTop; i++ {
				ctxv[i] = c[0]
			}
			for j := 0; j < ctx.size; j++ {
				ctxv[ctx.nTop+j] = c[1]
			}
			ctxv[nCtx-1] = c[2]
			corner()
		}
		// alternating
		for ph := 0; ph < 2; ph++ {
			for i := range ctxv {
				if (i+ph)&1 == 0 {
					ctxv[i] = 255
				} else {
					ctxv[i] = 0
				}
			}
			corner()
		}
		// impulses at every context position, both polarities
		for pos := 0; pos < nCtx; pos++ {
			for _, c := range [][2]byte{{0, 255}, {255, 0}, {0, 1}, {128, 129}, {128, 126}} {
				fill(c[0])
				ctxv[pos] = c[1]
				corner()
			}
		}
		// DC rounding ties: context sum = k for every k up to the number of context pixels (and mirrored near max)
		for s := 0; s <= nCtx-1; s++ {
			fill(0)
			for i := 0; i < s; i++ {
				ctxv[i] = 1
			}
			corner()
			fill(255)
			for i := 0; i < s; i++ {
				ctxv[i] = 254
			}
			corner()
		}
		for i := 0; i < n; i++ {
			if i%64 == 0 {
				r.Fill(g.B)
			}
			r.Fill(ctxv)
			call(ctx.blocks[r.Intn(len(ctx.blocks))])
		}
	}
}

func init() {
	l16 := vkPredCtx{16, 16, []int{vkYOff}}
	c8 := vkPredCtx{8, 8, []int{vkUOff, vkVOff}}
	var b4 []int
	for i := 0; i < 16; i++ {
		b4 = append(b4, vkYOff+DspScan[i])
	}
	l4 := vkPredCtx{4, 8, b4}
	for m := 0; m < 7; m++ {
		m := m
		vkReg(fmt.Sprintf("PredLuma16[%d]", m), vkRunPred(func(b []byte, o int) { PredLuma16[m](b, o) }, l16))
		vkReg(fmt.Sprintf("PredLuma16Direct/%d", m), vkRunPred(func(b []byte, o int) { PredLuma16Direct(m, b, o) }, l16))
		vkReg(fmt.Sprintf("PredChroma8[%d]", m), vkRunPred(func(b []byte, o int) { PredChroma8[m](b, o) }, c8))
		vkReg(fmt.Sprintf("PredChroma8Direct/%d", m), vkRunPred(func(b []byte, o int) { PredChroma8Direct(m, b, o) }, c8))
	}
	for m := 0; m < 10; m++ {
		m := m
		vkReg(fmt.Sprintf("PredLuma4[%d]", m), vkRunPred(func(b []byte, o int) { PredLuma4[m](b, o) }, l4))
		vkReg(fmt.Sprintf("PredLuma4Direct/%d", m), vkRunPred(func(b []byte, o int) { PredLuma4Direct(m, b, o) }, l4))
	}
}

// ---------------------------------------------------------------------------------------------
// Distortion metrics.

func vkRunMetric4(fn func(a, b []byte) int, bIsRecon bool) func(d *VerifDigest, r *VerifRand, n int) {
	return func(d *VerifDigest, r *VerifRand, n int) {
		A, B := VerifNewGuard(vkYUVSize), VerifNewGuard(vkYUVSize)
		R := VerifNewGuard(4 * BPS) // enc.tmpRecon, the tightest second operand real callers pass
		r.Fill(A.B)
		r.Fill(B.B)
		r.Fill(R.B)
		offs := vkBlockOffs()
		call := func(off int, s, p *[16]byte) {
			d.Case()
			d.In("a", s[:])
			d.In("b", p[:])
			vkPut4x4(A.B, off, s)
			if bIsRecon {
				vkPut4x4(R.B, 0, p)
				d.OutInt(fn(A.B[off:], R.B))
			} else {
				vkPut4x4(B.B, off, p)
				d.OutInt(fn(A.B[off:], B.B[off:]))
			}
		}
		k := 0
		vkCornerPairs4x4(func(s, p *[16]byte) { call(offs[k%len(offs)], s, p); k++ })
		var s, p [16]byte
		for i := 0; i < n; i++ {
			vkRandPair(r, &s, &p)
			call(offs[r.Intn(len(offs))], &s, &p)
		}
		d.Out(A.B)
		d.Out(B.B)
		d.Out(R.B)
		d.OutInt(A.OK() + 2*B.OK() + 4*R.OK())
	}
}

func vkRunMetric16(fn func(a, b []byte) int) func(d *VerifDigest, r *VerifRand, n int) {
	return func(d *VerifDigest, r *VerifRand, n int) {
		A, B := VerifNewGuard(vkYUVSize), VerifNewGuard(vkYUVSize)
		put := func(g *VerifGuard, blk *[256]byte) {
			for y := 0; y < 16; y++ {
				copy(g.B[vkYOff+y*BPS:vkYOff+y*BPS+16], blk[y*16:y*16+16])
			}
		}
		var a, b [256]byte
		call := func() {
			d.Case()
			d.In("a", a[:])
			d.In("b", b[:])
			put(A, &a)
			put(B, &b)
			d.OutInt(fn(A.B[vkYOff:], B.B[vkYOff:]))
		}
		set := func(av, bv byte) {
			for i := range a {
				a[i], b[i] = av, bv
			}
		}
		r.Fill(A.B)
		r.Fill(B.B)
		for _, c := range [][2]byte{{0, 0}, {255, 255}, {255, 0}, {0, 255}, {128, 127}, {1, 0}} {
			set(c[0], c[1])
			call()
		}
		for dd := -255; dd <= 255; dd += 3 {
			set(byte(vkMax(dd, 0)), byte(vkMax(-dd, 0)))
			call()
		}
		for pat := 0; pat < 6; pat++ {
			for i := range a {
				x, y := i&15, i>>4
				on := [3]bool{(x+y)&1 != 0, x&1 != 0, y&1 != 0}[pat>>1]
				if pat&1 != 0 {
					on = !on
				}
				if on {
					a[i], b[i] = 255, 0
				} else {
					a[i], b[i] = 0, 255
				}
			}
			call()
		}
		for pos := 0; pos < 256; pos++ {
			set(0, 0)
			a[pos] = 255
			call()
			set(255, 255)
			a[pos] = 0
			call()
			set(7, 7)
			b[pos] = 8
			call()
		}
		for i := 0; i < n; i++ {
			r.Fill(a[:])
			if r.Intn(3) == 0 {
				r.Fill(b[:])
			} else {
				amp := 1 + r.Intn(40)
				for j := range b {
					v := int(a[j]) + r.Intn(2*amp+1) - amp
					if v < 0 {
						v = 0
					} else if v > 255 {
						v = 255
					}
					b[j] = byte(v)
				}
			}
			call()
		}
		d.OutInt(A.OK() + 2*B.OK())
	}
}

func init() {
	vkReg("SSE4x4", vkRunMetric4(func(a, b []byte) int { return SSE4x4(a, b) }, false))
	vkReg("SSE4x4Direct", vkRunMetric4(SSE4x4Direct, false))
	vkReg("SSE4x4Direct/tmprecon", vkRunMetric4(SSE4x4Direct, true))
	vkReg("TDisto4x4", vkRunMetric4(TDisto4x4, false))
	vkReg("TDisto4x4/tmprecon", vkRunMetric4(TDisto4x4, true))
	vkReg("SSE16x16", vkRunMetric16(func(a, b []byte) int { return SSE16x16(a, b) }))
	vkReg("SSE16x16Direct", vkRunMetric16(SSE16x16Direct))
	vkReg("TDisto16x16", vkRunMetric16(TDisto16x16))
	// plain-Go metrics (same code in every build)
	vkReg("SSE+SSIM(generic)", func(d *VerifDigest, r *VerifRand, n int) {
		const st = 40
		a, b := make([]byte, st*24), make([]byte, st*24)
		for i := 0; i < n/4+8; i++ {
			d.Case()
			r.Fill(a)
			if i&1 == 0 {
				r.Fill(b)
			} else {
				copy(b, a)
				b[r.Intn(len(b))] ^= byte(1 + r.Intn(255))
			}
			w, h := r.Range(1, 24), r.Range(1, 24)
			d.OutInt(int(SSE(a, b, w, h, st, st)))
			d.OutF64(SSIMFromBlocks(a, b, w, h, st, st))
			d.OutF64(SSIMGet(a, st, b, st))
			d.OutF64(SSIMGetClipped(a, st, b, st, r.Intn(w), r.Intn(h), w, h))
			d.OutF64(PSNRFromSSE(uint64(r.Intn(1<<20)), 1+r.Intn(4096)))
		}
	})
}

// ---------------------------------------------------------------------------------------------
// Loop filters. Buffers are laid out like the decoder's cacheY/cacheU/cacheV: stride = 16*mbW
// (8*mbW for chroma), the edge at (mbX*16, row), thresh = limit or limit+4 with limit in [3,189]
// (2*level+ilevel, level 1..63).

// vkRunSimpleVCorners: column-wise structured sweep for the 16-wide vertical simple filter: every
// (p0,q0) pair for a set of (p1,q1) and a set of thresholds that includes the reachable extremes.
func vkSimpleVSweep(d *VerifDigest, fn func(p []byte, base, stride, thresh int)) {
	const stride = 16
	g := VerifNewGuard(4 * stride)
	p1q1 := [][2]byte{{0, 0}, {255, 0}, {0, 255}, {255, 255}, {128, 127}, {64, 192}, {130, 1}, {3, 131}}
	for _, th := range []int{1, 3, 7, 20, 63, 100, 127, 128, 189, 193} {
		for _, pq := range p1q1 {
			for p0 := 0; p0 < 256; p0++ {
				for q0base := 0; q0base < 256; q0base += 16 {
					for i := 0; i < 16; i++ {
						g.B[i] = pq[0]
						g.B[stride+i] = byte(p0)
						g.B[2*stride+i] = byte(q0base + i)
						g.B[3*stride+i] = pq[1]
					}
					fn(g.B, 2*stride, stride, th)
					d.Out(g.B)
				}
			}
		}
	}
	d.OutInt(g.OK())
}

func vkRunSimpleFilter(fn func(p []byte, base, stride, thresh int), vertical, inner, sweep bool) func(d *VerifDigest, r *VerifRand, n int) {
	return func(d *VerifDigest, r *VerifRand, n int) {
		if sweep {
			vkSimpleVSweep(d, fn)
		}
		for _, mbW := range []int{1, 2, 5} {
			stride := 16 * mbW
			g := VerifNewGuard(stride * 48) // three macroblock rows
			cnt := n / 3
			for i := 0; i < cnt+4; i++ {
				d.Case()
				if i%4 == 0 {
					r.Fill(g.B)
				} else { // local structure around an edge: two smooth areas with a step
					a, b := r.Intn(256), r.Intn(256)
					for j := range g.B {
						v := a
						if (j/stride)&4 != 0 == ((j%stride)&4 != 0) {
							v = b
						}
						v += r.Intn(9) - 4
						if v < 0 {
							v = 0
						} else if v > 255 {
							v = 255
						}
						g.B[j] = byte(v)
					}
				}
				mbX, mbY := r.Intn(mbW), r.Intn(3)
				if !inner { // macroblock edge filters need a neighbour above / to the left
					if vertical && mbY == 0 {
						mbY = 1
					}
					if !vertical && mbX == 0 {
						if mbW == 1 {
							continue
						}
						mbX = 1
					}
				}
				limit := r.Range(3, 189)
				th := limit
				if !inner {
					th += 4
				}
				base := mbY*16*stride + mbX*16
				d.InInts("stride,base,thresh", stride, base, th)
				d.In("buf", g.B)
				fn(g.B, base, stride, th)
				d.Out(g.B)
				d.OutInt(g.OK())
			}
		}
	}
}

func vkRunComplexFilter(fn func(y, u, v []byte, yBase, uvBase, yStride, uvStride, th, ith, hev int), inner bool) func(d *VerifDigest, r *VerifRand, n int) {
	return func(d *VerifDigest, r *VerifRand, n int) {
		const mbW = 3
		y := VerifNewGuard(16 * mbW * 48)
		u := VerifNewGuard(8 * mbW * 24)
		v := VerifNewGuard(8 * mbW * 24)
		for i := 0; i < n/2+8; i++ {
			d.Case()
			r.Fill(y.B)
			r.Fill(u.B)
			r.Fill(v.B)
			level := r.Range(1, 63)
			sharp := r.Intn(8)
			il := level
			if sharp > 0 {
				if sharp > 4 {
					il >>= 2
				} else {
					il >>= 1
				}
				if il > 9-sharp {
					il = 9 - sharp
				}
			}
			if il < 1 {
				il = 1
			}
			th := 2*level + il
			if !inner {
				th += 4
			}
			hev := 0
			if level >= 40 {
				hev = 2
			} else if level >= 15 {
				hev = 1
			}
			mbX, mbY := 1+r.Intn(mbW-1), 1+r.Intn(2)
			fn(y.B, u.B, v.B, mbY*16*16*mbW+mbX*16, mbY*8*8*mbW+mbX*8, 16*mbW, 8*mbW, th, il, hev)
			d.Out(y.B)
			d.Out(u.B)
			d.Out(v.B)
			d.OutInt(y.OK() + 2*u.OK() + 4*v.OK())
		}
	}
}

func init() {
	vkReg("SimpleVFilter16", vkRunSimpleFilter(SimpleVFilter16, true, false, true))
	vkReg("SimpleVFilter16i", vkRunSimpleFilter(SimpleVFilter16i, true, true, false))
	vkReg("SimpleHFilter16", vkRunSimpleFilter(SimpleHFilter16, false, false, false))
	vkReg("SimpleHFilter16i", vkRunSimpleFilter(SimpleHFilter16i, false, true, false))
	vkReg("VFilter16+VFilter8", vkRunComplexFilter(func(y, u, v []byte, yb, cb, ys, cs, th, ith, hev int) {
		VFilter16(y, yb, ys, th, ith, hev)
		VFilter8(u, v, cb, cb, cs, th, ith, hev)
	}, false))
	vkReg("HFilter16+HFilter8", vkRunComplexFilter(func(y, u, v []byte, yb, cb, ys, cs, th, ith, hev int) {
		HFilter16(y, yb, ys, th, ith, hev)
		HFilter8(u, v, cb, cb, cs, th, ith, hev)
	}, false))
	vkReg("VFilter16i+VFilter8i", vkRunComplexFilter(func(y, u, v []byte, yb, cb, ys, cs, th, ith, hev int) {
		VFilter16i(y, yb, ys, th, ith, hev)
		VFilter8i(u, v, cb, cb, cs, th, ith, hev)
	}, true))
	vkReg("HFilter16i+HFilter8i", vkRunComplexFilter(func(y, u, v []byte, yb, cb, ys, cs, th, ith, hev int) {
		HFilter16i(y, yb, ys, th, ith, hev)
		HFilter8i(u, v, cb, cb, cs, th, ith, hev)
	}, true))
}

// ---------------------------------------------------------------------------------------------
// Upsampling and YUV -> RGB. Row slices have exactly the lengths webp.buildNRGBA passes:
// len(y)=width, len(u)=len(v)=(width+1)/2, len(dst)=4*width, alpha nil or len width.

func vkRunUpsampleNRGBA(d *VerifDigest, r *VerifRand, n int) {
	one := func(width int, bot, alpha bool, fill func(b []byte)) {
		d.Case()
		cw := (width + 1) / 2
		ty, by := VerifNewGuard(width), VerifNewGuard(width)
		tu, tv, bu, bv := VerifNewGuard(cw), VerifNewGuard(cw), VerifNewGuard(cw), VerifNewGuard(cw)
		td, bd := VerifNewGuard(4*width), VerifNewGuard(4*width)
		ta, ba := VerifNewGuard(width), VerifNewGuard(width)
		for _, g := range []*VerifGuard{ty, by, tu, tv, bu, bv, ta, ba} {
			fill(g.B)
		}
		for i := range td.B {
			td.B[i], bd.B[i] = 0x11, 0x22
		}
		var byS, bdS, taS, baS []byte
		if bot {
			byS, bdS = by.B, bd.B
		}
		if alpha {
			taS = ta.B
			if bot {
				baS = ba.B
			}
		}
		d.InInts("width,bot,alpha", width, len(byS), len(taS))
		d.In("topY", ty.B)
		d.In("botY", byS)
		d.In("topU", tu.B)
		d.In("topV", tv.B)
		d.In("botU", bu.B)
		d.In("botV", bv.B)
		UpsampleLinePairNRGBA(ty.B, byS, tu.B, tv.B, bu.B, bv.B, td.B, bdS, taS, baS, width)
		d.Out(td.B)
		d.Out(bd.B)
		ok := 0
		for i, g := range []*VerifGuard{ty, by, tu, tv, bu, bv, td, bd, ta, ba} {
			ok |= g.OK() << uint(i)
		}
		d.OutInt(ok)
	}
	constFill := func(v byte) func(b []byte) {
		return func(b []byte) {
			for i := range b {
				b[i] = v
			}
		}
	}
	alt := func(b []byte) {
		for i := range b {
			if i&1 == 0 {
				b[i] = 255
			} else {
				b[i] = 0
			}
		}
	}
	// corner: every width 1..41 (all AVX2 / SSE2 / scalar tail combinations) x {pair, single row} x {alpha, none}
	for w := 1; w <= 41; w++ {
		for m := 0; m < 4; m++ {
			for _, f := range []func(b []byte){constFill(0), constFill(255), constFill(128), alt, r.Fill} {
				one(w, m&1 != 0, m&2 != 0, f)
			}
		}
	}
	// widths around the stack/heap switch of the amd64 wrapper's packed-UV buffer (2048 pixels per row pair)
	for _, w := range []int{1023, 1024, 1025, 2047, 2048, 2049, 4095, 4096, 4097} {
		one(w, true, true, r.Fill)
		one(w, false, false, r.Fill)
	}
	for i := 0; i < n; i++ {
		one(r.Range(1, 96), r.Intn(4) != 0, r.Intn(2) == 0, r.Fill)
	}
}

// vkRunUpsampleExhaustive pushes every (y,u,v) triple through UpsampleLinePairNRGBA: chroma rows that
// are constant make the 4-tap kernel reproduce (u,v) exactly, luma sweeps 0..255 (+4 pixels so that in
// the AVX2 build the SSE2 batch and, via width 263, the scalar tail are reached as well).
func vkRunUpsampleExhaustive(d *VerifDigest, r *VerifRand, n int) {
	const width = 263
	y := make([]byte, width)
	for i := range y {
		y[i] = byte(i * 37) // 37 is odd: i=0..255 covers every value
	}
	cw := (width + 1) / 2
	u, v := make([]byte, cw), make([]byte, cw)
	top, bot := make([]byte, 4*width), make([]byte, 4*width)
	for uu := 0; uu < 256; uu++ {
		for i := range u {
			u[i] = byte(uu)
		}
		for vv := 0; vv < 256; vv++ {
			for i := range v {
				v[i] = byte(vv)
			}
			UpsampleLinePairNRGBA(y, y, u, v, u, v, top, bot, nil, nil, width)
			d.Out(top)
			d.Out(bot[:64])
		}
	}
}

func init() {
	vkReg("UpsampleLinePairNRGBA", vkRunUpsampleNRGBA)
	vkReg("UpsampleLinePairNRGBA/all-yuv", vkRunUpsampleExhaustive)
	// plain-Go colour conversion (same code in every build)
	vkReg("UpsampleLinePair+PointSampleRow", func(d *VerifDigest, r *VerifRand, n int) {
		for i := 0; i < n/2+64; i++ {
			d.Case()
			w := 1 + i%48
			cw := (w + 1) / 2
			ty, by := make([]byte, w), make([]byte, w)
			tu, tv, bu, bv := make([]byte, cw), make([]byte, cw), make([]byte, cw), make([]byte, cw)
			for _, b := range [][]byte{ty, by, tu, tv, bu, bv} {
				r.Fill(b)
			}
			td, bd := make([]byte, 3*w), make([]byte, 3*w)
			if i&1 == 0 {
				UpsampleLinePair(ty, by, tu, tv, bu, bv, td, bd, w)
			} else {
				UpsampleLinePair(ty, nil, tu, tv, bu, bv, td, nil, w)
			}
			d.Out(td)
			d.Out(bd)
			PointSampleRow(ty, tu, tv, td, w)
			d.Out(td)
		}
	})
	vkReg("YUVToRGB/all+RGBToYUV", func(d *VerifDigest, r *VerifRand, n int) {
		var px [6]byte
		for y := 0; y < 256; y++ {
			for u := 0; u < 256; u += 3 {
				for v := 0; v < 256; v += 5 {
					YUVToRGB(y, u, v, px[:3])
					YUVToBGR(y, u, v, px[3:])
					d.Out(px[:])
				}
			}
		}
		for i := 0; i < n+512; i++ {
			var R, G, B int
			if i < 512 {
				R, G, B = 255*(i&1), 255*((i>>1)&1), 255*((i>>2)&1)
				if i >= 8 {
					R, G, B = i&255, (i*7)&255, (i*13)&255
				}
			} else {
				R, G, B = r.Intn(256), r.Intn(256), r.Intn(256)
			}
			d.OutInt(int(RGBToY(R, G, B)))
			d.OutInt(int(RGBToYRounding(R, G, B, r.Intn(1<<16))))
			// U/V take sums of four pixels
			d.OutInt(int(RGBToU(4*R, 4*G, 4*B, 1<<17)))
			d.OutInt(int(RGBToV(4*R, 4*G, 4*B, 1<<17)))
			d.OutInt(int(VP8ClipUV(r.Intn(1<<27)-(1<<26), 1<<17)))
		}
	})
	vkReg("ConvertARGBToY+UV", func(d *VerifDigest, r *VerifRand, n int) {
		for i := 0; i < n/2+64; i++ {
			d.Case()
			w := 1 + i%40
			argb := make([]uint32, w)
			for j := range argb {
				argb[j] = r.U32()
				if i < 64 {
					argb[j] = [4]uint32{0, 0xffffffff, 0xff00ff00, 0x00ff00ff}[(i+j)&3]
				}
			}
			y := make([]byte, w)
			u, v := make([]byte, (w+1)/2), make([]byte, (w+1)/2)
			ConvertARGBToY(argb, y, w)
			ConvertARGBToUV(argb, u, v, w, true)
			d.Out(y)
			d.Out(u)
			d.Out(v)
			for j := range argb {
				argb[j] = r.U32()
			}
			ConvertARGBToUV(argb, u, v, w, false)
			d.Out(u)
			d.Out(v)
		}
	})
	vkReg("AccumulateRGBA+ConvertRGBA32ToUV", func(d *VerifDigest, r *VerifRand, n int) {
		var rg VP8Random
		InitRandom(&rg, 0.5)
		for i := 0; i < n/2+64; i++ {
			d.Case()
			w := 1 + i%33
			stride := w + r.Intn(3)
			planes := make([][]byte, 4)
			for k := range planes {
				planes[k] = make([]byte, 2*stride)
				r.Fill(planes[k])
			}
			switch i % 4 {
			case 1:
				for j := range planes[3] {
					planes[3][j] = 255
				}
			case 2:
				for j := range planes[3] {
					planes[3][j] = 0
				}
			}
			cw := (w + 1) / 2
			acc := make([]uint16, 4*cw)
			AccumulateRGBA(planes[0], planes[1], planes[2], planes[3], stride, acc, w)
			d.Out16u(acc)
			u, v := make([]byte, cw), make([]byte, cw)
			ConvertRGBA32ToUV(acc, u, v, cw)
			d.Out(u)
			d.Out(v)
			ConvertRGBA32ToUVDithered(acc, u, v, cw, &rg)
			d.Out(u)
			d.Out(v)
			a, b, c := GammaAverageRGB(r.Intn(256), r.Intn(256), r.Intn(256), r.Intn(256), r.Intn(256), r.Intn(256), r.Intn(256), r.Intn(256), r.Intn(256), r.Intn(256), r.Intn(256), r.Intn(256))
			d.OutInt(a<<16 | b<<8 | c)
		}
	})
}

// ---------------------------------------------------------------------------------------------
// VP8L helpers.

// vkRunGreen: add/subtract green in place on numPixels <= len(argb); every tail length of the 8/4/1
// pixel loops, pixels after numPixels must stay untouched.
func vkRunGreen(fn func(argb []uint32, numPixels int)) func(d *VerifDigest, r *VerifRand, n int) {
	return func(d *VerifDigest, r *VerifRand, n int) {
		call := func(px []uint32, np int) {
			d.Case()
			d.InInts("numPixels", np)
			d.In32("argb", px)
			fn(px, np)
			d.Out32(px)
		}
		// every channel value against every green value (wrap-around of the byte add/sub)
		px := make([]uint32, 256)
		for g := 0; g < 256; g++ {
			for i := range px {
				px[i] = uint32(i)<<16 | uint32(g)<<8 | uint32(255-i) | uint32(i^g)<<24
			}
			call(px, 256)
		}
		for np := 0; np <= 41; np++ {
			for extra := 0; extra <= 3; extra += 3 {
				for _, v := range []uint32{0, 0xffffffff, 0x00ff00ff, 0xff00ff00, 0x80808080, 0x7f817f81} {
					p := make([]uint32, np+extra)
					for i := range p {
						p[i] = v
						if i&1 == 1 {
							p[i] = ^v
						}
					}
					call(p, np)
				}
			}
		}
		for i := 0; i < n; i++ {
			np := r.Intn(80)
			p := make([]uint32, np+r.Intn(4))
			for j := range p {
				p[j] = r.U32()
			}
			call(p, np)
		}
	}
}

func init() {
	vkReg("AddGreenToBlueAndRed", vkRunGreen(AddGreenToBlueAndRed))
	vkReg("AddGreenToBlueAndRedFunc", vkRunGreen(func(a []uint32, n int) { AddGreenToBlueAndRedFunc(a, n) }))
	vkReg("SubtractGreen", vkRunGreen(SubtractGreen))
	vkReg("SubtractGreenFunc", vkRunGreen(func(a []uint32, n int) { SubtractGreenFunc(a, n) }))
	// plain-Go VP8L helpers (same code in every build)
	vkReg("TransformColor+Inverse", func(d *VerifDigest, r *VerifRand, n int) {
		for i := 0; i < n/2+256; i++ {
			d.Case()
			m := Multipliers{GreenToRed: r.Byte(), GreenToBlue: r.Byte(), RedToBlue: r.Byte()}
			if i < 256 {
				m = Multipliers{uint8(i), uint8(255 - i), uint8(i * 7)}
			}
			w := 1 + r.Intn(32)
			src, dst, back := make([]uint32, w), make([]uint32, w), make([]uint32, w)
			for j := range src {
				src[j] = r.U32()
			}
			TransformColor(&m, src, w, dst)
			TransformColorInverse(&m, dst, w, back)
			d.Out32(dst)
			d.Out32(back)
		}
	})
	vkReg("LosslessPredictors", func(d *VerifDigest, r *VerifRand, n int) {
		edge := []uint32{0, 0xffffffff, 0xff000000, 0x00ffffff, 0x80808080, 0x7f7f7f7f, 0x01010101, 0xfefefefe}
		top := make([]uint32, 3)
		out := make([]uint32, 16)
		call := func(left uint32) {
			for m := 0; m < 16; m++ {
				l := left
				out[m] = LosslessPredictors[m](&l, top)
			}
			d.Out32(out)
		}
		for _, a := range edge {
			for _, b := range edge {
				for _, c := range edge {
					for _, e := range edge {
						top[0], top[1], top[2] = a, b, c
						call(e)
					}
				}
			}
		}
		for i := 0; i < n; i++ {
			top[0], top[1], top[2] = r.U32(), r.U32(), r.U32()
			if i&3 == 0 { // near-equal neighbours: Select / ClampedAddSubtract ties
				top[1] = top[0] ^ uint32(1<<uint(r.Intn(32)))
				top[2] = top[0]
			}
			call(r.U32())
		}
	})
	vkReg("ColorIndex+Bundle+MapColor+ConvertBGRA", func(d *VerifDigest, r *VerifRand, n int) {
		for i := 0; i < n/4+32; i++ {
			d.Case()
			w := 1 + r.Intn(40)
			pal := make([]uint32, 1+r.Intn(256))
			for j := range pal {
				pal[j] = r.U32()
			}
			src := make([]uint32, w)
			row := make([]byte, w)
			for j := range src {
				src[j] = r.U32()
				row[j] = r.Byte()
			}
			dst := make([]uint32, w)
			ColorIndexInverseTransform(pal, src, w, dst)
			d.Out32(dst)
			xb := i & 3
			for j := range row {
				row[j] &= byte(1<<(8>>uint(xb))) - 1
			}
			BundleColorMap(row, w, xb, dst)
			d.Out32(dst)
			full := make([]uint32, 256)
			for j := range full {
				full[j] = r.U32()
			}
			MapColor32b(src, full, dst, 0, 1, w)
			d.Out32(dst)
			b8 := make([]byte, w)
			MapColor8b(row, full, b8, 0, 1, w)
			d.Out(b8)
			by := make([]byte, 4*w)
			ConvertBGRAToRGBA(src, w, by)
			d.Out(by)
			ConvertBGRAToRGB(src, w, by)
			d.Out(by[:3*w])
			ConvertBGRAToBGR(src, w, by)
			d.Out(by[:3*w])
			ConvertBGRAToRGBA4444(src, w, by)
			d.Out(by[:2*w])
			ConvertBGRAToRGB565(src, w, by)
			d.Out(by[:2*w])
		}
	})
}

// ---------------------------------------------------------------------------------------------
// Alpha helpers, scalar quantisation helpers, rescaler, dithering PRNG, cost tables (plain Go everywhere).

func init() {
	vkReg("AlphaMultiply", func(d *VerifDigest, r *VerifRand, n int) {
		// every (alpha, value) pair, both directions
		row := make([]uint32, 256)
		by := make([]byte, 4*256)
		for a := 0; a < 256; a++ {
			for inv := 0; inv < 2; inv++ {
				for i := range row {
					row[i] = uint32(a)<<24 | uint32(i)<<16 | uint32(255-i)<<8 | uint32(i)
					if inv == 1 { // premultiplied input: channels <= alpha
						c := uint32(i * a / 255)
						row[i] = uint32(a)<<24 | c<<16 | c<<8 | c
					}
					by[4*i], by[4*i+1], by[4*i+2], by[4*i+3] = byte(row[i]>>16), byte(row[i]>>8), byte(row[i]), byte(a)
				}
				MultARGBRow(row, 256, inv == 1)
				d.Out32(row)
				MultRow(by, 256, 4, inv == 1)
				d.Out(by)
			}
		}
		for i := 0; i < n/4+16; i++ {
			d.Case()
			w, h := 1+r.Intn(24), 1+r.Intn(4)
			stride := 4*w + 4*r.Intn(3)
			buf := make([]byte, stride*h)
			r.Fill(buf)
			ApplyAlphaMultiply(buf, i&1 == 0, w, h, stride, false)
			d.Out(buf)
			b4 := make([]byte, 2*w*h)
			r.Fill(b4)
			ApplyAlphaMultiply4444(b4, w, h, 2*w)
			d.Out(b4)
		}
	})
	vkReg("AlphaDispatch+Extract", func(d *VerifDigest, r *VerifRand, n int) {
		for i := 0; i < n/4+16; i++ {
			d.Case()
			w, h := 1+r.Intn(24), 1+r.Intn(4)
			alpha := make([]byte, w*h)
			r.Fill(alpha)
			if i%5 == 0 {
				for j := range alpha {
					alpha[j] = 255
				}
			}
			dst := make([]byte, 4*w*h)
			r.Fill(dst)
			d.OutBool(DispatchAlpha(alpha, w, w, h, dst, 4*w, 3*(i&1)))
			d.Out(dst)
			back := make([]byte, w*h)
			d.OutInt(ExtractAlpha(dst, 4*w, w, h, back, w, 3*(i&1)))
			d.Out(back)
			d.OutBool(HasAlpha8b(alpha, w*h))
			d.OutBool(HasAlpha32b(dst, w*h))
			g := make([]uint32, w*h)
			DispatchAlphaToGreen(alpha, w, w, h, g, w)
			d.Out32(g)
			ExtractGreen(g, back, w*h)
			d.Out(back)
			for j := range g {
				g[j] = r.U32() & [2]uint32{0xffffffff, 0x00ffffff}[r.Intn(2)]
			}
			AlphaReplace(g, w*h, 0x00123456)
			d.Out32(g)
			PackRGB(dst, dst[1:], dst[2:], w*h, 4, g)
			d.Out32(g)
		}
	})
	vkReg("Quantize+Dequantize(dsp)", func(d *VerifDigest, r *VerifRand, n int) {
		in, out, back := make([]int16, 16), make([]int16, 16), make([]int16, 16)
		for i := 0; i < n+64; i++ {
			d.Case()
			q := r.Range(1, 157)
			for j := range in {
				in[j] = int16(r.Range(-2048, 2048))
			}
			Quantize(in, out, q)
			d.Out16(out)
			Dequantize(out, back, q)
			d.Out16(back)
			d.OutInt(QuantizeBlock(in, out, q))
			d.Out16(out)
			DequantizeBlock(out, back, q)
			d.Out16(back)
		}
	})
	vkReg("Rescaler", func(d *VerifDigest, r *VerifRand, n int) {
		for i := 0; i < n/64+24; i++ {
			d.Case()
			sw, sh, dw, dh := 1+r.Intn(40), 1+r.Intn(24), 1+r.Intn(40), 1+r.Intn(24)
			var rs Rescaler
			RescalerInit(&rs, sw, sh, dw, dh)
			src, dst := make([]byte, sw), make([]byte, dw)
			sy := 0
			for rs.DstY < dh && sy <= sh+dh {
				if RescalerNeedsSrcRow(&rs) && sy < sh {
					r.Fill(src)
					RescalerImportRow(&rs, src)
					sy++
				} else if !RescalerHasDstRow(&rs) {
					break
				}
				for RescalerHasDstRow(&rs) && rs.DstY < dh {
					if !RescalerExportRow(&rs, dst) {
						break
					}
					d.Out(dst)
				}
			}
			d.OutInt(rs.DstY)
		}
	})
	vkReg("RandomBits+Cost", func(d *VerifDigest, r *VerifRand, n int) {
		for _, amp := range []float32{-1, 0, 0.25, 0.5, 1, 2} {
			var rg VP8Random
			InitRandom(&rg, amp)
			for i := 0; i < n/8+256; i++ {
				d.OutInt(RandomBits(&rg, 1+i%18))
				d.OutInt(RandomBits2(&rg, 1+i%18, i%257))
			}
		}
		for p := 0; p < 256; p++ {
			d.OutInt(VP8BitCost(0, uint8(p)))
			d.OutInt(VP8BitCost(1, uint8(p)))
		}
		for l := 0; l < 2100; l++ {
			d.OutInt(VP8LevelCost(VP8LevelFixedCosts[:], l))
		}
		for v := -1020; v <= 1020; v++ {
			if v >= -893 && v <= 892 {
				d.OutInt(int(Ksclip1(v)))
			}
			if v >= -112 && v <= 112 {
				d.OutInt(int(Ksclip2(v)))
			}
			if v >= -255 && v <= 511 {
				d.OutInt(int(Kclip1(v)))
			}
			if v >= -255 && v <= 255 {
				d.OutInt(int(Kabs0(v)))
			}
			d.OutInt(int(Clip8b(v)))
		}
	})
}

// ---------------------------------------------------------------------------------------------
// Re-exports for the internal/lossy exerciser (reference arithmetic and vector generators).

func VerifRefFDCT(s, r *[16]byte) [16]int16                       { return vkRefFDCT(s, r) }
func VerifRefFWHT(in *[16]int16) [16]int16                        { return vkRefFWHT(in) }
func VerifRandPair(r *VerifRand, s, p *[16]byte)                  { vkRandPair(r, s, p) }
func VerifCornerPairs4x4(emit func(s, r *[16]byte))               { vkCornerPairs4x4(emit) }
func VerifCornerWHTDCs(emit func(dcs *[16]int16))                 { vkCornerWHTDCs(emit) }
func VerifPut4x4(buf []byte, off int, b *[16]byte)                { vkPut4x4(buf, off, b) }
func VerifWindow(d *VerifDigest, buf []byte, off, rows, cols int) { vkWindow(d, buf, off, rows, cols) }
