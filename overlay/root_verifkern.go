//go:build verif

// Verification overlay (never part of the repository). Injected by /verif/tools/mkoverlay.py as
// verifkern_verif.go of package webp: re-exports the kernel-level exercisers of the internal packages
// (property C13), because the harness lives outside this module.

package webp

import (
	"sort"

	"github.com/deepteams/webp/internal/dsp"
	"github.com/deepteams/webp/internal/lossy"
)

// VerifKernelDigests returns one "<kernel-name> <hex digest>" line per kernel, sorted by name. Each
// digest covers all outputs of that kernel over its corner vectors followed by n random vectors drawn
// (deterministically from seed) from the kernel's legal input range.
func VerifKernelDigests(seed int64, n int) []string {
	lines := append(dsp.VerifKernels(seed, n), lossy.VerifKernels(seed, n)...)
	sort.Strings(lines)
	return lines
}

// VerifKernelHasAVX2 reports which dispatch the running binary selected.
func VerifKernelHasAVX2() bool { return dsp.HasAVX2() }
