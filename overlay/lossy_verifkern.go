//go:build verif

// Verification overlay (never part of the repository). Injected by /verif/tools/mkoverlay.py as
// internal/lossy/verifkern_verif.go. Kernel-level exerciser (property C13) for the arch-specific part
// of this package: QuantizeCoeffs / DequantCoeffs (AVX2, SSE2 or Go, selected in encode_quant_*.go),
// driven with the quantisation matrices setupSegment builds for every quantiser index 0..127, plus
// encoder-order chains of the dsp kernels (forward DCT -> quantise -> dequantise -> inverse DCT ->
// distortion) so that the inverse transforms see exactly the coefficients the encoder feeds them.

package lossy

import (
	"fmt"

	"github.com/deepteams/webp/internal/dsp"
)

type vkMatrix struct {
	q      int
	y1, y2 SegmentQuant
	uv     SegmentQuant
}

// vkMatrices: the three matrices of every quantiser index, for the UV deltas setSegmentParams can
// produce (dq_uv_dc in [-4,0], dq_uv_ac in [-4,6]); luma deltas are always 0 in this encoder.
func vkMatrices() []vkMatrix {
	enc := new(VP8Encoder)
	var ms []vkMatrix
	for _, dq := range [][2]int{{0, 0}, {-4, 6}, {-2, -4}, {-4, 2}} {
		enc.dqUVDC, enc.dqUVAC = dq[0], dq[1]
		for q := 0; q < 128; q++ {
			if q%2 == 1 && dq != [2]int{0, 0} {
				continue
			}
			setupSegment(enc, 0, q)
			ms = append(ms, vkMatrix{q, enc.dqm[0].Y1, enc.dqm[0].Y2, enc.dqm[0].UV})
		}
	}
	return ms
}

type vkKind int

const (
	vkY1   vkKind = iota // 4x4 luma block coded with its DC (intra4x4)
	vkY1AC               // luma block of an intra16x16 macroblock: firstCoeff = 1
	vkY2                 // WHT block
	vkUV
)

func (k vkKind) String() string { return [...]string{"Y1.first0", "Y1.first1", "Y2", "UV"}[k] }

func (m *vkMatrix) sq(k vkKind) *SegmentQuant {
	switch k {
	case vkY2:
		return &m.y2
	case vkUV:
		return &m.uv
	}
	return &m.y1
}

// legal magnitude of a coefficient entering the quantiser: forward DCT outputs stay within +-2040,
// forward WHT outputs within +-16320 (16 DCs of +-2040, halved).
func (k vkKind) maxAbs() int {
	if k == vkY2 {
		return 16320
	}
	return 2040
}

func vkRunQuant(k vkKind) func(d *dsp.VerifDigest, r *dsp.VerifRand, n int) {
	return func(d *dsp.VerifDigest, r *dsp.VerifRand, n int) {
		ms := vkMatrices()
		first := 0
		if k == vkY1AC {
			first = 1
		}
		inBuf := make([]int16, 16+8)
		outBuf := make([]int16, 16+8)
		dqBuf := make([]int16, 16+8)
		call := func(m *vkMatrix, c *[16]int16, alias bool) {
			d.Case()
			sq := m.sq(k)
			d.InInts("q,first,alias", m.q, first, b2i(alias))
			d.In16("in", c[:])
			for i := range inBuf {
				inBuf[i], outBuf[i], dqBuf[i] = 0x5a5a, 0x6b6b, 0x7c7c
			}
			copy(inBuf, c[:])
			var nz int
			var lv []int16
			if alias { // encode_frame.go quantises info.Coeffs in place
				nz = QuantizeCoeffs(inBuf[:16], inBuf[:16], sq, first)
				lv = inBuf
			} else {
				nz = QuantizeCoeffs(inBuf[:16], outBuf[:16], sq, first)
				lv = outBuf
			}
			d.OutInt(nz)
			d.Out16(inBuf)
			d.Out16(outBuf)
			DequantCoeffs(lv[:16], dqBuf[:16], sq)
			d.Out16(dqBuf)
			d.Out16(lv)
		}
		lim := k.maxAbs()
		var c [16]int16
		cnt := 0
		for mi := range ms {
			m := &ms[mi]
			sq := m.sq(k)
			// all-zero, all-extreme, alternating
			for _, v := range []int{0, lim, -lim, 1, -1} {
				for i := range c {
					c[i] = int16(v)
				}
				call(m, &c, cnt&1 == 0)
				cnt++
			}
			for i := range c {
				c[i] = int16(lim * (1 - 2*(i&1)))
			}
			call(m, &c, false)
			// impulse at every position (nzCount scan), large and just above / at / below the zero threshold
			for pos := 0; pos < 16; pos++ {
				zt := sq.Zthresh
				if pos == 0 {
					zt = sq.DCZthresh
				}
				for _, v := range []int{lim, -lim, zt + 1, zt, -(zt + 1), zt - int(sq.Sharpen[pos])} {
					if v > lim || v < -lim {
						continue
					}
					c = [16]int16{}
					c[pos] = int16(v)
					call(m, &c, pos&1 == 0)
				}
			}
			// rounding ties: 16 consecutive magnitudes per call sweeping 0 .. 3 quantiser steps, signs mixed,
			// rotated over the positions
			qmax := sq.Quant
			if sq.DCQuant > qmax {
				qmax = sq.DCQuant
			}
			rot := 0
			for v0 := 0; v0 <= 3*qmax+16; v0 += 16 {
				for i := range c {
					v := v0 + ((i + rot) & 15)
					if v > lim {
						v = lim
					}
					if (i+rot)&2 != 0 {
						v = -v
					}
					c[i] = int16(v)
				}
				rot += 5
				call(m, &c, rot&1 == 0)
			}
		}
		// random: reference DCT/WHT outputs of random pixel data, and uniform legal coefficients
		var s, p [16]byte
		for i := 0; i < n; i++ {
			m := &ms[r.Intn(len(ms))]
			switch {
			case k == vkY2 && i&1 == 0:
				var dcs [16]int16
				for j := range dcs {
					dsp.VerifRandPair(r, &s, &p)
					cc := dsp.VerifRefFDCT(&s, &p)
					dcs[j] = cc[0]
				}
				c = dsp.VerifRefFWHT(&dcs)
			case k != vkY2 && i%3 != 0:
				dsp.VerifRandPair(r, &s, &p)
				c = dsp.VerifRefFDCT(&s, &p)
			default:
				a := lim
				if r.Intn(2) == 0 {
					a = 1 + r.Intn(4*m.sq(k).Quant)
					if a > lim {
						a = lim
					}
				}
				for j := range c {
					c[j] = int16(r.Range(-a, a))
				}
			}
			call(m, &c, r.Intn(2) == 0)
		}
	}
}

// vkRunDequantLevels: DequantCoeffs over the whole legal level range (|level| <= 2047) for every matrix.
func vkRunDequantLevels(d *dsp.VerifDigest, r *dsp.VerifRand, n int) {
	ms := vkMatrices()
	in, out := make([]int16, 16), make([]int16, 16+8)
	call := func(sq *SegmentQuant) {
		d.Case()
		d.InInts("q,dcq", sq.Quant, sq.DCQuant)
		d.In16("levels", in)
		for i := range out {
			out[i] = 0x5a5a
		}
		DequantCoeffs(in, out[:16], sq)
		d.Out16(out)
		d.Out16(in)
	}
	for mi := range ms {
		for k := vkY1; k <= vkUV; k++ {
			if k == vkY1AC {
				continue
			}
			sq := ms[mi].sq(k)
			for _, v := range []int16{0, 1, -1, 2047, -2047, 1024, -1023} {
				for i := range in {
					in[i] = v
					if i&1 == 1 && v > 1 {
						in[i] = -v
					}
				}
				call(sq)
			}
		}
	}
	for i := 0; i < n; i++ {
		m := &ms[r.Intn(len(ms))]
		for j := range in {
			in[j] = int16(r.Range(-2047, 2047))
		}
		call(m.sq([3]vkKind{vkY1, vkY2, vkUV}[r.Intn(3)]))
	}
}

// vkRunChain4x4: the encoder's per-block chain for an intra4x4 luma block (uv=false) or a chroma block:
// FTransformDirect -> QuantizeCoeffs -> DequantCoeffs -> ITransformDirect (into tmpRecon for luma, in
// place for chroma, as encodeI4Residuals / the UV loop do) -> SSE4x4Direct, TDisto4x4.
func vkRunChain4x4(uv bool) func(d *dsp.VerifDigest, r *dsp.VerifRand, n int) {
	return func(d *dsp.VerifDigest, r *dsp.VerifRand, n int) {
		ms := vkMatrices()
		src, pred := dsp.VerifNewGuard(YUVSize), dsp.VerifNewGuard(YUVSize)
		recon := dsp.VerifNewGuard(4 * BPS)
		r.Fill(src.B)
		r.Fill(pred.B)
		var offs []int
		for i := 0; i < 16 && !uv; i++ {
			offs = append(offs, YOff+dsp.DspScan[i])
		}
		for i := 0; i < 8 && uv; i++ {
			offs = append(offs, UOff+dsp.DspScan[16+i])
		}
		var co, qc, dq [16]int16
		call := func(m *vkMatrix, off int, s, p *[16]byte) {
			d.Case()
			d.InInts("q,off", m.q, off)
			d.In("src", s[:])
			d.In("pred", p[:])
			sq := &m.y1
			if uv {
				sq = &m.uv
			}
			dsp.VerifPut4x4(src.B, off, s)
			dsp.VerifPut4x4(pred.B, off, p)
			dsp.FTransformDirect(src.B[off:], pred.B[off:], co[:])
			d.Out16(co[:])
			nz := QuantizeCoeffs(co[:], qc[:], sq, 0)
			d.OutInt(nz)
			d.Out16(qc[:])
			DequantCoeffs(qc[:], dq[:], sq)
			d.Out16(dq[:])
			if uv {
				dsp.ITransformDirect(pred.B[off:], dq[:], pred.B[off:], false)
				dsp.VerifWindow(d, pred.B, off, 4, 4)
				d.OutInt(dsp.SSE4x4Direct(src.B[off:], pred.B[off:]))
			} else {
				dsp.ITransformDirect(pred.B[off:], dq[:], recon.B, false)
				d.Out(recon.B)
				d.OutInt(dsp.SSE4x4Direct(src.B[off:], recon.B))
				d.OutInt(dsp.TDisto4x4(src.B[off:], recon.B))
			}
		}
		k := 0
		dsp.VerifCornerPairs4x4(func(s, p *[16]byte) {
			// finest, coarsest and a rotating quantiser index
			for _, mi := range []int{0, 127, k % 128} {
				call(&ms[mi], offs[k%len(offs)], s, p)
			}
			k++
		})
		var s, p [16]byte
		for i := 0; i < n; i++ {
			dsp.VerifRandPair(r, &s, &p)
			call(&ms[r.Intn(len(ms))], offs[r.Intn(len(offs))], &s, &p)
		}
		d.Out(src.B)
		d.Out(pred.B)
		d.OutInt(src.OK() + 2*pred.OK() + 4*recon.OK())
	}
}

// vkRunChainI16: the intra16x16 chain: 16 forward DCTs, forward WHT of the DCs, Y2 quantisation, inverse
// WHT, AC quantisation with firstCoeff=1, 16 in-place inverse DCTs, SSE16x16Direct and TDisto16x16.
func vkRunChainI16(d *dsp.VerifDigest, r *dsp.VerifRand, n int) {
	ms := vkMatrices()
	src, pred := dsp.VerifNewGuard(YUVSize), dsp.VerifNewGuard(YUVSize)
	var coeffs [256]int16
	var dcs, wht, whtQ, whtDQ, dq [16]int16
	var whtBuf [256]int16
	call := func(m *vkMatrix) {
		d.Case()
		d.InInts("q", m.q)
		d.In("src", src.B)
		d.In("pred", pred.B)
		for b := 0; b < 16; b++ {
			off := YOff + dsp.DspScan[b]
			dsp.FTransformDirect(src.B[off:], pred.B[off:], coeffs[b*16:b*16+16])
			dcs[b] = coeffs[b*16]
		}
		dsp.FTransformWHT(dcs[:], wht[:])
		d.Out16(wht[:])
		d.OutInt(QuantizeCoeffs(wht[:], whtQ[:], &m.y2, 0))
		d.Out16(whtQ[:])
		DequantCoeffs(whtQ[:], whtDQ[:], &m.y2)
		dsp.TransformWHT(whtDQ[:], whtBuf[:])
		d.Out16(whtBuf[:])
		for b := 0; b < 16; b++ {
			off := YOff + dsp.DspScan[b]
			blk := coeffs[b*16 : b*16+16]
			d.OutInt(QuantizeCoeffs(blk, blk, &m.y1, 1))
			DequantCoeffs(blk, dq[:], &m.y1)
			dq[0] = whtBuf[b*16]
			dsp.ITransformDirect(pred.B[off:], dq[:], pred.B[off:], false)
		}
		d.Out16(coeffs[:])
		d.Out(pred.B)
		d.OutInt(dsp.SSE16x16Direct(src.B[YOff:], pred.B[YOff:]))
		d.OutInt(dsp.TDisto16x16(src.B[YOff:], pred.B[YOff:]))
		d.OutInt(src.OK() + 2*pred.OK())
	}
	fill := func(g *dsp.VerifGuard, f func(x, y int) byte) {
		for y := 0; y < 16; y++ {
			for x := 0; x < 16; x++ {
				g.B[YOff+y*BPS+x] = f(x, y)
			}
		}
	}
	flat := func(v byte) func(x, y int) byte { return func(x, y int) byte { return v } }
	pats := []func(x, y int) byte{
		flat(0), flat(255), flat(128),
		func(x, y int) byte { return byte(255 * ((x + y) & 1)) },
		func(x, y int) byte { return byte(255 * ((x>>2 + y>>2) & 1)) },
		func(x, y int) byte { return byte(255 * (x & 1)) },
		func(x, y int) byte { return byte(255 * ((y >> 2) & 1)) },
		func(x, y int) byte { return byte(x*16 + y) },
	}
	for _, mi := range []int{0, 20, 64, 100, 127} {
		for _, ps := range pats {
			for _, pp := range pats {
				fill(src, ps)
				fill(pred, pp)
				call(&ms[mi])
			}
		}
	}
	blk := make([]byte, 256)
	for i := 0; i < n/8+8; i++ {
		r.Fill(blk)
		fill(src, func(x, y int) byte { return blk[y*16+x] })
		if i%3 == 0 {
			r.Fill(blk)
		} else {
			amp := 1 + r.Intn(48)
			for j := range blk {
				v := int(blk[j]) + r.Intn(2*amp+1) - amp
				if v < 0 {
					v = 0
				} else if v > 255 {
					v = 255
				}
				blk[j] = byte(v)
			}
		}
		fill(pred, func(x, y int) byte { return blk[y*16+x] })
		call(&ms[r.Intn(len(ms))])
	}
}

// VerifKernels runs every internal/lossy kernel and returns sorted "<name> <digest>" lines.
func VerifKernels(seed int64, n int) []string {
	var names []string
	var runs []func(d *dsp.VerifDigest, r *dsp.VerifRand, n int)
	reg := func(name string, f func(d *dsp.VerifDigest, r *dsp.VerifRand, n int)) {
		names = append(names, "lossy."+name)
		runs = append(runs, f)
	}
	for k := vkY1; k <= vkUV; k++ {
		reg(fmt.Sprintf("QuantizeCoeffs+DequantCoeffs/%v", k), vkRunQuant(k))
	}
	reg("DequantCoeffs/levels", vkRunDequantLevels)
	reg("chain/I4-luma", vkRunChain4x4(false))
	reg("chain/UV", vkRunChain4x4(true))
	reg("chain/I16", vkRunChainI16)
	return dsp.VerifRunKernels(seed, n, names, runs)
}
