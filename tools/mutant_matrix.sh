#!/bin/bash
# mutant_matrix.sh [ids...] -- run each seeded change against the check of the property it targets (quick tier) and
# append the outcome to seeded/RESULTS.tsv (id, property, check, tier, outcome, first violation class).
VROOT="$(cd "$(dirname "$(readlink -f "$0")")/.." && pwd)"  # the /verif copy this tool belongs to (a vp-run snapshot uses its own)
cd "$VROOT"
ids=${@:-$(ls seeded | grep -v RESULTS)}
for id in $ids; do
  [ -f seeded/$id/patch.diff ] || continue
  prop=$(python3 -c "import json,sys;print(json.load(open('seeded/$id/meta.json')).get('property',''))" 2>/dev/null)
  [ -z "$prop" ] && prop=$(echo $id | sed 's/^own-//; s/-.*//; s/[a-z]$//')
  line=$("$VROOT"/tools/try_mutant.sh $id $prop quick 2>&1 | tail -1)
  outcome=$(echo "$line" | awk '{print $1}')
  cls=$(echo "$line" | grep -o 'class=[^ ]*' | head -1)
  echo -e "$id\t$prop\t$prop\tquick\t$outcome\t$cls\t$(git -C /repo rev-parse --short HEAD)" | tee -a seeded/RESULTS.tsv
done
