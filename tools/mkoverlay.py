#!/usr/bin/env python3
"""mkoverlay.py <repo> <outdir> <kind>   kind = ovl | portable
Writes <outdir>/overlay-<kind>.json for `go build -overlay`.
 ovl:      adds internal/dsp/cpuid_amd64_verif.go (env VERIF_NOAVX2=1 clears hasAVX2 before the dispatch init runs)
 portable: maps every *_amd64.go / *_amd64.s to "deleted" and rewrites the `amd64` token in the //go:build line of every other
           file to an always-false tag, so the `!amd64` (pure Go) files are compiled: what a non-amd64, non-arm64 target builds.
Never replaces the content of a file that exists in the repo except for the //go:build line rewrite of the portable variant.
 both:     when <verif>/overlay/ exists (next to tools/), its kernel-exerciser sources are injected as new files
           (tag `verif`): dsp_verifkern.go -> internal/dsp/verifkern_verif.go, lossy_verifkern.go ->
           internal/lossy/verifkern_verif.go, root_verifkern.go -> verifkern_verif.go. They never exist in the repo."""
import json, os, re, sys
repo, outdir, kind = sys.argv[1], sys.argv[2], sys.argv[3]
repo = os.path.abspath(repo)
os.makedirs(outdir, exist_ok=True)
rep = {}
if kind in ('ovl',):
    p = os.path.join(outdir, 'cpuid_amd64_verif.go')
    open(p, 'w').write('''//go:build amd64

package dsp

import "os"

// Verification overlay (never part of the repository): runs after cpuid_amd64.go's init and before
// dsp_amd64.go's dispatch init (init order within a package follows file names).
func init() {
	if os.Getenv("VERIF_NOAVX2") == "1" {
		hasAVX2 = false
	}
}
''')
    rep[os.path.join(repo, 'internal/dsp/cpuid_amd64_verif.go')] = p
elif kind == 'portable':
    n = 0
    for root, dirs, files in os.walk(repo):
        dirs[:] = [d for d in dirs if not d.startswith('.') and d not in ('testdata', '_seeded')]
        for f in files:
            full = os.path.join(root, f)
            if f.endswith('_amd64.go') or f.endswith('_amd64.s'):
                rep[full] = ""
                continue
            if f.endswith('_amd64_test.go'):
                rep[full] = ""
                continue
            if not f.endswith('.go'):
                continue
            src = open(full, encoding='utf-8', errors='replace').read()
            m = re.search(r'^//go:build (.*)$', src, re.M)
            if m and re.search(r'\bamd64\b', m.group(1)):
                new = re.sub(r'\bamd64\b', 'verif_never_set', m.group(1))
                out = src.replace(m.group(0), '//go:build ' + new, 1)
                n += 1
                p = os.path.join(outdir, 'portable_%d_%s' % (n, f))
                open(p, 'w').write(out)
                rep[full] = p
# kernel-level exerciser (C13): extra files injected into the library's packages, same for every kind
ovdir = os.environ.get('VERIF_OVERLAY_DIR') or os.path.join(os.path.dirname(os.path.dirname(os.path.abspath(__file__))), 'overlay')
for srcname, dst in (('dsp_verifkern.go', 'internal/dsp/verifkern_verif.go'),
                     ('lossy_verifkern.go', 'internal/lossy/verifkern_verif.go'),
                     ('root_verifkern.go', 'verifkern_verif.go')):
    sp = os.path.join(ovdir, srcname)
    target = os.path.join(repo, dst)
    if os.path.isfile(sp) and not os.path.exists(target):
        rep[target] = sp
json.dump({"Replace": rep}, open(os.path.join(outdir, 'overlay-%s.json' % kind), 'w'), indent=1)
print(os.path.join(outdir, 'overlay-%s.json' % kind))
