#!/bin/bash
# revert_matrix.sh -- for every repaired defect in known_findings.json: revert its fix commit in a scratch worktree of /repo HEAD
# and run the quick tier of the property's check. One line per defect: id, property, commit, DETECTED/MISSED/REVERT-CONFLICT.
VROOT="$(cd "$(dirname "$(readlink -f "$0")")/.." && pwd)"
cd "$VROOT"
python3 - <<'PY' > /tmp/vt/revert_list.txt
import json
d=json.load(open('known_findings.json'))
seen=set()
for f in d['findings']:
    if f['status']=='fixed' and f.get('commit') and (f['id'],f['commit']) not in seen:
        seen.add((f['id'],f['commit']))
        print(f['id'], f['property'], f['commit'])
PY
while read id prop commit; do
  line=$("$VROOT"/tools/try_revert.sh $commit $prop quick 2>&1 | tail -1 | cut -c1-160)
  echo -e "$id\t$prop\t$commit\t$line"
done < /tmp/vt/revert_list.txt
