#!/usr/bin/env python3
"""Print the prompt given to a mutation sub-agent: property text + its scratch worktree. Nothing from /verif."""
import json, sys
pid, wt = sys.argv[1], sys.argv[2]
extra = sys.argv[3] if len(sys.argv) > 3 else ""
for l in open('/verif/properties.jsonl'):
    p = json.loads(l)
    if p['id'] == pid:
        break
print(f"""You are helping evaluate a verification framework for the Go library deepteams/webp (a pure-Go WebP encoder/decoder). Your job is to play the role of a developer who introduces a realistic, subtle regression.

You have your own scratch git worktree of the library at {wt} (work ONLY there; never touch /repo and never read or write anything under /verif). Environment: before every go command run `export GOFLAGS=-mod=mod GOPROXY=off GOTOOLCHAIN=local; export PATH=/root/go/pkg/mod/golang.org/toolchain@v0.0.1-go1.24.2.linux-amd64/bin:$PATH` (no network is available). The test suite runs with `cd {wt} && go build ./... && go test -vet=off -count=1 -timeout 25m ./...` (about 20 s).

The property that must be broken:

  Title: {p['title']}
  Statement: {p['statement']}
  Scope (what it quantifies over): {p['quantifier']['text']}

Task: make ONE small change to the library source (non-test .go or .s files under {wt}) that breaks this property while (a) the module still compiles (`go build ./...` and `go vet` need not be clean, but build must pass) and (b) the ENTIRE existing test suite still passes, unedited. The change must look like a plausible mistake or "optimisation" a developer could make (a dropped bounds/length check, an off-by-one on an edge case, a wrong constant in one code path, a missed reset of reused state, a reordered pair of operations, a condition that is right alone but wrong together with another site, ...). It must need something SPECIFIC to manifest - a particular interleaving, an unusual input (odd size, particular option combination, particular bitstream feature), a multi-step sequence of calls, or two cooperating sites - NOT something that ordinary use (encode/decode one typical image with default options) would expose at once. Do not add test-only switches, environment variables or obviously malicious code. {extra}

Deliverables, all inside {wt}/_seeded/ (create the directory):
  1. patch.diff  - `git -C {wt} diff` of your source change only (do not include _seeded/ or the demo in it).
  2. a demonstration: either demo_test.go (a Go test file, with a comment on top saying into which package directory it must be copied to run, using only that package's API) or demo/main.go (a small program using the public API, runnable with `go run` from inside the worktree's module). It must FAIL (non-zero exit / test failure) with your change applied and PASS on the unchanged tree. Verify both directions yourself (use `git stash` or `git diff > patch; git checkout -- .; ...; git apply patch`).
  3. meta.json - {{"property": "{pid}", "summary": "<one sentence: what was changed>", "needs": "<what specific input/sequence/interleaving is needed for it to manifest>", "files": ["<changed files>"], "suite_passes": true, "demo_cmd": "<exact command to run the demonstration from the worktree root>"}}

Before finishing: make sure the patch is applied in the worktree, the full test suite passes with it, the demo fails with it and passes without it. Leave the worktree with the patch applied and the three files in _seeded/. In your final answer give a 5-line summary: the change, why the suite misses it, what is needed to trigger it, and the demo command.""")
