#!/bin/bash
# coverage.sh [tier] [checks...]  -- statement coverage of the library under the monitors (diagnostic, not a registered check).
# Builds vcheck with -cover -coverpkg=<library>/..., runs the given checks (default: all twenty, quick tier) with evidence
# redirected to a scratch directory, and prints per-package percentages plus every library function the monitors never
# entered. The std binary only: C10's -race child and C13's overlay builds are not instrumented.
set -u
VROOT=$(dirname "$(dirname "$(readlink -f "$0")")")
tier=${1:-quick}; shift 2>/dev/null
checks=${*:-C01 C02 C03 C04 C05 C06 C07 C08 C09 C10 C11 C12 C13 C14 C15 C16 C17 C18 C19 C20}
GO=/root/go/pkg/mod/golang.org/toolchain@v0.0.1-go1.24.2.linux-amd64/bin/go
export GOTOOLCHAIN=local GOFLAGS=-mod=mod GOPROXY=off GOSUMDB=off CGO_ENABLED=1
W=$(mktemp -d /tmp/vcov.XXXXXX); mkdir -p $W/cov $W/out
( cd $VROOT/harness && $GO build -cover -coverpkg=github.com/deepteams/webp/...,./cmd/vcheck -tags verif -o $W/vcheck-cover ./cmd/vcheck ) || exit 2
$VROOT/run.sh build >/dev/null || exit 2
export GOCOVERDIR=$W/cov VERIF_OUT=$W/out VERIF_ROOT=$VROOT VERIF_REPO_DIR=/repo VERIF_GO=$GO VERIF_EXE=$W/vcheck-cover
export VERIF_EXE_RACE=$VROOT/harness/bin/vcheck-race VERIF_EXE_OVL=$VROOT/harness/bin/vcheck-ovl VERIF_EXE_PORTABLE=$VROOT/harness/bin/vcheck-portable
for c in $checks; do
  ( cd $VROOT/harness && $W/vcheck-cover $c $tier >$W/$c.log 2>&1 ); echo "$c rc=$? $(tail -1 $W/$c.log | cut -c1-150)"
done
$GO tool covdata percent -i $W/cov | sed 's/^\s*//' | sort
$GO tool covdata func -i $W/cov > $W/func.txt
echo "== library functions never entered ($(grep -c '\s0.0%$' $W/func.txt) of $(grep -vc '^total' $W/func.txt))"
grep -v harness/cmd $W/func.txt | grep '\s0.0%$' | awk '{print $1, $2}' | sed 's#github.com/deepteams/webp/##'
$GO tool covdata textfmt -i $W/cov -o $W/cover.txt
echo "profile: $W/cover.txt (remove $W when done)"
