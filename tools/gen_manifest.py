#!/usr/bin/env python3
"""Generate MANIFEST.json from the table below (single source of truth)."""
import json, subprocess
CHECKS = {
 "C10": ("exploration", "race detector + solo-vs-concurrent differential + schedule perturbation at hooked sync points + offline trace checker + deadlock watchdog + forced-worker-count runs of every internal parallel section",
         "A stress mix of every public entry point (blocking writers, equal sizes so pools collide) runs in a -race build and in a normal build where each concurrent result must equal its solo result; multi-worker lossy encodes run under seeded perturbation policies at the hooked row-synchronisation points, must equal the single-worker bytes, and their event traces are checked against the row protocol; a hung child is a deadlock only if its goroutine dump shows workers parked in the row wait; every internal parallel section is entered above its size threshold with forced worker counts and 3 calls in flight, results must equal the one-worker solo result (std and -race builds); cold-start children: fresh processes whose first library calls are 8 goroutines released together into one operation (std and -race builds).",
         "Schedules are sampled, not enumerated; the trace order is sound because MB-end is logged before the signal and MB-begin after the wait returns.", "3/C10"),
 "C11": ("exploration", "history monitor: every result in long-lived processes vs the same call as first call of a fresh process; returned buffers re-hashed; pool-reuse counters prove collisions",
         "All ordered pairs of a 43-entry core plus random call sequences (length 3..30) over a catalogue built to collide in every pool (Encode/Decode, animation, mux, the public sharpyuv functions, readers that work on the caller's own bytes, values handed out and then modified by the caller), with GC disabled (pooled objects survive) or forced between calls; any deviation from the fresh-process reference or any change to a previously returned buffer is a violation.",
         "Pool hook H4 counts actual reuse; a run in which some pool was never hit fails as 'observed nothing'.", "3/C11"),
 "C13": ("exploration", "four-build differential (AVX2 / SSE2 / portable overlay build / js-wasm build run by node) on pipeline digests + kernel-level exerciser + cross-compilation of the module for GOOS/GOARCH targets",
         "The same case list is executed by three amd64 builds of the current tree (assembly with AVX2, assembly without, portable overlay) and, for a fixed fraction of the cases, by a js/wasm build under node; all digests must coincide; go build ./... is run for 14 representative targets in quick and for every `go tool dist list` pair in thorough.",
         "arm64 assembly and 32-bit targets are compile-checked only (cannot execute here).", "3/C13"),
 "C06": ("exploration", "hooked-state monitor: encoder reconstruction planes (per-pass hook) vs three decoders' pre-deblocking output",
         "A build-tag hook exports the planes the encoder used as prediction reference after the pass whose tokens are emitted (and again at return); they must equal libwebp's bypass_filtering output, x/image's unfiltered output and, for filter-off streams, webp.Decode, bit for bit, over the lossy option space incl. multi-pass/target-size and forced worker counts.",
         "Hook H5 (internal/verifhook.FramePass) is add-only; libwebp/x-image agreement is required before a verdict (otherwise inconclusive).", "3/C06"),
 "C08": ("exploration", "history round-trip monitor for the lossless animation encoder (added canvases as oracle; AnimDecoder and an independent compositor both play the file back)",
         "Random frame histories from a mutation grammar are encoded, read back and played; pictures smaller than the canvas occur anywhere in a history; the normalised picture sequences, per-picture display times, total duration, loop count and canvas size must match; 1/8 of the histories add pre-encoded frames (AddRawFrame, AddFrame(NewBitstreamFrame)) alone, after one picture or in the middle of a history (durations up to 2^24 ms and above), expected canvases from the reference compositor; a script forces duration-overflow filler frames followed by an erase.",
         "Both sides are normalised by merging consecutive identical canvases; transparent pixels compare equal regardless of colour.", "3/C08"),
 "C09": ("exploration", "reference-model monitor: AnimDecoder vs an independent compositing model on programmatic animations, incl. exhaustive small domain and blend arithmetic",
         "Every snapshot of every explored animation must equal the model's canvas; Reset must replay identically; returned snapshots are re-hashed after later calls; one non-opaque frame in six understates its alpha flag; one animation in four hands its frames over as RGBA / 16-bit / paletted / wrapper / shifted-origin and sub-image NRGBA images. Thorough enumerates the complete 2-frame small domain (6.7M tuples) and all 2^32 (src a,dst a,src c,dst c) blend cases.",
         "Blend oracle = exact special cases + libwebp's documented integer formula; unrealisable HasAlpha flags excluded.", "3/C09"),
 "C18": ("exploration", "history round-trip monitor for lossy / mixed-codec animations on the alpha plane (source alpha as oracle)",
         "Alpha-bearing frame histories x Lossless x AllowMixed x Quality x Kmin/Kmax; played-back alpha planes must equal the source alpha planes; codecs actually used per frame are read back.",
         "Frames with identical alpha planes are merged on both sides before comparison; colour is not compared.", "3/C18"),
 "C14": ("exploration", "history monitor: random Muxer call sequences checked against a model of what was put in, an independent RIFF walker, the Demuxer, the second parser and libwebp",
         "Each accepted history's output is demuxed and compared field by field with the history (payload bytes, alpha, offsets/2*2, clamped durations, blend/dispose, loop, background, canvas, metadata); rejected histories must write nothing; histories include Assemble in the middle and twice, offsets and canvases at the 24-bit field limits and at 2^30 pixels, AddChunk with ids of its own, ALPH-prefixed lossless payloads, metadata at the 100 MiB limit and summing above 256 MiB; every fourth history hands its payloads over as adjacent sub-slices of one buffer; frames are added until the muxer refuses and the output must still be readable; a chunk present in the file must be found by the demuxer.",
         "Model of accepted input: durations clamped to [0,2^24-1], loop count to [0,65535], animated iff >1 frame, a positive duration, or a single frame that does not cover its canvas (only a one-frame animation can carry its rectangle; D11, repaired).", "3/C14"),
 "C16": ("exploration", "cross-view agreement monitor (Decode result as oracle for the header queries; five container views compared pairwise)",
         "For every still that Decode accepts the header queries must succeed and match the decoded image; GetFeatures, DecodeConfig, Demuxer, animation reader and the independent walker must agree on canvas, animation flag, frame count, loop count; corpus includes Muxer-assembled animations with sub-rectangle first frames and canvases beyond 16 bits, lone frames at odd/even offsets, and hand-assembled animations of 4095..65537 frames around any frame-count limit (accepted by all views or by none).",
         "Hand-assembled variants that the strict walker flags are only compared among the views that accept them.", "3/C16"),
 "C17": ("fault_enumeration", "exhaustive truncation monitor: every prefix of every corpus file through Decode/DecodeConfig/GetFeatures",
         "Every cut point 0..len-1 of each file in a diverse corpus of valid stills is enumerated (exhaustive per file); a prefix result must be an error or equal the complete file's.",
         "Corpus files are small (<= 64 px) so that len(F) decodes per file stay cheap; thorough adds larger files with all cuts in the last 4 KiB and every 97th elsewhere.", "3/C17"),
 "C05": ("exploration", "hostile-input monitor in supervised child processes (recover/fatal/watchdog/alloc accounting/result well-formedness) + CPU-time scaling probe",
         "Structure-aware mutation and hand-made declaration bombs against every decoding entry point (incl. ReadChunk, animation.Decode, readers without Len(), short reads, forced internal worker counts, extreme-aspect and Muxer-assembled seeds; playback past the end, Reset and replay, DecodeFrames called twice); each child logs the case before executing it, runs under ulimit -v, and measures TotalAlloc against a bound linear in input length and declared pixel area - where that is exceeded, the input is a violation only if the live heap of a second, sampled run exceeds the bound too; hangs are judged only after three isolated re-runs; 108 repeated-unit input families are timed (process CPU time) at n and 4n units, super-linear growth is a violation only at ratio > 10 with >= 0.4 s CPU three times in a row.",
         "Declared area comes from an over-approximating scanner; inputs whose declared-size bound exceeds 1.5 GiB are not executed (counted as inconclusive).", "3/C05"),
 "C12": ("exploration", "cross-process differential monitor over GOMAXPROCS values",
         "The same case list runs in child processes of one binary with GOMAXPROCS in {1,2,3,4,8,16,32}; digests of Encode bytes (every second lossy case with all options drawn, dithering included; a lossy-alpha family over alpha content x AlphaFiltering x AlphaCompression x AlphaQuality), Decode pixels and parallel frame decoding (also of animations with several undecodable frames) must equal the GOMAXPROCS=1 child's.",
         "Corpus built to sit above and just below every parallel threshold in the code base at the pinned commit.", "3/C12"),
 "C03": ("exploration", "differential decode monitor: VP8L stream synthesizer + libwebp-encoded files vs libwebp reference decoder",
         "Decodes thousands of syntactically valid VP8L streams that this package's encoder never emits (all transform orders, packings, cache/meta sizes, code shapes, distance codes) and compares every pixel with libwebp's decode; coverage counters come from the synthesizer's own choices.",
         "libwebp 1.2.4 is trusted as the definition of the format; a stream counts as valid iff libwebp accepts it.", "3/C03"),
 "C04": ("exploration", "differential decode monitor: VP8 key-frame + ALPH synthesizers and libwebp-encoded files vs libwebp (planes, RGBA), x/image as envelope check",
         "Bit-exact comparison of Y/Cb/Cr (loop filter included) and of alpha+upsampled colour against libwebp over synthesized key frames covering the header/mode/token syntax (also with coefficients far beyond what an encoder produces), and over libwebp-written files; every ALPH file is also read twice from the same byte slice through the animation reader.",
         "libwebp 1.2.4 trusted as RFC 6386/WebP reference; outside the envelope where libwebp and x/image agree a disagreement of the two references is inconclusive.", "3/C04"),
 "C15": ("exploration", "metadata round-trip monitor (blobs as oracle, metadata-free encode as reference, independent walker)",
         "Every subset of ICC/EXIF/XMP x blob classes x output kinds; blobs read back three ways, flags<=>chunks via the walker, payload/pixel identity against the metadata-free encode; two thirds of the cases draw every other encoder / animation option from its legal values; a chunk present in the file (empty ones included) must be found by the demuxer.",
         "Independent RIFF walker; empty blobs may be stored or omitted.", "3/C15"),
 "C20": ("exploration", "option-space totality and documented-equivalence monitor",
         "Drives each documented illegal value, each legal boundary, random sentinel subsets vs explicit defaults (byte equality), nil options, lossy-only options on lossless, presets and boundary dimensions; derived equivalences (TargetPSNR ignored when TargetSize is set, QMin=QMax pins the search, QMin/QMax clamp the quality) 'TargetPSNR must have an effect', and Lossless+Exact returning every source byte with and without metadata; panics are caught per call.",
         "Documentation table transcribed from encode.go comments (each row cites its sentence); validity via walker + Decode.", "3/C20"),
 # id: (level, technique, level text, level note, design ref)
 "C01": ("exploration", "round-trip monitor: source image as oracle, libwebp for attribution",
         "Runs Encode(lossless)->Decode on a stratified grid of image classes x Method x Quality x Exact x Go types x metadata and compares every pixel with the source; observes executions only, so it gives 'held on N round trips with these transform signatures', which is the right level for an all-inputs property of a codec.",
         "Trusts Go's color.NRGBAModel as the definition of the 8-bit non-premultiplied reading; libwebp 1.2.4 only for attribution.", "3/C01"),
 "C19": ("exploration", "byte-equality monitor over storage placements", "Same pixels stored in 20+ ways (views, strides, origins, wrapped views, types at and away from the origin) must give byte-identical files and leave every caller buffer untouched, with and without metadata (streaming and buffered writers); observes executions over image classes x options.", "Canonical reference = tight *image.NRGBA at origin; for non-NRGBA types the reference is the concrete type itself vs the same colours behind a wrapper, and for the 16-bit types also the NRGBA of their 8-bit reading.", "3/C19"),
 "C07": ("exploration", "round-trip monitor on the alpha plane (source alpha as oracle; libwebp for attribution)", "Compares the decoded alpha plane with the source over alpha pattern x AlphaCompression x AlphaFiltering x AlphaQuality x Method grids; quantised case checked against the documented level formula.", "Level formula transcribed from the encoder documentation (2+q/5, 16+8(q-70)); monotone-map reading of \"only quantised\".", "3/C07"),
 "C02": ("exploration", "structural conformance monitor + differential decode (libwebp, x/image)",
         "Every emitted file is walked by an independent strict RIFF/VP8/VP8L/ALPH walker and decoded by three decoders whose outputs must agree (planes, and the colours the returned image reports; also through the animation reader); sources also as sub-image views of larger parents; options drawn field-by-field from boundary sets with measured pairwise coverage.",
         "Trusts libwebp 1.2.4 and x/image (2019) as independent implementations and the walker's reading of the container spec.", "3/C02"),
}
NOT_YET = {}
props = [json.loads(l) for l in open('/verif/properties.jsonl')]
hooks_commits = []
try:
    out = subprocess.run(['git','-C','/repo','log','--format=%H %s'],capture_output=True,text=True).stdout
    for l in out.splitlines():
        h, s = l.split(' ',1)
        if s.startswith('verif-hook:'): hooks_commits.append(h)
except Exception: pass
m = {
 "version": 1,
 "setup_cmd": "./run.sh build",
 "hooks": {"guard": "verif", "enable": "go build -tags verif (run.sh builds the harness against /repo with -tags verif)",
           "baseline_off_cmd": "cd /repo && go build ./... && go test -vet=off -count=1 -timeout 25m ./...",
           "source_commits": hooks_commits, "add_only": True},
 "engines": [{"name": "vcheck", "path": "harness/cmd/vcheck", "serves_properties": sorted(CHECKS), "kind_free_text": "Go harness: generated workloads + runtime monitors (differential oracles, reference models, trace checkers, race detector)"}],
 "checks": [], "not_applicable": [],
 "notes": "Technique family: runtime monitoring. See DESIGN.md. Known findings: known_findings.json.",
}
for p in props:
    i = p['id']
    if i in CHECKS:
        lv, tech, text, note, ref = CHECKS[i]
        m["checks"].append({"property_id": i, "quick_cmd": f"./run.sh {i} quick", "thorough_cmd": f"./run.sh {i} thorough",
          "evidence_file": f"/verif/evidence/{i}.json", "replay_cmd_template": "./run.sh replay {path}", "engine": "vcheck",
          "level_claimed": {"category": lv, "text": text, "design_ref": ref}, "level_note": note, "technique": tech})
    else:
        m["not_applicable"].append({"property_id": i, "reason": NOT_YET.get(i, "monitor not built yet in this session (work in progress; see DESIGN.md section 3 for the planned monitor)")})
json.dump(m, open('/verif/MANIFEST.json','w'), indent=1)
print("checks:", len(m["checks"]), "not_applicable:", len(m["not_applicable"]))
