#!/bin/bash
# thorough_all.sh [ids...] -- run thorough tiers one after another (for `vp run`); prints one summary line per check.
cd "$(dirname "$(readlink -f "$0")")/.." || exit 2
ids=${@:-C01 C02 C03 C04 C05 C06 C07 C08 C09 C10 C11 C12 C13 C14 C15 C16 C17 C18 C19 C20}
for id in $ids; do
  start=$(date +%s)
  ./run.sh $id thorough > thorough-$id.log 2>&1; rc=$?
  echo "$id rc=$rc $(( $(date +%s) - start ))s :: $(tail -1 thorough-$id.log | cut -c1-300)"
  grep -E '^(VIOLATION|ERROR)' thorough-$id.log | head -5 | cut -c1-400
done
