#!/bin/bash
# confirm_mutant.sh <id>  -- confirm a sub-agent's seeded change in its scratch worktree /tmp/mut/<id>, store it under
# /verif/seeded/<id>/, remove the worktree. Confirmation = suite passes with the change; demo fails with it, passes without.
set -u
id=$1; wt=/tmp/mut/$id; out=/verif/seeded/$id
export GOFLAGS=-mod=mod GOPROXY=off GOTOOLCHAIN=local
export PATH=/root/go/pkg/mod/golang.org/toolchain@v0.0.1-go1.24.2.linux-amd64/bin:$PATH
[ -f $wt/_seeded/patch.diff ] || { echo "no patch in $wt/_seeded"; exit 2; }
cd $wt || exit 2
rm -rf /tmp/mut/_keep_$id; cp -r _seeded /tmp/mut/_keep_$id
git checkout -q -- . ; git clean -fdq -e _seeded
git apply _seeded/patch.diff || { echo "patch does not apply to pinned tree"; exit 2; }
democmd=$(python3 -c "import json;print(json.load(open('_seeded/meta.json'))['demo_cmd'])")
echo "== suite with patch"; go build ./... && go test -vet=off -count=1 -timeout 25m ./... >/tmp/mut/_suite_$id.log 2>&1; suite=$?
grep -v '^ok' /tmp/mut/_suite_$id.log | head -20
echo "suite exit=$suite"
echo "== demo with patch (must fail): $democmd"; (eval "$democmd") >/tmp/mut/_demo_with_$id.log 2>&1; dw=$?; tail -5 /tmp/mut/_demo_with_$id.log; echo "exit=$dw"
# remove the patch again (no git stash: refs/stash is shared by all worktrees of /repo)
git diff > /tmp/mut/_p_$id.diff; git checkout -q -- .
echo "== demo without patch (must pass)"; (eval "$democmd") >/tmp/mut/_demo_without_$id.log 2>&1; dwo=$?; tail -3 /tmp/mut/_demo_without_$id.log; echo "exit=$dwo"
if [ $suite -eq 0 ] && [ $dw -ne 0 ] && [ $dwo -eq 0 ]; then
  mkdir -p $out; cp -r /tmp/mut/_keep_$id/. $out/
  # keep demo test files that live outside _seeded
  git status --porcelain | grep '^??' | grep -v _seeded | awk '{print $2}' | while read f; do mkdir -p $out/extra/$(dirname $f); cp -r $f $out/extra/$f; done
  python3 - <<PY
import json
p='$out/meta.json'; m=json.load(open(p))
m['confirmed']={'suite_passes_with_patch':True,'demo_fails_with_patch':True,'demo_passes_without_patch':True,'how':'tools/confirm_mutant.sh in scratch worktree $wt: go build ./... && go test -vet=off -count=1 ./...; demo_cmd with and without patch'}
json.dump(m,open(p,'w'),indent=1)
PY
  echo "CONFIRMED $id -> $out"
  cd /; git -C /repo worktree remove --force $wt; rm -rf /tmp/mut/_keep_$id /tmp/mut/_*_$id.log
else
  echo "NOT CONFIRMED $id (suite=$suite demo_with=$dw demo_without=$dwo)"; exit 1
fi
