#!/usr/bin/env python3
"""Regenerate the seeded-change table of DESIGN.md (between the SEEDED-TABLE markers) from seeded/*/meta.json and seeded/RESULTS.tsv."""
import json, glob, os, re
res = {}
if os.path.exists('/verif/seeded/RESULTS.tsv'):
    for l in open('/verif/seeded/RESULTS.tsv'):
        f = l.rstrip('\n').split('\t')
        if len(f) >= 6:
            res.setdefault(f[0], []).append((f[2], f[4], f[5].replace('class=', '')))
rows = []
for d in sorted(glob.glob('/verif/seeded/*/meta.json')):
    sid = os.path.basename(os.path.dirname(d))
    m = json.load(open(d))
    summ = re.sub(r'\s+', ' ', m.get('summary', '')).replace('|', '/')
    need = re.sub(r'\s+', ' ', m.get('needs', '')).replace('|', '/')
    if len(summ) > 230: summ = summ[:227] + '...'
    if len(need) > 230: need = need[:227] + '...'
    outs = "; ".join(f"{chk}: {out}{' `'+cls+'`' if cls else ''}" for chk, out, cls in res.get(sid, [(m.get('property', '?'), 'not run', '')]))
    rows.append(f"| {sid} | {summ} | {need} | {outs} |")
table = "| id | what it changes | needs | check: outcome (quick tier) |\n|----|-----------------|-------|------------------------|\n" + "\n".join(rows)
p = '/verif/DESIGN.md'
s = open(p).read()
a, b = '<!-- SEEDED-TABLE-BEGIN -->', '<!-- SEEDED-TABLE-END -->'
if a in s:
    s = s[:s.index(a) + len(a)] + "\n" + table + "\n" + s[s.index(b):]
    open(p, 'w').write(s)
print(len(rows), "rows")
