#!/bin/bash
# try_mutant.sh <seeded-id> <Cnn> [tier]  -- run a check against a scratch worktree of /repo HEAD with the seeded patch applied.
# Prints DETECTED / MISSED. Leaves /repo and /verif/evidence untouched.
VROOT="$(cd "$(dirname "$(readlink -f "$0")")/.." && pwd)"  # the /verif copy this tool belongs to (a vp-run snapshot uses its own)
id=$1; prop=$2; tier=${3:-quick}
wt=/tmp/vt/$id-$prop; out=/tmp/vt/out-$id-$prop
mkdir -p /tmp/vt; rm -rf $out
git -C /repo worktree remove --force $wt 2>/dev/null
git -C /repo worktree add --detach $wt HEAD -q || exit 2
if ! git -C $wt apply $VROOT/seeded/$id/patch.diff 2>/tmp/vt/apply-$id.err; then
  if ! git -C $wt apply --3way $VROOT/seeded/$id/patch.diff 2>>/tmp/vt/apply-$id.err; then
    echo "PATCH-CONFLICT $id"; cat /tmp/vt/apply-$id.err | head -5; git -C /repo worktree remove --force $wt; exit 3
  fi
fi
VERIF_REPO=$wt VERIF_OUT=$out $VROOT/run.sh $prop $tier > /tmp/vt/log-$id-$prop.txt 2>&1; rc=$?
nv=$(grep -c '^VIOLATION' /tmp/vt/log-$id-$prop.txt)
if [ $rc -eq 1 ] && [ $nv -gt 0 ]; then echo "DETECTED $id by $prop $tier ($nv violation lines): $(grep '^VIOLATION' /tmp/vt/log-$id-$prop.txt | head -1 | cut -c1-300)";
elif [ $rc -eq 0 ]; then echo "MISSED $id by $prop $tier"; else echo "ERROR rc=$rc $id $prop"; tail -5 /tmp/vt/log-$id-$prop.txt; fi
git -C /repo worktree remove --force $wt; hh=$(echo "$wt" | md5sum | cut -c1-8); rm -rf $out $VROOT/harness/bin/*alt.$hh* $VROOT/harness/bin/vcheck-*-alt.$hh* $VROOT/harness/bin/overlay-*-alt.$hh* 2>/dev/null
exit 0
