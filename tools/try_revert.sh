#!/bin/bash
# try_revert.sh <fix-commit> <Cnn> [tier] -- run a check against /repo HEAD with one fix commit reverted (scratch worktree).
VROOT="$(cd "$(dirname "$(readlink -f "$0")")/.." && pwd)"  # the /verif copy this tool belongs to (a vp-run snapshot uses its own)
commit=$1; prop=$2; tier=${3:-quick}
wt=/tmp/vt/rev-$commit-$prop; out=/tmp/vt/out-rev-$commit-$prop
git -C /repo worktree remove --force $wt 2>/dev/null; rm -rf $out
git -C /repo worktree add --detach $wt HEAD -q || exit 2
git -C $wt revert --no-commit $commit >/dev/null 2>&1 || { echo "REVERT-CONFLICT $commit"; git -C /repo worktree remove --force $wt; exit 3; }
VERIF_REPO=$wt VERIF_OUT=$out $VROOT/run.sh $prop $tier > /tmp/vt/log-rev-$commit-$prop.txt 2>&1; rc=$?
nv=$(grep -c '^VIOLATION' /tmp/vt/log-rev-$commit-$prop.txt)
if [ $rc -eq 1 ] && [ $nv -gt 0 ]; then echo "DETECTED revert of $commit by $prop $tier ($nv): $(grep '^VIOLATION' /tmp/vt/log-rev-$commit-$prop.txt | head -1 | cut -c1-260)";
elif [ $rc -eq 0 ]; then echo "MISSED revert of $commit by $prop $tier"; else echo "ERROR rc=$rc"; tail -5 /tmp/vt/log-rev-$commit-$prop.txt; fi
git -C /repo worktree remove --force $wt; hh=$(echo "$wt" | md5sum | cut -c1-8); rm -rf $out $VROOT/harness/bin/*alt.$hh* $VROOT/harness/bin/vcheck-*-alt.$hh* $VROOT/harness/bin/overlay-*-alt.$hh* 2>/dev/null
