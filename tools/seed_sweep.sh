#!/bin/bash
# seed_sweep.sh "<seeds>" [ids...] -- quick tier of every check at several VERIF_SEED values (for `vp run`): prints non-clean lines only + a summary.
cd "$(dirname "$(readlink -f "$0")")/.." || exit 2
seeds=${1:-"1 2 3 4 5"}; shift
ids=${@:-C01 C02 C03 C04 C05 C06 C07 C08 C09 C10 C11 C12 C13 C14 C15 C16 C17 C18 C19 C20}
bad=0
for s in $seeds; do for id in $ids; do
  VERIF_SEED=$s ./run.sh $id quick > sweep-$id-$s.log 2>&1; rc=$?
  if [ $rc -ne 0 ]; then bad=$((bad+1)); echo "NOT-CLEAN seed=$s $id rc=$rc"; grep -E '^(VIOLATION|ERROR)' sweep-$id-$s.log | head -3 | cut -c1-400; fi
  echo "seed=$s $id rc=$rc :: $(tail -1 sweep-$id-$s.log | cut -c1-200)"
done; done
echo "SWEEP DONE not-clean=$bad"
